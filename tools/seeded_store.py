#!/usr/bin/env python3
"""tools/seeded_store.py <PROP> <n> <needs> <detected_by_json> [<stored-n>]  (SEED_ROUND=2 reads /tmp/seeded-out2)  - copies /tmp/seeded-out/<PROP>/{patchN.diff,demoN.*,RUNN.md,NOTES.md} to /verif/seeded/<PROP>-s<n>/ and writes meta.json"""
import sys, os, json, shutil, glob
prop, n, needs, det = sys.argv[1], sys.argv[2], sys.argv[3], json.loads(sys.argv[4])
src = '/tmp/seeded-out%s/%s' % (os.environ.get('SEED_ROUND', ''), prop)
dst = '/verif/seeded/%s-s%s' % (prop, sys.argv[5] if len(sys.argv) > 5 else n)
os.makedirs(dst, exist_ok=True)
shutil.copy('%s/patch%s.diff' % (src, n), dst + '/patch.diff')
for f in glob.glob('%s/demo%s*' % (src, n)):
    shutil.copy(f, dst + '/' + os.path.basename(f))
for f in ['RUN%s.md' % n, 'NOTES.md']:
    if os.path.exists(src + '/' + f):
        shutil.copy(src + '/' + f, dst + '/' + f)
meta = {
    "property": prop,
    "origin": "written by an independent sub-agent that was given only the property's text and a scratch worktree",
    "needs_to_manifest": needs,
    "confirmed_by": "tools/seeded_confirm.sh in the scratch worktree: demo passes unchanged, patch applies and builds, demo fails with the patch, existing suite passes with the patch (test_tcp tests excluded: fixed ports, flaky under load per BASELINE.json)",
    "checks_run": det.get("ran", []),
    "detected_by": det.get("detected", []),
    "missed_by": det.get("missed", []),
    "notes": det.get("notes", ""),
}
json.dump(meta, open(dst + '/meta.json', 'w'), indent=1)
print("stored", dst)
