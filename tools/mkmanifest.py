#!/usr/bin/env python3
"""Writes /verif/MANIFEST.json from the table below (kept in one place so the file stays valid)."""
import json, os, sys

ROOT = os.path.dirname(os.path.dirname(os.path.abspath(__file__)))

ENGINES = [
    {"name": "vl-model", "path": "harness/vl-model",
     "serves_properties": [], "kind_free_text": "shared library: run context/evidence, proptest plumbing, request alphabet + reference model + reply-stream checker, T-service constants, socket peers, IDL model/generators/reference recogniser, shared oracles (also used by the libFuzzer targets), child-process isolation, fuzz campaign runner"},
    {"name": "vl-tsvc", "path": "harness/vl-tsvc",
     "serves_properties": [], "kind_free_text": "the harness' test service (bindings generated at build time by /repo's generator) and the helper binary vl-svc: listen / socket-activated / stdio / resolver service, spawning-constructor clients, Listener::new activation matrix probe"},
    {"name": "vl-core", "path": "harness/vl-core",
     "serves_properties": ["C01", "C02", "C03", "C04", "C05", "C06", "C07", "C13", "C14", "C15", "C16", "C17"],
     "kind_free_text": "in-process property-based / bounded-exhaustive checks against the varlink crate (handle(), listen(), client MethodCall, thread pool via cfg-guarded probes)"},
    {"name": "vl-idl", "path": "harness/vl-idl", "serves_properties": ["C10", "C11", "C12"],
     "kind_free_text": "grammar-directed generation, differential testing against a hand-written reference recogniser, round-trip/idempotence of the formatter"},
    {"name": "vl-gen", "path": "harness/vl-gen", "serves_properties": ["C08", "C09"],
     "kind_free_text": "generated IDLs through every generator front-end, cargo check of the output, compiled client/server round-trip driver"},
    {"name": "vl-proc", "path": "harness/vl-proc", "serves_properties": ["C18", "C19", "C20"],
     "kind_free_text": "process-level differential checks of the built varlink CLI and certification binaries"},
    {"name": "fuzz", "path": "harness/fuzz", "serves_properties": ["C06", "C10", "C11", "C12"],
     "kind_free_text": "cargo-fuzz/libFuzzer targets with the semantic oracle inside the target (thorough tiers)"},
]

# id -> dict(level, text, note, technique, design_ref, thorough(bool))
CHECKS = {}

def check(pid, level, text, note, technique, design_ref, thorough=True):
    CHECKS[pid] = dict(level=level, text=text, note=note, technique=technique, design_ref=design_ref, thorough=thorough)

check("C01", "exploration",
      "Bounded-exhaustive enumeration of all request sequences up to length 2 (quick) / 3 (thorough) over a 76-symbol alphabet (19 kinds x {none, more, oneway, more+oneway}) at every pipelining depth through handle(), plus proptest-generated longer sequences (with shrinking) through handle() and through a real unix socket served by listen(); every reply stream is judged by an independent reference model of the test service and a reply-stream checker (order, exactly-once, no silent skip while open). Sampling, not proof: absence is only established inside the enumerated bound.",
      "Trusted: serde_json, the harness' reference model (written from the property statements), the test service implementation. A closed connection is never itself a violation (the statement permits it). Socket hangs are reported as inconclusive (exit 2), never as violations.",
      "bounded-exhaustive enumeration + proptest sequences vs. reference model (model-based testing)", "DESIGN.md §4 C01")

check("C02", "exploration",
      "Metamorphic testing of handle(): for every stream of 1-2 messages over the extended alphabet (incl. 8 KiB-boundary messages, upgrade + payload, incomplete trailing message) every single cut point (exhaustive for streams <= 2 KiB), every pair of cuts (<= 160 B), byte-at-a-time, and proptest random k-cuts on longer streams; reply bytes, error position, returned tail and the bytes seen by a recording upgraded handler must equal those of the unsegmented run / of the bytes themselves. The same streams are sent through a unix socket served by listen() with the cut list as write schedule (0-3 ms pauses) and compared byte-for-byte with the in-memory run of the same service instance.",
      "Trusted: the harness' re-feeding loop (tail ++ unread reader bytes, as documented), serde_json. Socket schedules are sampled, not enumerated.",
      "metamorphic relation (segmented vs whole) with bounded-exhaustive cut enumeration + proptest", "DESIGN.md §4 C02")

check("C04", "exploration",
      "All sequences (len <= 2 quick / 3 thorough) containing a oneway request at every depth through handle(), random longer ones through handle() and listen(); two oracles: the reference model (no reply attributable to a oneway request, later replies aligned by token) and a metamorphic twin (reply bytes equal those of the stream with the oneway requests removed). Client side: all (oneway kind, following call kind) pairs and random {call, oneway, more} histories on one connection against the real server: oneway() returns Ok, leaves the connection slots, the next call gets its own token.",
      "Trusted: reference model, serde_json. Closing the connection in answer to a oneway request is allowed.",
      "model-based + metamorphic (remove-oneway twin) testing; stateful client histories via proptest", "DESIGN.md §4 C04")

check("C03", "exploration",
      "proptest-generated services (0-6 recording interfaces with structurally related names, optionally the generator-made org.verif.test family, arbitrary info/description strings) x method strings derived from the registered names (exact, prefix, extension, case variant, empty element, leading/trailing dot, no dot, built-in) x arbitrary JSON parameters x flags; an independent routing oracle (split at last dot, set lookup) decides who must have seen the call and which reply / standard error must come back; GetInfo and GetInterfaceDescription are checked against the configured values verbatim.",
      "Trusted: serde_json (floats compared after its own text round trip), the recorder interfaces. For ill-typed `interface` parameters and method names without a dot only 'no success reply' is asserted.",
      "property-based testing against an independent routing oracle", "DESIGN.md §4 C03")

check("C05", "exploration",
      "Server: all 341 (quick; 5461 thorough) scripts over {set_continues(b), reply, reply_error} x 4 flag combinations inside a hand-written Interface::call, plus random scripts with arbitrary values, judged by a reference interpreter of the statement (wire bytes and per-action result). Client: k = 0..32 sweep and random scripted reply streams (arbitrary continues parameters, final result or standard/custom error, follow-up calls) from a fake service on a socketpair; more() must yield exactly the sent items, then end, slots returned, follow-ups aligned.",
      "Trusted: serde_json; the fake service writes replies before the client calls (deterministic, no threads).",
      "bounded-exhaustive script enumeration + proptest vs. reference interpreter; scripted fake server", "DESIGN.md §4 C05")

check("C07", "exploration",
      "(a) proptest over final reply objects vs. an independent reply->outcome mapping; (b) every client operation history up to length 4 (quick) / 5 (thorough) and random ones up to 12 against a model of the connection slot state, with the fake server's byte log proving that rejected calls wrote nothing; (c) 2-8 real threads sharing one connection against a live scripted server with generated op lists (sampled OS schedules, schedule-independent oracle: own token or busy error, intact request log, idle and usable afterwards).",
      "Trusted: serde_json, the fake/live scripted servers. (c) samples schedules only; a hang would end as exit 2 via the watchdog.",
      "model-based stateful testing (bounded-exhaustive + proptest) and randomized multi-thread stress with invariant oracle", "DESIGN.md §4 C07")

check("C06", "fault_enumeration",
      "Systematic fault enumeration over a 24-stream corpus: every truncation point and, per byte position, bit flips / delete / duplicate / insert NUL / insert invalid UTF-8 / lone-surrogate escape; per JSON value position retyping to every other JSON type and member removal; nesting depths 1..10000 inside parameters and at top level; empty, blank, scalar and 16 MiB messages; plus proptest-generated byte strings biased to JSON tokens. Every piece of the mutated stream is classified independently; the oracle demands exact model replies for untouched pieces before the fault, no reply + Err for the first malformed piece, at most one well-shaped reply for mutated-but-well-formed pieces, no panic. The in-memory part runs in a journaled child process so that a process abort is attributed to its case. Through listen(): sampled mutants on a faulty connection beside a healthy one (tagged calls before/during/after) and a fresh connection afterwards; the faulty connection must be closed by the service; a worker panic is detected when the pool is joined.",
      "Trusted: serde_json decides what is JSON (classifier). Pieces the statement does not decide (top-level array, duplicate members, nesting within 8 of serde_json's limit) end the alignment check of that stream. Socket stalls are inconclusive (exit 2).",
      "systematic fault injection (mutation operators enumerated per position) + proptest random bytes, classifier-based oracle", "DESIGN.md §4 C06")

check("C17", "exploration",
      "Systematic part: all 3x3x3 flag combinations x 7 parameter shapes x 4 method strings for Request, all Reply combinations, all 256 subsets of 8 awkward keys for StringHashSet. Random part: proptest values of every wire type through all 12 serialiser/deserialiser pairs (to_string/to_vec/to_value x from_str/from_slice/from_reader/from_value), shape oracles (unset members omitted, sets as objects of empty objects), and arbitrary valid request/reply JSON objects deserialised and serialised back (equal modulo null-valued optional members).",
      "Trusted: serde_json. Floats are restricted to those serde_json reads back exactly from its own output; Rust-side parameters: Some(Null) is excluded (JSON null is the absent optional).",
      "round-trip property testing (all serialiser x deserialiser pairs) with proptest + systematic enumeration", "DESIGN.md §4 C17")

check("C10", "exploration",
      "For every generated definition (grammar-directed generator with trivia decorator and documentation comments; plus the repository's definitions) EVERY width 0..=200 and {1000, usize::MAX} is formatted: the output must parse, equal the intended structure (name, documentation comment lines, per-kind member order, names, types), be a fixed point of the formatter, equal Display at width 80, and equal the colored rendering with escape sequences stripped (which must contain some). A proptest run with shrinking covers a width subset, and the built `varlink format` tool is compared with the library on a sample.",
      "Trusted: the harness' generator/decorator (cross-checked against the reference recogniser in C11); the parser is used to read formatted text back, but the expected structure comes from the generator. Widths are complete for 0..=200 only.",
      "round-trip + idempotence + differential (plain vs colored, library vs CLI) over generated definitions x all widths", "DESIGN.md §4 C10")

check("C11", "exploration",
      "Differential testing of IDL::try_from against a hand-written recursive-descent reference recogniser: (a) decorated valid texts must be accepted with exactly the intended structure and documentation; (b) every token-level near miss (delete / duplicate / swap / substitute / insert 24 tokens / split a token with a blank) of 120 (quick) / 2000 (thorough) texts; (c) exhaustively every interface name over {a,B,1,-,.} up to length 7 and every type expression up to 5 tokens over 8 constructors (plus blank-infested variants up to 4 of 12); (d) all 511 subsets of the 9 kind x kind name collisions and random multi-duplicates: the error must name every duplicated name.",
      "Trusted: the reference recogniser (self-checked against the generator on every generated text; disagreement is reported as inconclusive, not as a violation). Placements classified `unspecified` (blanks before a comma, interface without members, comment after blanks on a member's line or ended by EOF) are skipped and counted.",
      "differential testing vs. reference recogniser; bounded-exhaustive name/type enumeration; mutation-based near misses", "DESIGN.md §4 C11")

check("C12", "exploration",
      "Totality: every prefix of 67 (quick) / 607 (thorough) definitions, all five line-end re-encodings (+ mixed, + broken in the middle), nesting depth 1..200 of five shapes (+ unbalanced) and arrays to 2000, proptest token soup over all Unicode planes and byte-level mutations of valid definitions; each case under catch_unwind on 8 MiB stacks with an in-process 10 s watchdog inside a journaled child process (an abort or hang is re-run in isolation before it is reported). Diagnostics: reported line is a line of the input, column within it, rendering works and shows the line.",
      "Trusted: the harness. Nesting beyond the stated depths is outside the quantifier. A hang that does not reproduce in isolation is inconclusive (exit 2).",
      "property-based robustness testing (generated + mutated inputs) with diagnostic-location oracle; child-process isolation", "DESIGN.md §4 C12")

check("C14", "model_checking",
      "Harness-owned schedules of the real ThreadPool through cfg-guarded blocking probes: explicit-state depth-first enumeration of ALL interleavings (at probe granularity) of the acceptor's count/enqueue/grow steps with every worker's wait/dequeue/run/mark-idle steps, memoised on the abstract pool state, for 7 configurations (quick) / all initial 1..3 x max 1..4 x jobs 1..5 (thorough, state cap 60000 per configuration reported in evidence); every explored edge is executed on the real pool (no separate model of the pool's decisions: the controller follows the implementation's reported growth decision and only relies on std mpsc/Mutex hand-off semantics). Invariants at every state: active jobs <= max; at quiescent states queue empty or max active; every job runs once. Plus proptest random schedules on configurations up to 8 workers / 12 jobs (shrinking) and probes through real listen() counting concurrently served connections.",
      "Trusted: the probes sit where the commit places them (a change that moves shared-state accesses across a probe is explored at the new granularity); std::sync::mpsc/Mutex semantics; 10 s arrival timeout -> trace validation failure = exit 2. Interleavings finer than probe granularity are not explored.",
      "stateful model checking of the real implementation (DFS over controlled schedules) + proptest random schedules", "DESIGN.md §4 C14, §5a")

check("C16", "exploration",
      "(A) differential testing across transports: proptest request sequences are sent over unix path, unix path;mode=, abstract unix, TCP (each reached through the library's own varlink_connect), a service spawned by Connection::with_activate and the stdio of a command spawned by Connection::with_bridge; every reply stream must satisfy the reference model and equal the in-memory handler's. (B) both spawning constructors are exercised in fresh helper processes with 0..3 placeholder descriptors (so the listening socket is / is not already descriptor 3); the activated service dumps environment and descriptor table (fd 3 listening, LISTEN_FDS/FDNAMES/PID/VARLINK_ADDRESS). (C) the complete 5x4x4x3 activation-environment matrix for Listener::new in helper processes. (D) proptest garbage address strings: InvalidAddress from client and server alike.",
      "Trusted: helper binary vl-svc (part of the harness). Debug-assertion builds only (std aborts on a doubly owned descriptor there); the release-profile double-close race is not searched. A constructor that does not return within 20 s in a fresh process, twice, is reported as a violation.",
      "differential testing across transports + configuration-matrix enumeration + proptest address strings", "DESIGN.md §4 C16")

check("C13", "exploration",
      "proptest-generated rounds of 2..24 (quick) / 64 (thorough) simultaneous clients on one in-process listen() server over unix path, abstract unix and TCP; every client pipelines its own tagged C01 request sequence in random segments with 0-5 ms pauses while up to 4 misbehaving peers (idle, silent, half a message, malformed) are held open. Each client's complete reply stream is judged by the C01 reply-stream checker against its own expectations (foreign tokens, missing or surplus replies fail). Blocking is reported only for the pattern 'stuck while the misbehaving peers are open, done once they are closed' seen in two consecutive runs.",
      "OS schedules are sampled, not enumerated (the oracle is schedule-independent). Other stalls are inconclusive (exit 2). A panicking worker is detected when the pool is joined.",
      "randomized concurrency stress (proptest rounds) with per-connection model-based oracle", "DESIGN.md §4 C13")

check("C15", "exploration",
      "47 fixed scenarios (idle_timeout 1/2 s and stop flag x three worker configurations x connection plans: none, just before the deadline, closing at the deadline, living across deadlines with a late joiner, a 2000-reply streaming call in flight when the flag is set) plus proptest-generated plans on a 50 ms grid, each with a private socket, 24 in parallel. One-sided bounds on a monotonic clock decide: timeout only with idle_timeout and not before last accepted connect + idle_timeout; Ok only with the flag and not before it; never before the close of a served connection; reply streams complete (incl. the streaming call); late joiner served while another connection is alive; socket path removed. Upper bounds (promptly/shortly) must be missed twice in a row.",
      "Liveness is approximated by generous bounds with a repeat rule. Histories with a steady stream of connections faster than the 100 ms poll quantum are outside the quantifier (see DESIGN.md D12).",
      "scenario-based property testing with time-bound oracles (fixed family + proptest plans)", "DESIGN.md §4 C15")

check("C18", "exploration",
      "Differential testing of the built `varlink bridge` in four modes (resolver lookup through a harness resolver with two test services behind it, --connect, --activate, --bridge): fixed sessions for every mode plus proptest-generated sessions (plain/more/oneway calls across both services, service-info queries, optional upgrade with arbitrary payload sent after or together with the upgrade request, pipelined or one-at-a-time client, and the close-right-after-last-request variant). The bridge's stdout must equal byte for byte the reply stream of direct sockets to the same services (GetInfo from the resolver in resolver mode; upgraded payload answered by its upper-cased echo) and the bridge must exit 0 after the client closes.",
      "Trusted: helper services vl-svc (harness). Resolver mode is restricted to request kinds whose interface resolves and after which services keep their connection open. A bridge that does not deliver / exit within 10 s twice in a row is reported as stuck; once is only counted.",
      "differential testing against direct connections (process level), proptest sessions with shrinking", "DESIGN.md §4 C18")

check("C19", "fault_enumeration",
      "Systematic single-fault enumeration against the built varlink-certification process: for each of the 13 steps the canonical prefix is run on a fresh raw connection (parameters learned from the service's own replies), then one deviating request is sent: all 7 non-canonical flag combinations, parameters removed / null / retyped, unknown / empty / foreign client id, every other step's request (wrong position), and per leaf of the canonical parameters: removal, change within type, retyping to each other JSON type (818 deviations, semantically equal encodings excluded). Then proptest double deviations and 1..16 concurrent canonical clients with tape-driven interleaving. A deviating request must never get a reply without `error`.",
      "Trusted: the harness' notion of semantically equal encodings (int for equal float, null for absent optional, string-set element values, unknown members of struct-typed values). Stalls are inconclusive.",
      "systematic fault injection per protocol step + proptest double faults and interleavings", "DESIGN.md §4 C19")

check("C20", "exploration",
      "The built `varlink call` is run against a scripted fake service (raw sockets): a sweep k=0..8 x {success, custom error, standard error, closed connection} and proptest-generated cases over reply values (boundary integers, floats, non-ASCII / escape-heavy strings, nested values, absent/null parameters), --more with 0..8 continues replies, the four standard errors with well-typed / missing / ill-typed parameters, custom errors, connection closed before the final reply, three address forms (unix path with several slashes, abstract, tcp) and --color on/off. stdout parsed as a JSON document stream must equal the successful replies' parameters in order, exit status 0 iff all replies arrived and none was an error, stderr names error and parameters, and the fake service must have received exactly method, `more` flag and arguments.",
      "Trusted: the fake service (harness), serde_json (values restricted to what it carries losslessly through its own text form).",
      "property-based testing of the CLI against a scripted fake server (process level)", "DESIGN.md §4 C20")

check("C09", "exploration",
      "Grammar-directed definitions (resolving references, finite types, distinct names; anonymous types in every position; ordinary, IDL-keyword and Rust-keyword names) are pushed through all nine front-ends in rotation (generate() with/without header, compile(), the CLI via stdin and file, cargo_build_many and cargo_build_tosource in a build script, varlink! and varlink_file!), collected in one batch crate and type-checked with `cargo check --message-format=json`; any error diagnostic is attributed to its module and reported; text-producing front-ends are cross-checked for identical token streams. Eight recorded classes of genuine generator defects (K1-K8, see KNOWN_FINDINGS.json) are excluded from the must-pass batch by exact predicates (counted) and re-checked separately: a fixed example per class and up to six generated examples, whose diagnostics must have the recorded error codes - anything else is a new violation. Rejection half: near-miss and duplicate definitions must be refused by every front-end without output.",
      "Trusted: rustc/cargo as installed; the harness' known-class predicates. 90 definitions quick / 1500 thorough.",
      "grammar-based generation + compile-checking of generator output (differential across front-ends)", "DESIGN.md §4 C09, §5 D11")

check("C08", "exploration",
      "For 12 (quick) / 120 (thorough) generated definitions outside the generator's known-finding classes, the harness emits - from its own IDL model - a driver (implementation of the generated server trait, calls of the generated client stubs) and builds it together with the generated modules; client and server then talk over an in-process loop-back whose two directions are recorded. proptest drives 400 (quick) / 3000 cases per definition: type-directed argument / reply / error values x modes {call, more, oneway}. Oracle: wire request (method name, flags, parameters in the IDL's JSON shape under a type-directed comparison), equality of what the implementation received, wire replies / declared errors equal to the scripted JSON, typed equality at the client (reply struct / ErrorKind variant), and InvalidParameter for raw requests with a required member dropped or a leaf retyped.",
      "Trusted: the harness' IDL model and value generator, rustc. A driver that does not compile against a generated module is reported as a violation only when the diagnostics lie in generated/driver modules (the bindings' shape differs from the IDL's); other build failures are inconclusive.",
      "round-trip / differential testing of generated client vs generated server against the IDL model (proptest values)", "DESIGN.md §4 C08")

# parts added after the rounds of independently seeded changes (DESIGN.md 9.7)
EXTRA = {
 "C02": "Streams of small requests with one ending exactly on a multiple of 8 KiB; an upgrading call without the upgrade member. Every third request token carries multi-byte characters, so cuts also fall inside a character. The repository's own reference caller of the tail API (examples/ping --multiplex, built binary) is driven with segmented, pipelined requests and two close schedules.",
 "C03": "For one case in five a dot-less call travels in front in the same buffer; later name elements may start with a digit. Recorder descriptions vary in shape (no final newline, several, CRLF, trailing blanks) and must come back byte for byte.",
 "C04": "Client: over a scripted fake peer the complete request is on the wire the moment oneway()/call() returns. Server: oneway / more+oneway Upgrade requests behind every symbol.",
 "C05": "Client streams contain error replies that carry continues:true (the stream goes on). Server scripts also run with the refused reply's error handed to the service and a further request buffered behind.",
 "C06": "Extra mutation family: unknown members with invalid UTF-8; after a fault the peer's writes must be refused (fully closed); listen() cases are journaled so that a process death is attributed to its input. Thorough: 12 parallel libFuzzer processes on c06_handle.",
 "C07": "A second thread's call while a plain call waits for its (held back) reply must fail busy at once. Streams with an error reply carrying continues:true, a call after an iterator dropped mid-stream (must never receive a reply of that stream), and every final reply read through a typed call object followed by another call.",
 "C08": "Two hand-written definitions are part of every run (an error named like a standard error, map of nullable values, object members with nulls).",
 "C09": "One cargo_build_many call with several definitions (a rejected one anywhere fails the call). Every other definition starts with a documentation comment; histories of build-script helper runs that share an output directory (rejected / valid / rejected-not-newer).",
 "C10": "The parser's documentation text is compared character for character; for every other definition the colored rendering is taken before the plain one; definitions with 32..61 interleaved members; member order read off the formatted text when the parser misreads the input. Thorough: libFuzzer target c10_format.",
 "C11": "Documentation text must run from the first '#' to the last non-blank character; definitions with 32..61 interleaved members.",
 "C13": "Eight clients pipelining 2000 requests each to four interfaces. Runs in a journaling child (a process death is attributed to its round); peers: legal request nested 120 deep, idle/silent peers that call after sitting; a connection closed although none of its own requests ends a connection; fresh-server scenarios with 1.3-11 s of silence between two bursts (one connection open throughout); bursts of 3..16 connections that all stay open.",
 "C14": "listen()-level probes (6 rounds x 12 configurations): bound, and a connection left unserved for 5 s that repeats within three further runs is a stranded connection; grown-quiet-full-again probes (one connection open through 1.3-11 s of silence).",
 "C15": "A stop flag configured but never set; a client that connects 400 ms or more after the flag must not be served. Saturated-pool scenarios; a connection that connected 150 ms or more before the flag must be served before listen() returns.",
 "C16": "A stale socket file lies in the way of every filesystem address; on every transport a connection stays silent for 350 ms between two calls. Commands that serve nothing (with_activate / with_bridge) must yield an error, not a wait. Additional transports: services started by the harness like a service manager (descriptor 3 + LISTEN_*, default listen configuration) with a blocking and a non-blocking inherited listener; four shell forms of the bridge command.",
 "C17": "Error names of other interfaces that share a standard error's last element, and near-misses.",
 "C18": "A second world whose service writes JSON with blanks; close while a 300 ms reply is pending; full client hang-up (stdin and stdout) while a 400 ms reply is pending (exit status 0 in all modes); bytes that arrive only after the client closed its side count as slow; a raw greeter service that speaks first after the upgrade (same write as the reply / 300 ms later while the client is silent).",
 "C19": "Test steps sent again after End; five respellings of the client's own id; duplicate-step race (one id, one step, six connections at once: exactly one success); near-miss values (float * (1+1e-10), integer - 1, letter case).",
 "C20": "Abstract names with slashes and dots; tcp addresses by host name; final replies that spell out continues:false; custom errors sharing a standard error's last name element.",
}
# parts added in round 6 of the seeded changes
EXTRA6 = {
 "C01": "A fifth request spelling carries an `upgrade: true` wish on methods that do not upgrade; long pipelines of 33..400 requests in one handle() call / one socket write; the alphabet has 19 kinds (a method without output parameters whose implementation replies).",
 "C02": "examples/ping --multiplex is also driven with upgrading calls: the payload in the same write as the request (below and beyond one 8 KiB read) or behind the upgrade reply must come back from the upgraded handler complete (D20, repaired).",
 "C03": "For another case in five a call to one of the registered interfaces travels in front of the case in the same buffer.",
 "C04": "The alphabet includes a method without output parameters whose implementation replies (an empty reply object).",
 "C05": "The end of a client stream is also taken while another thread holds a read guard on the shared connection.",
 "C07": "Part (d): read faults between a request and its reply; part (e): write / flush faults reported after the request bytes reached the peer - the peer's reply must reach no other call.",
 "C08": "Every call is made a second time on the same connection and must be served like the first; methods whose snake_case form is a Rust keyword (Type, Self, Do) are part of every run.",
 "C09": "Method names whose snake_case form is a Rust keyword are generated (former known class K4, repaired in /repo); members are documented with comment texts that mean something to Rust's lexer; the rejection half includes texts without any definition.",
 "C10": "Comment blocks with blank-only and empty lines between their comment lines.",
 "C13": "Peers gone mid-message, as many as the server has workers (1..3), then a newcomer; listen() must return after the stop flag once every client is gone (bounded wait, by repetition).",
 "C14": "Open/close histories through listen() (fixed and proptest-generated, 3..27 steps, 7 configurations): after every step min(open, max) of the open connections are in service and never more than max.",
 "C15": "A timeout error more than 30 ms after the stop flag was set (three runs in a row) is a violation; the flag raised inside the last poll interval before the idle deadline; a saturated pool whose queued connection then lives across idle deadlines with a late joiner.",
 "C16": "tcp:localhost:port (client and server resolve a host name).",
 "C18": "In the three copying modes the client closes while the service is busy for 4 s (the bridge stops, it does not wait for the service) and sessions end with a call after which the service closes right behind its reply (every reply still arrives, exit 0); two 401-call sessions in resolver mode under a 128-descriptor limit.",
 "C19": "Start with a non-object JSON value in place of its parameters.",
 "C20": "One reply script in three is written in about 37 pieces (boundaries inside multi-byte characters); large values made of three-byte characters.",
}
for _pid, _t in EXTRA.items():
    CHECKS[_pid]["text"] += " " + _t
for _pid, _t in EXTRA6.items():
    CHECKS[_pid]["text"] += " " + _t

ALL = ["C%02d" % i for i in range(1, 21)]

NOT_BUILT_REASON = "check not built yet in this round (design in DESIGN.md §4); not claimed until it exists and is validated"
NA = {}

def main():
    checks = []
    for pid in ALL:
        if pid not in CHECKS:
            continue
        c = CHECKS[pid]
        e = {
            "property_id": pid,
            "quick_cmd": "./check %s --tier quick" % pid,
            "evidence_file": "/verif/evidence/%s.json" % pid,
            "replay_cmd_template": "./check %s --replay {path}" % pid,
            "engine": next(e["name"] for e in ENGINES if pid in e["serves_properties"]),
            "level_claimed": {"category": c["level"], "text": c["text"], "design_ref": c["design_ref"]},
            "level_note": c["note"],
            "technique": c["technique"],
        }
        if c["thorough"]:
            e["thorough_cmd"] = "./check %s --tier thorough" % pid
        checks.append(e)
    na = []
    for pid in ALL:
        if pid not in CHECKS:
            na.append({"property_id": pid, "reason": NA.get(pid, NOT_BUILT_REASON)})
    hooks_commits = []
    hp = os.path.join(ROOT, "hooks_commits.txt")
    if os.path.exists(hp):
        hooks_commits = [l.split()[0] for l in open(hp) if l.strip()]
    m = {
        "version": 1,
        "setup_cmd": "./setup.sh",
        "hooks": {
            "guard": "--cfg varlink_rust_verif",
            "enable": "RUSTFLAGS='--cfg varlink_rust_verif' (set in harness/.cargo/config.toml); every engine depends on /repo's crates by path, so `cargo build` in ./check recompiles the current working tree with the probes on",
            "baseline_off_cmd": "cd /repo && cargo test --workspace --no-fail-fast --offline",
            "source_commits": hooks_commits,
            "add_only": True,
        },
        "engines": ENGINES,
        "checks": checks,
        "not_applicable": na,
        "notes": "All checks: exit 0 held / exit 1 + 'VIOLATION property=<id> replay=<path>' / exit 2 inconclusive (harness build failure, watchdog, hang). VERIF_SEED selects the PRNG stream; KNOWN_FINDINGS.json lists recorded findings and repaired defects. See DESIGN.md.",
    }
    with open(os.path.join(ROOT, "MANIFEST.json"), "w") as f:
        json.dump(m, f, indent=1)
        f.write("\n")
    try:
        import jsonschema
        schema = json.load(open("/root/.vp/MANIFEST.schema.json"))
        jsonschema.validate(m, schema)
        print("MANIFEST.json valid:", len(checks), "checks,", len(na), "not_applicable")
    except ImportError:
        print("MANIFEST.json written (jsonschema not importable here)")

if __name__ == "__main__":
    main()
