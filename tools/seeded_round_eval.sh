#!/bin/bash
# usage: r3eval.sh ID...   confirm (in worktree) and run mutants (in /repo) for round-3 seeds
cd /verif
for id in "$@"; do
  for n in 1 2; do
    [ -f /tmp/seeded-out3/$id/patch$n.diff ] || { echo "$id s$n: no patch"; continue; }
    SEED_ROUND=3 tools/seeded_confirm_only.sh $id $n
    tools/mutant.sh /tmp/seeded-out3/$id/patch$n.diff $id > /tmp/seeded-out3/mut-$id-$n.log 2>&1
    echo "   $id s$n :: $(grep -E '^== ' /tmp/seeded-out3/mut-$id-$n.log | cut -c1-300)"
  done
done
git -C /repo status --short
