#!/bin/bash
# usage: tools/seeded_round_eval.sh <round> ID...   confirm (in the sub-agent's worktree) and run the property's
# quick check against each of the round's seeded changes (applied to /repo, reverted afterwards)
R="$1"; shift
cd /verif
for id in "$@"; do
  for n in 1 2; do
    [ -f /tmp/seeded-out$R/$id/patch$n.diff ] || { echo "$id s$n: no patch"; continue; }
    SEED_ROUND=$R tools/seeded_confirm_only.sh $id $n
    tools/mutant.sh /tmp/seeded-out$R/$id/patch$n.diff $id > /tmp/seeded-out$R/mut-$id-$n.log 2>&1
    echo "   $id s$n :: $(grep -E '^== |does not apply' /tmp/seeded-out$R/mut-$id-$n.log | cut -c1-300)"
  done
done
git -C /repo status --short
