import json, subprocess, os, re, glob, shutil
# (prop, n_in_round3, stored_n, needs, first)
T = [
 ("C01",1,5,"a streaming method that relies on the library's gate, called without `more` (set_continues clamped to the request's `more` flag: every reply becomes a final reply, the connection stays open)","caught at once"),
 ("C01",2,6,"`more: true` and `oneway: true` on one request to a streaming method (oneway guard skipped while `continues` is set)","missed at first: no request carried two flags; the alphabet now has 18 kinds x {none, more, oneway, more+oneway} = 72 symbols (C01, C02, C04, C06, C13, C16, C18)"),
 ("C02",1,5,"a segment boundary directly in front of a message's terminating NUL (request without NUL parsed early)","caught at once"),
 ("C02",2,6,"a blank or line break inside the request with a segment boundary right after it (incomplete tail trimmed)","caught at once"),
 ("C03",1,5,"one call carrying both `oneway: true` and a `more` member (more cleared on oneway calls before the interface sees the request)","caught at once"),
 ("C03",2,6,"GetInterfaceDescription for <registered name>.<one more element> (lenient second lookup)","caught at once"),
 ("C04",1,5,"oneway (with or without more) on a method whose implementation sets continues (only the final reply suppressed)","caught once the more+oneway symbols of C01-s6 existed (the run came after that strengthening)"),
 ("C04",2,6,"`oneway: true` on a raw request without a `parameters` member (flag lost when the request is rebuilt)","caught at once"),
 ("C05",1,5,"reply_error while the continues flag is set, on a request without `more` (mismatch check skipped for error replies)","caught at once"),
 ("C05",2,6,"a `more` stream with an error reply carrying continues:true in the middle (client iteration ends early)","missed at first: client-side scripted streams had only plain continues replies; error items with continues:true added"),
 ("C06",1,5,"a legal request nested about 100 objects deep through listen() (64 KiB worker stacks: the process aborts)","inconclusive at first (the check process died and no journaled case reproduced it): listen() cases are now journaled, the death is attributed to its input"),
 ("C06",2,6,"one frame of 4 MiB or more that is invalid as a whole but whose remainder after the cap is a complete request","caught at once"),
 ("C07",1,5,"a final reply without `error` whose parameters do not decode into the call's reply type, then another call (slots not handed back)","missed at first: all call objects used serde_json::Value as reply type; every reply is now also read through a typed call object and followed by another call"),
 ("C07",2,6,"two threads passing the busy check before either takes the slots (check under a read lock)","caught at once"),
 ("C08",1,5,"an empty string set (written as null, null accepted for a required set)","caught at once"),
 ("C08",2,6,"a oneway call that the implementation rejects or whose parameters are ill-typed, then an ordinary call (errors not suppressed for oneway)","caught at once"),
 ("C09",1,5,"a method with a direct ?T parameter sorted before a method whose parameter at the same index is not optional (annotation vector not cleared)","caught at once"),
 ("C09",2,6,"the build-script helper run twice on a rejected definition in one output directory, or a valid definition replaced by a rejected one that is not newer (mtime short-cut)","missed at first: every helper run used a fresh directory; histories of runs sharing an output directory added (bad,bad,bad / good,bad,bad / bad,good,bad,good for all three helpers)"),
 ("C10",1,5,"two plain renderings overlapping in different threads while colors are enabled (plain renderer delegates to the colored one under a global switch)","caught at once"),
 ("C10",2,6,"render a definition, drop it, parse another in the same thread and take its colored rendering before any plain one (per-thread cache keyed by node address)","missed at first: the plain rendering always came first; for every other definition the colored rendering of a width is now taken first and Display last"),
 ("C11",1,5,"a comment whose line is ended by U+2028 or U+2029 (comment body no longer stops there)","caught at once"),
 ("C11",2,6,"U+FEFF or U+180E at the edge of a documentation block (trim_doc replaced by str::trim)","missed at first: documentation was compared as trimmed comment lines; the documentation text must now run from the first `#` to the last non-blank character - which exposed D17 on the unchanged tree (tabs left at the edges), repaired in 64360f6; patch.diff is the sub-agent's change rebased onto that fix"),
 ("C12",1,5,"a comment block that ends in a multi-byte character (byte-offset arithmetic in a rewritten trim_doc)","caught at once"),
 ("C12",2,6,"a syntax error on a line containing a tab (tabs replaced by blanks in the reported line)","caught at once"),
 ("C13",1,5,"a legal request nested 100+ objects deep on one connection (64 KiB worker stacks: the whole process aborts, every connection is cut off)","missed at first: no peer sent deep nesting and a dying server process could not be attributed; C13 now runs in a journaling child and has a deep-nesting peer"),
 ("C13",2,6,"TCP transport, a server with a stop flag or idle timeout, a peer idle for longer than the accept poll interval (SO_RCVTIMEO inherited from the listener)","missed at first: idle peers were only held open; at the end of a round they now make a call of their own (one round in eight after sitting 250 ms)"),
 ("C14",1,5,"two workers asleep and two jobs enqueued before the first woken worker dequeues (condvar queue that notifies only on empty -> non-empty)","inconclusive at first (the listen()-level probe saw 2 of 3 connections served but left the verdict to the schedule exploration, whose trusted base is the mpsc channel the change replaced): a stall that repeats within three further runs is now a stranded connection; 6 rounds x 12 probes"),
 ("C14",2,6,"two submissions that both need a new worker within 10 ms (growth throttled, no catch-up)","caught at once"),
 ("C15",1,5,"a saturated pool (max reached, one more connection accepted and queued) and the stop flag set while busy (workers leave without running queued jobs)","missed at first: no scenario had more connections than workers at the time of the flag; saturated-pool scenarios added and a connection that connected 150 ms or more before the flag must be served"),
 ("C15",2,6,"a signal with a handler delivered to the thread running listen() while it waits (EINTR booked as a full poll interval)","NOT CAUGHT and not in scope: signal delivery is not among the quantified histories, and on the unchanged tree an interrupted select() falls through into a blocking accept(), i.e. listen() then returns late - a check with signals would alarm on the unchanged tree"),
 ("C16",1,5,"with_activate from a process whose lowest free descriptor is 3 (dup2(3,3) keeps close-on-exec)","caught at once"),
 ("C16",2,6,"a valid activation environment together with an unsupported address scheme (InvalidAddress arm dropped)","caught at once"),
 ("C17",1,5,"a reply whose error name belongs to another interface but ends in a standard error's last element (org.varlink.resolver.InterfaceNotFound)","missed at first: error names were random or standard; names of other interfaces sharing a standard last element and near-misses added (random and systematic part)"),
 ("C17",2,6,"a nested parameter object of a Reply with a null-valued member (dropped on serialisation)","caught at once"),
 ("C18",1,5,"upgraded payload from the service that has no trailing NUL or line break and is shorter than 1 KiB (flush only after a NUL)","missed at first through an oracle hole: a session whose bytes arrived only after the client had closed its side was judged by the final byte comparison alone; such a session now counts as slow (twice in a row: stuck)"),
 ("C18",2,6,"a oneway call followed by another request on the same resolver-mode bridge (request buffer not cleared on the oneway path)","caught at once"),
 ("C19",1,5,"a respelling of an issued client id that is numerically equal (leading zero, plus sign, other letter case)","missed at first: client-id deviations were unknown / empty / another client's; five respellings of the client's own id added"),
 ("C19",2,6,"the same canonical step of one client id arriving on several connections at the same instant (check and advance under different locks)","missed at first: concurrent clients each had their own id; a duplicate-step race (6 connections, Test01..Test09, 60 client ids) added"),
 ("C20",1,5,"a string or member name with a character above U+FFFF (\\u escape built from the code point)","caught at once"),
 ("C20",2,6,"a tcp: address with a host name instead of an IP literal (early SocketAddr parse)","missed at first: tcp addresses were IP literals; every other one now names localhost (when it resolves to 127.0.0.1)"),
]
os.environ["SEED_ROUND"]="3"
for prop,n,sn,needs,first in T:
    log=f"/tmp/mutr3/{prop}-{n}.log"
    keys=[]
    if os.path.exists(log):
        txt=open(log).read()
        keys=re.findall(r"key : (\S+)", txt)
    seen=[]
    for k in keys:
        if k not in seen: seen.append(k)
    det=[{"check":prop,"tier":"quick","key":k} for k in seen[:3]]
    d={"ran":[f"./check {prop} (quick)"],"detected":det,"missed":[] if det else [prop],"notes":"" if first=="caught at once" else first}
    subprocess.check_call(["python3","/verif/tools/seeded_store.py",prop,str(n),needs,json.dumps(d),str(sn)])
    dst=f"/verif/seeded/{prop}-s{sn}"
    if (prop,n)==("C12",1):
        shutil.copy(dst+"/patch.diff", dst+"/patch.original.diff")
        shutil.copy("/tmp/seeded-out3/C12/patch1.rebased.diff", dst+"/patch.diff")
        m0=json.load(open(dst+"/meta.json")); m0["notes"]="patch.diff is the sub-agent's change rebased onto fix 64360f6 (D17), which touches the same function; the original is kept as patch.original.diff"; json.dump(m0,open(dst+"/meta.json","w"),indent=1)
    if (prop,n)==("C11",2):
        shutil.copy(dst+"/patch.diff", dst+"/patch.original.diff")
        shutil.copy("/tmp/seeded-out3/C11/patch2.rebased.diff", dst+"/patch.diff")
    p=dst+"/meta.json"; m=json.load(open(p)); m["round"]=3
    m["first_run"]=first.split(':')[0] if first!="caught at once" else first
    json.dump(m,open(p,'w'),indent=1)
    print(prop,sn,[x["key"] for x in det])
