#!/bin/bash
# usage: tools/mutant.sh <patch.diff> <ID>...   applies the patch to /repo, runs the quick checks, reverts
P="$1"; shift
git -C /repo apply "$P" || { echo "patch does not apply"; exit 2; }
for id in "$@"; do
  out=$(/verif/check "$id" 2>&1); rc=$?
  echo "== $id rc=$rc: $(echo "$out" | grep -E '^VIOLATION|^  key' | head -4 | tr '\n' ' ')"
  echo "$out" | tail -1
done
git -C /repo checkout -- . 
git -C /repo status --short
