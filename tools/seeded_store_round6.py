"""Stores the round-6 seeded changes (/tmp/seeded-out6; results of tools/par_mutant.sh in /tmp/mutr6: <ID>-<n>.log first run,
<ID>-<n>b.log / <ID>-<n>c.log after the strengthening) as seeded/<ID>-s11, -s12."""
import json, subprocess, os, re, shutil
# (prop, n_in_round, stored_n, needs, first)
T = [
 ("C01",1,11,"33 or more requests pipelined in one read over listen() (handle() stops after 32 requests and returns the rest as tail, which the worker drops for connections that are not upgraded)","missed at first: random sequences were at most 24 long; long pipelines of 33..400 requests in one handle() call / one socket write added"),
 ("C01",2,12,"a request that carries `upgrade: true` to a method that does not upgrade, followed by a further request (connection treated as upgraded: later requests unanswered, nothing closed)","missed at first: the flag only ever travelled with the upgrading method; a fifth spelling puts the wish on every other request. The first run with it ended in the watchdog (socket part stalls on every case) although the in-memory part had reported the violation: the socket part is now skipped after an in-memory failure"),
 ("C02",1,11,"an in-memory caller that hands handle() the upgrade request and more than 1 KiB of payload in one chunk and then discards its own reader (inner look-ahead buffer of 1 KiB instead of 8 KiB)","NOT CAUGHT and not in scope: see DESIGN.md 9.7"),
 ("C03",1,11,"two calls in one handle() input, first to X, then to X.<more>.Method (interface of the previous message reused when the method string starts with it)","missed at first: one message per handle() call (or a dot-less one in front); a call to one of the registered interfaces now travels in front of one case in five"),
 ("C03",2,12,"a service configured with the empty string as url (member omitted from the GetInfo reply)","caught at once"),
 ("C04",1,11,"oneway:true on a method without output parameters whose implementation calls reply() (constant `{}` written in front of the oneway guard)","missed at first: no such method in the test service; `Ack(token) -> ()` joined the alphabet (19 kinds, 76 symbols)"),
 ("C05",1,11,"another thread holding a read guard on the shared connection while the final reply of a stream is consumed (hand-back with try_write, skipped when contended)","missed at first: single-threaded client half; the end of a stream is now also taken while another thread holds a read guard"),
 ("C05",2,12,"a `more` iteration abandoned before its final reply, the call object dropped, then a further call (Drop hands reader and writer back)","missed by C05 (C07 caught it: same mechanism as C07-s4); kept as a C07 matter"),
 ("C06",1,11,"ill-formed UTF-8 inside a string of a member the protocol does not define (whole-frame check folded into the parse)","caught at once"),
 ("C06",2,12,"a stream cut exactly in front of the terminating NUL of its last message (parsed and answered when the parser does not report end of input)","caught at once"),
 ("C07",1,11,"a final reply that spells out \"continues\": false, then another call on the connection","caught at once"),
 ("C07",2,12,"a write / flush fault reported after the request bytes have reached the peer, then a second call on the connection (reader and writer handed back on the error path: the second call gets the first one's reply)","missed at first: faults were injected on the read side only; part (e) injects flush / write faults that are reported after the bytes went out"),
 ("C08",1,11,"an array directly inside an array, or a map directly inside a map ([][]int, [string][string]T): one level lost in the emitted type","caught at once"),
 ("C08",2,12,"a `more` call answered with a declared error, then another call on the same client (error returned before reader and writer are handed back)","missed at first by C08 (C05 caught it: same mechanism as C05-s1): every script ran on a fresh connection; every call is now made a second time on the same connection"),
 ("C09",1,11,"a backslash in the documentation comment of a method or typedef (comment text turned into #[doc] attributes through TokenStream::from_str without escaping)","missed at first: generated definitions carried two fixed comment texts; members are now documented with texts that mean something to Rust's lexer (the patch was rebased onto the K4 fix, original kept as patch.original.diff)"),
 ("C09",2,12,"an empty or blank-only definition text (generate returns Ok with empty output before the parser runs)","missed at first: the rejection half had no text without any definition; six such texts added"),
 ("C10",1,11,"a documentation block with a line made only of blanks or tabs between two comment lines (emptied by a shared indent helper)","missed at first: trivia runs were at most three items long; runs of up to seven items produce such blocks"),
 ("C11",1,11,"a name reused across kinds when its first definition is followed by two or more siblings of the same kind in non-ascending order (binary search on an unsorted key list)","caught at once"),
 ("C11",2,12,"the keyword `error` glued to the member name (errorNotFound ())","caught at once"),
 ("C12",1,11,"the furthest parse failure behind trailing blanks at the end of the input (reported line trimmed, column not)","caught at once"),
 ("C13",1,11,"as many peers as there are workers that send the beginning of a message and disconnect (worker re-feeds the same bytes for ever), then a newcomer","the first run ended in the watchdog (exit 2): listen() never returned at teardown; a scenario with peers gone mid-message on servers with 1..3 workers plus a newcomer, and a bounded wait for listen() to return, added"),
 ("C14",1,11,"initial 1, max 3: A stays open, B (which made the pool grow) comes and goes, then C and D (busy count decremented twice for a job that caused growth)","inconclusive at first (the restructured pool failed trace validation in the schedule exploration); open/close histories through listen() added"),
 ("C15",1,11,"max workers reached, one more connection queued, the earlier ones close, the queued one stays open across an idle deadline, then a late joiner (busy count clamped and saturating)","missed at first: saturated-pool scenarios all had a stop flag; three scenarios without one added"),
 ("C15",2,12,"stop flag and idle_timeout both configured, server idle, flag raised within the last poll interval before the idle deadline (countdown before the flag test: timeout error instead of Ok)","missed at first: no rule about a timeout error after the flag; a timeout error more than 30 ms after the flag was set, three runs in a row, is a violation"),
 ("C16",1,11,"a tcp: address with a host name instead of an address literal on the client side (connect_timeout needs a SocketAddr)","missed at first by C16 (same mechanism as C20-s6); tcp:localhost:port joined the transports"),
 ("C17",1,11,"a Reply with both `error` and `continues` set (only one of them written)","caught at once"),
 ("C17",2,12,"a GetInterfaceDescriptionReply without description (written as null instead of omitted)","caught at once"),
 ("C18",1,11,"the client closes its sending side while the service is busy and does not close on end-of-file (bridge only half-closes the service socket and waits for the service)","missed at first: pending replies were 300 ms long and nothing was timed; in the three copying modes the client now closes while the service is busy for 4 s"),
 ("C18",2,12,"about RLIMIT_NOFILE oneway calls through one resolver-mode bridge process (service connections of oneway calls parked for the life of the process)","missed at first: sessions had a handful of calls; two 401-call sessions under a 128-descriptor limit added"),
 ("C19",1,11,"a client one step into its sequence, a Start from another client, then the first client again (write-back cache overwritten by Start: state reverts)","caught at once"),
 ("C19",2,12,"Start with a non-object JSON value in place of its parameters ([], \"start\", 0, true)","missed at first: Start had no retyped-parameters deviation; eight added"),
 ("C20",1,11,"a non-ASCII reply that reaches the tool in several chunks with a boundary inside a character (from_utf8_lossy per chunk)","missed at first: the scripted service wrote each script in one piece and large values were ASCII; one script in three is written in pieces, large values made of three-byte characters"),
]
os.environ["SEED_ROUND"] = "6"
for prop, n, sn, needs, first in T:
    keys = []
    for suffix in ["c", "b", ""]:
        log = f"/tmp/mutr6/{prop}-{n}{suffix}.log"
        if os.path.exists(log) and os.path.getsize(log) > 0:
            keys = re.findall(r"key : (\S+)", open(log).read())
            if keys:
                break
    seen = []
    for k in keys:
        if k not in seen:
            seen.append(k)
    if "NOT CAUGHT" in first:
        seen = []
    det = [{"check": prop, "tier": "quick", "key": k} for k in seen[:3]]
    d = {"ran": [f"./check {prop} (quick)"], "detected": det, "missed": [] if det else [prop], "notes": "" if first == "caught at once" else first}
    if prop == "C09" and n == 1 and os.path.exists("/tmp/seeded-out6/C09/patch1.rebased.diff") and not os.path.exists("/tmp/seeded-out6/C09/patch1.original.diff"):
        shutil.copy("/tmp/seeded-out6/C09/patch1.diff", "/tmp/seeded-out6/C09/patch1.original.diff")
        shutil.copy("/tmp/seeded-out6/C09/patch1.rebased.diff", "/tmp/seeded-out6/C09/patch1.diff")
    subprocess.check_call(["python3", "/verif/tools/seeded_store.py", prop, str(n), needs, json.dumps(d), str(sn)])
    if prop == "C09" and n == 1:
        shutil.copy("/tmp/seeded-out6/C09/patch1.original.diff", f"/verif/seeded/{prop}-s{sn}/patch.original.diff")
    p = f"/verif/seeded/{prop}-s{sn}/meta.json"
    m = json.load(open(p))
    m["round"] = 6
    m["first_run"] = first.split(':')[0] if first != "caught at once" else first
    json.dump(m, open(p, 'w'), indent=1)
    print(prop, sn, [x["key"] for x in det])
