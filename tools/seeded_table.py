#!/usr/bin/env python3
"""Print the markdown table of DESIGN.md 9.7 from /verif/seeded/*/meta.json."""
import json, glob, os, re

rows = []
for d in sorted(glob.glob('/verif/seeded/C*-s*'), key=lambda p: (p.split('/')[-1].split('-')[0], int(re.search(r'-s(\d+)$', p).group(1)))):
    m = json.load(open(os.path.join(d, 'meta.json')))
    name = os.path.basename(d)
    det = '; '.join(f"{x['check']} `{x['key']}`" for x in m.get('detected_by', []))
    if not det:
        det = 'not caught (outside the quantified domain, see text)'
    first = m.get('first_run', 'caught at once' if not (m.get('notes') or '').strip() or (m.get('notes') or '').startswith(' patch.diff was rebased') else 'missed / inconclusive at first')
    rnd = m.get('round', 1)
    rows.append(f"| {name} | {rnd} | {m.get('needs_to_manifest', '')} | {det} | {first} |")
print('| seeded change | round | needs in order to manifest | caught by (quick tier) | first run |')
print('|---|---|---|---|---|')
print('\n'.join(rows))
