"""Stores the round-5 seeded changes (/tmp/seeded-out5, results of /tmp/mutr5.sh in /tmp/mutr5) as seeded/<ID>-s9, -s10."""
import json, subprocess, os, re, shutil
# (prop, n_in_round4, stored_n, needs, first)
T = [
 ("C01",1,9,"a built-in GetInterfaceDescription whose parameters lack a string `interface` ({} or {\"interface\":5}): passed over in silence, later requests still served","missed at first by C01 (C03 caught it after a small addition): the alphabet's only ill-typed built-in call was the one without parameters; built-in calls with seven ill-typed parameter shapes between two ordinary calls added to C01, and C03 now rejects `no reply and still open`"),
 ("C01",2,10,"a streaming method that relies on the library's gate, called without `more` (the service catches the mismatch, its substitute reply is refused too: no reply at all, connection stays open)","caught at once"),
 ("C02",1,9,"a chunk longer than 8 KiB made of small pipelined requests in which one request ends exactly on a multiple of 8192 (early return when the inner buffer is empty)","missed at first: boundary-sized messages were single large ones; streams of small requests with one ending exactly on 8192 / 16384 / 24576 added"),
 ("C02",2,10,"a call to an upgrading method without the `upgrade` member (upgrade honoured only with the flag)","missed at first: every upgrade request carried the member; an upgrading call without it, with every cut, added"),
 ("C03",1,9,"a method name without a dot first, then any other call in the same handle() batch (message buffer hoisted out of the loop)","missed at first by C03 (one message per handle() call): for one case in five a dot-less call now travels in front in the same buffer"),
 ("C03",2,10,"a registered interface name with a later element that starts with a digit (org.example.2fa): syntax check before the lookup","missed at first: name elements all started with a letter; 2fa / 3com / 0 added for later elements"),
 ("C04",1,9,"oneway:true on org.varlink.service.GetInterfaceDescription with a valid interface (reply built by a helper that never checks the flag)","caught at once"),
 ("C04",2,10,"a oneway request for which a reply function is called, then a non-oneway request served by the same thread (suppressed reply kept in a per-thread buffer)","caught at once"),
 ("C05",1,9,"set_continues(true); reply (refused); set_continues(false); reply on a request without `more` (refused reply serialised into a per-call buffer that is not cleared)","caught at once"),
 ("C05",2,10,"one `more` stream whose replies add up to 1 MiB or more (size cap armed once per call)","caught thanks to a part added from the sub-agent's description before the first run: client streams were at most 32 small replies; streams of 20 000 small and of 12 large replies added"),
 ("C06",1,9,"an empty or blank-only frame (skipped as padding, connection kept)","caught at once"),
 ("C06",2,10,"a flag member carrying a number, string, array or object (decoded leniently as `not set`)","caught at once"),
 ("C07",1,9,"oneway() followed by a second send on the same call object (object not consumed on the oneway path)","hung at first (the second send waited for a reply that was never queued; the run ended in the watchdog): the fake peer's client socket now has a 2 s read timeout, the second send is reported as `history/second-send`"),
 ("C07",2,10,"a second thread's call while a plain call() waits for its reply (connection write-locked for the whole round trip: the second call blocks instead of failing busy)","missed at first: the live scripted server answered at once, so a blocked call simply succeeded later; a peer that holds back the first reply until the second call has returned added"),
 ("C08",1,9,"a field-less struct outside the string-set position (`type Marker ()`, `tag: ()`): emitted as a unit struct, `{}` becomes null","caught at once"),
 ("C08",2,10,"an interface name containing a capital letter (lower-cased in the bindings)","caught at once"),
 ("C09",1,9,"`[string]()` below another wrapper ([][string](), ?[string]()): unclosed angle bracket in the emitted type","caught at once"),
 ("C09",2,10,"one cargo_build_many call with a rejected definition followed by an accepted one (only the last input decides the exit status)","caught thanks to a part added from the sub-agent's description before the first run: one call with several definitions (rejected,valid / valid,rejected / valid,rejected,valid)"),
 ("C10",1,9,"colors on, a member over several lines whose second or later field is an anonymous record too long for the line (wrong indent in the colored renderer)","caught at once"),
 ("C10",2,10,"a width below 2k with a record nested k levels deep (`max - indent` underflows)","inconclusive at first: the violation was reported but the engine then died in the unguarded library call of the command-line comparison (exit 101 -> 2); that call is guarded now"),
 ("C11",1,9,"a text that ends in a line feed with the furthest parse failure at end of input (`lines()` has no final empty piece: panic)","caught at once"),
 ("C11",2,10,"a lone CR as line terminator (eol_r collapsed to \\r?\\n)","caught at once"),
 ("C12",1,9,"an interface-name label that begins with a multi-byte character (split_at(1) in a new name check)","caught at once"),
 ("C12",2,10,"mixed CR LF and bare LF line ends before the error (line lookup splits at CR LF only)","caught at once"),
 ("C13",1,9,"one connection that stays silent and another made while it is silent (blocking peek in the accept loop)","caught at once"),
 ("C13",2,10,"two or more connections served at the same moment that call different interfaces (lock-free `last interface` cache of two separate atomics): about 0.2 % of the replies are a spurious MethodNotFound","missed at first: rounds have a few dozen requests in flight; eight clients pipelining 2000 requests each to four interfaces added"),
 ("C14",1,9,"initial/max where doubling jumps over the maximum (1/3, 2/3, 3/4) and max+1 connections alive","caught at once"),
 ("C14",2,10,"connections that do not finish in arrival order (per-worker queues with round-robin hand-over)","caught at once"),
 ("C15",1,9,"the flag raised while a connection is open, then a second client connects (flag not read while busy)","missed at first: no rule for clients arriving well after the flag; a client that connected 400 ms or more after the flag and was served nevertheless is reported (judged by repetition)"),
 ("C15",2,10,"a stop flag configured but not set, idle_timeout > 0 and a connection living across an idle deadline (timeout branch for the polling loop lost the busy check)","missed at first: scenarios configured a flag only when they also set it; scenarios with a configured, never-set flag added"),
 ("C16",1,9,"an address with a `;` parameter and a stale socket file at the path (stale file removed under the unstripped name)","missed at first: scratch directories were always empty; a stale socket file now lies in the way of every filesystem address"),
 ("C16",2,10,"TCP, a server polling for a stop flag / idle timeout, and a client silent for longer than the poll interval between two calls (accept wait time set as read timeout of accepted TCP connections)","missed at first: requests were written back to back; on every transport a connection now makes a call, stays silent for 350 ms and calls again"),
 ("C17",1,9,"a ServiceInfo with three or more interfaces whose tail is not ascending (sorted on output)","caught at once"),
 ("C17",2,10,"a ServiceInfo whose url is the empty string (omitted on output, required on input)","caught at once"),
 ("C18",1,9,"--activate with the listener on descriptor 3 and an activated command that writes to its stdout (child keeps the bridge's stdout)","caught thanks to a part added from the sub-agent's description before the first run: the activated helper service now prints a banner on its standard output"),
 ("C18",2,10,"service-to-client bytes in which a read chunk has 1024 or more bytes behind its last line break (single write() to a line-buffered stdout, remainder dropped)","missed at first: payloads either had no line break or one every few hundred bytes; a payload with one text line followed by a long run without line break added"),
 ("C19",1,9,"sixteen clients that have all called Start before the first one finishes (id table capped at 16, off by one)","caught at once"),
 ("C19",2,10,"Start with upgrade:true alone (flag check rewritten with helpers that cannot see `upgrade`)","caught at once"),
 ("C20",1,9,"one reply whose wire message exceeds 64 KiB (reply size cap in MethodCall::recv)","caught thanks to a part added from the sub-agent's description before the first run: reply values of 65 000 .. 1 100 000 bytes, alone and inside a stream"),
 ("C20",2,10,"an error reply whose parameters are exactly {} (reported with its name only)","caught at once"),
]
os.environ["SEED_ROUND"] = "5"
for prop, n, sn, needs, first in T:
    log = f"/tmp/mutr5/{prop}-{n}.log"
    keys = []
    if os.path.exists(log):
        keys = re.findall(r"key : (\S+)", open(log).read())
    seen = []
    for k in keys:
        if k not in seen:
            seen.append(k)
    det = [{"check": prop, "tier": "quick", "key": k} for k in seen[:3]]
    d = {"ran": [f"./check {prop} (quick)"], "detected": det, "missed": [] if det else [prop], "notes": "" if first == "caught at once" else first}
    subprocess.check_call(["python3", "/verif/tools/seeded_store.py", prop, str(n), needs, json.dumps(d), str(sn)])
    p = f"/verif/seeded/{prop}-s{sn}/meta.json"
    m = json.load(open(p))
    m["round"] = 5
    m["first_run"] = first.split(':')[0] if first != "caught at once" else first
    json.dump(m, open(p, 'w'), indent=1)
    print(prop, sn, [x["key"] for x in det])
