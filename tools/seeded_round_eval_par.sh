#!/bin/bash
# usage: tools/seeded_round_eval_par.sh <round> <ID>   confirm both patches of one sub-agent in its worktree and, side
# by side, run the property's quick check against each patch in a private copy (tools/par_mutant.sh); /repo is not touched
R="$1"; id="$2"
mkdir -p /tmp/mutr$R
cd /verif
for n in 1 2; do
  [ -f /tmp/seeded-out$R/$id/patch$n.diff ] || { echo "$id s$n: no patch" > /tmp/mutr$R/$id-$n.confirm; continue; }
  tools/par_mutant.sh /tmp/seeded-out$R/$id/patch$n.diff /tmp/mutr$R/$id-$n.log $id > /dev/null 2>&1 &
done
for n in 1 2; do
  [ -f /tmp/seeded-out$R/$id/patch$n.diff ] || continue
  SEED_ROUND=$R tools/seeded_confirm_only.sh $id $n > /tmp/mutr$R/$id-$n.confirm 2>&1
done
wait
for n in 1 2; do echo "$(cat /tmp/mutr$R/$id-$n.confirm 2>/dev/null) || $(head -1 /tmp/mutr$R/$id-$n.log 2>/dev/null | cut -c1-250)"; done
