#!/bin/bash
# tools/seeded_eval.sh <PROP> <n> [extra check ids...] : confirm the sub-agent's change in its worktree, then run my checks on /repo with it
ID="$1"; N="$2"; shift 2
RD=${SEED_ROUND:-}; SRC=/tmp/seeded-out$RD/$ID; WT=/tmp/wt$RD-$ID
RUN=$SRC/RUN$N.md
DEMO=$(ls $SRC/demo$N.* 2>/dev/null | head -1)
DEST=$(grep -oE "cp +$SRC/demo$N[^ ]* +[^ ]+" $RUN | head -1 | awk '{print $NF}')
DEST=$(echo "$DEST" | sed -E 's#^(\$[A-Za-z_{}]+|<[^>]+>|/tmp/wt[0-9]*-C[0-9]+)/##')
CMD=$(grep -oE "cargo (test|run) --offline[^\`\"]*(--test|--example|--bin) [A-Za-z0-9_]+" $RUN | head -1)
echo "##### $ID s$N demo=$DEMO dest=$DEST cmd=[$CMD]"
if [ -z "$DEST" ] || [ -z "$CMD" ]; then echo "CANNOT PARSE RUN FILE"; exit 2; fi
/verif/tools/seeded_confirm.sh $WT $SRC/patch$N.diff $DEMO $DEST $CMD -q 2>&1 | grep -aE "CONFIRMED|FAILED:|suite failures"
for c in $ID "$@"; do /verif/tools/mutant.sh $SRC/patch$N.diff $c 2>&1 | cut -c1-700; done
