#!/usr/bin/env python3
"""Write the sub-agent prompts for a round of independently seeded changes.

  tools/seeded_prompts.py <round> [ID ...]   ->  /tmp/seeded-out<round>/prompt-<ID>.txt

A prompt holds the template (tools/seeded_prompt.tmpl), the property's record and - from round 2 on - a
one-paragraph summary of the changes already kept for that property under /verif/seeded (taken from the
NOTES.md the earlier sub-agents wrote themselves), so that a new sub-agent picks other mechanisms.
Nothing about the checks or the harness goes into a prompt.
"""
import json, os, re, sys, glob

V = '/verif'
rnd = int(sys.argv[1])
ids = sys.argv[2:]
props = {}
for line in open(f'{V}/properties.jsonl'):
    line = line.strip()
    if line:
        p = json.loads(line)
        props[p['id']] = p
if not ids:
    ids = sorted(props)
tmpl = open(f'{V}/tools/seeded_prompt.tmpl').read()
out = f'/tmp/seeded-out{rnd}'
os.makedirs(out, exist_ok=True)
for pid in ids:
    wt = f'/tmp/wt{rnd}-{pid}'
    t = tmpl.replace('/tmp/wt-@ID@', wt).replace('/tmp/seeded-out/@ID@', f'{out}/{pid}').replace('@ID@', pid)
    t = t.replace('@PROP@', json.dumps(props[pid], indent=1))
    prior = []
    for d in sorted(glob.glob(f'{V}/seeded/{pid}-s*')):
        notes = os.path.join(d, 'NOTES.md')
        meta = json.load(open(os.path.join(d, 'meta.json')))
        head = ''
        if os.path.exists(notes):
            txt = open(notes).read()
            n = re.search(r'-s(\d+)$', d).group(1)
            # the heading of the matching patch section
            m = re.findall(r'^#+\s*(?:patch|Patch|PATCH)\s*%s\b[^\n]*' % n, txt, re.M)
            head = m[0].lstrip('# ').strip() if m else ''
        prior.append(f"- {head or os.path.basename(d)}; needs: {meta.get('needs_to_manifest', '')}")
    if prior and rnd > 1:
        t += ("\n\nALREADY DONE (earlier round; do NOT repeat these mechanisms or near variants of them - pick other code "
              "sites, other clauses of the property, other triggering conditions):\n" + "\n".join(prior) + "\n")
    open(f'{out}/prompt-{pid}.txt', 'w').write(t)
    print(f'{out}/prompt-{pid}.txt', len(t))
