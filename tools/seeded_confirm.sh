#!/bin/bash
# Confirm a seeded change in a scratch worktree (never in /repo):
#   tools/seeded_confirm.sh <worktree> <patch.diff> <demo-src> <demo-dest-relative> <demo command...>
# 1. unchanged worktree: demo passes   2. patch applies and the workspace builds
# 3. demo fails with the patch         4. the existing suite (demo removed) passes with the patch
# Prints CONFIRMED or the step that failed. Leaves the worktree clean.
WT="$1"; PATCH="$2"; DEMO="$3"; DEST="$4"; shift 4
cd "$WT" || exit 2
LOGP=/tmp/sc-$(basename "$WT")
export CARGO_NET_OFFLINE=true RUST_BACKTRACE=0
git checkout -q -- .
git clean -fdq -e target   # demo files a sub-agent left behind must not become part of the "existing suite"
mkdir -p "$(dirname "$DEST")"; cp "$DEMO" "$DEST"
echo "== demo on unchanged tree"
if ! "$@" >$LOGP-demo0.log 2>&1; then echo "STEP1 FAILED: demo does not pass on the unchanged tree"; tail -5 $LOGP-demo0.log; rm -f "$DEST"; exit 1; fi
git apply "$PATCH" || { echo "STEP2 FAILED: patch does not apply"; rm -f "$DEST"; exit 1; }
echo "== build with patch"
if ! cargo build --workspace --offline -q >$LOGP-build.log 2>&1; then echo "STEP2 FAILED: does not build"; tail -5 $LOGP-build.log; git checkout -q -- .; rm -f "$DEST"; exit 1; fi
echo "== demo with patch"
if "$@" >$LOGP-demo1.log 2>&1; then echo "STEP3 FAILED: demo passes with the patch applied"; git checkout -q -- .; rm -f "$DEST"; exit 1; fi
grep -E "FAILED|panicked|assert|Error" $LOGP-demo1.log | head -3
rm -f "$DEST"
echo "== existing suite with patch"
run_suite() { if unshare -n true 2>/dev/null; then unshare -n sh -c "ip link set lo up 2>/dev/null; timeout -k 5 420 cargo test --workspace --no-fail-fast --offline"; ps -eo pid,args | awk -v p="$WT/target/debug/deps/" 'index($2, p) == 1 {print $1}' | xargs -r kill -9 2>/dev/null; else cargo test --workspace --no-fail-fast --offline; fi; }
run_suite >$LOGP-suite.log 2>&1
BAD=$(grep -aE "^test .* FAILED$" $LOGP-suite.log | grep -vE "test_tcp" )
if [ -n "$BAD" ]; then
  echo "suite failures (first pass): $BAD"
  # timing-sensitive example tests: retry the affected packages alone
  for pkg in ping more example varlink-certification varlink; do
    if grep -qE "Running.*(deps/$pkg-|deps/${pkg//-/_}-)" $LOGP-suite.log; then :; fi
  done
  sleep 2
  run_suite >$LOGP-suite2.log 2>&1
  BAD2=$(grep -aE "^test .* FAILED$" $LOGP-suite2.log | grep -vE "test_tcp")
  if [ -n "$BAD2" ]; then echo "STEP4 FAILED: existing tests fail with the patch: $BAD2"; git checkout -q -- .; exit 1; fi
fi
git checkout -q -- .
echo "CONFIRMED"
