#!/bin/bash
# tools/seeded_confirm_only.sh <PROP> <n> : parse RUN<n>.md and confirm in the sub-agent's worktree (no /repo access)
ID="$1"; N="$2"
RD=${SEED_ROUND:-}; SRC=/tmp/seeded-out$RD/$ID; WT=/tmp/wt$RD-$ID
RUN=$SRC/RUN$N.md
DEMO=$(ls $SRC/demo$N.* 2>/dev/null | head -1)
DEST=$(grep -oE "cp +[^ ]*demo$N[^ ]* +[^ ]+" $RUN | head -1 | awk '{print $NF}')
DEST=$(echo "$DEST" | sed -E 's#^(\$[A-Za-z_{}]+|<[^>]+>|/tmp/wt[0-9]*-C[0-9]+)/##')
CMD=$(grep -oE "cargo (test|run) --offline[^\`\"]*(--test|--example|--bin) [A-Za-z0-9_]+" $RUN | head -1)
if [ -z "$DEST" ] || [ -z "$CMD" ]; then echo "$ID s$N CANNOT PARSE RUN FILE (dest=$DEST cmd=$CMD)"; exit 2; fi
R=$(/verif/tools/seeded_confirm.sh $WT $SRC/patch$N.diff $DEMO $DEST $CMD -q 2>&1 | grep -aE "CONFIRMED|FAILED:|suite failures" | tr '\n' ' ')
echo "$ID s$N dest=$DEST :: $R"
