#!/bin/bash
# usage: tools/par_mutant.sh <patch.diff> <logfile> <ID>...
# Like mutant.sh, but never touches /repo: copies /repo (without target/.git) and /verif (with its build
# cache) to a scratch directory, applies the patch to the copy, and runs the quick checks inside a private
# mount namespace in which the copies are bind-mounted over /repo and /verif. Several of these can run
# side by side. The scratch directory is removed afterwards.
P="$(readlink -f "$1")"; LOG="$2"; shift 2
W=$(mktemp -d /tmp/pm-XXXXXX)
trap 'rm -rf "$W"' EXIT
mkdir -p "$W/repo" "$W/verif"
rsync -a --exclude target --exclude .git /repo/ "$W/repo/"
rsync -a --exclude .git --exclude '.cache/tmp' --exclude 'replays/*' /verif/ "$W/verif/"
( cd "$W/repo" && git apply "$P" ) || { echo "patch does not apply" | tee "$LOG"; exit 2; }
: > "$LOG"
for id in "$@"; do
  unshare -m --propagation private sh -c "mount --bind $W/repo /repo && mount --bind $W/verif /verif && cd /verif && ./check $id ${CHECK_ARGS:-}" > "$W/out.txt" 2>&1
  rc=$?
  if [ $rc -eq 2 ] && grep -q "harness build failed" "$W/out.txt" && grep -qE "rust-lld|undefined|incremental" "$W/verif/.cache/build-"*.log 2>/dev/null; then
    # the build cache was copied while a build was writing to it: drop the incremental state and retry once
    rm -rf "$W/verif/.cache/target/debug/incremental" "$W"/verif/.cache/target/debug/deps/vl_* "$W"/verif/.cache/target/debug/deps/libvl_*
    unshare -m --propagation private sh -c "mount --bind $W/repo /repo && mount --bind $W/verif /verif && cd /verif && ./check $id ${CHECK_ARGS:-}" > "$W/out.txt" 2>&1
    rc=$?
  fi
  echo "== $id rc=$rc: $(grep -E '^VIOLATION|^  key' "$W/out.txt" | head -4 | tr '\n' ' ')" >> "$LOG"
  tail -1 "$W/out.txt" >> "$LOG"
  cat "$W/out.txt" >> "$LOG.full"
done
cat "$LOG"
