#!/bin/bash
# usage: quickall.sh <seed> [ids...]
cd /verif
S=$1; shift
IDS="$@"; [ -z "$IDS" ] && IDS="C01 C02 C03 C04 C05 C06 C07 C08 C09 C10 C11 C12 C13 C14 C15 C16 C17 C18 C19 C20"
for id in $IDS; do
  s=$(date +%s)
  out=$(./check $id --seed $S 2>&1); rc=$?
  e=$(date +%s)
  echo "$id seed=$S rc=$rc $((e-s))s :: $(echo "$out" | grep -v KNOWN-FINDING | tail -3 | tr '\n' ' ' | cut -c1-400)"
done
