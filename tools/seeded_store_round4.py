"""Stores the round-4 seeded changes (/tmp/seeded-out4, results of /tmp/mutr4.sh in /tmp/mutr4) as seeded/<ID>-s7, -s8."""
import json, subprocess, os, re, shutil
# (prop, n_in_round4, stored_n, needs, first)
T = [
 ("C01",1,7,"a registered-interface call with ill-typed parameters (handle() sends InvalidParameter on top of the one the generated dispatch already sent: two final replies)","caught at once"),
 ("C01",2,8,"a method name without a dot followed by a further request in the same handle() run (message buffer hoisted out of the loop, not cleared on that path)","caught at once"),
 ("C02",1,7,"over listen(): one segment carrying a complete request plus the start of the next (handle() returns the partial message at once, listen() discards that tail)","caught at once"),
 ("C02",2,8,"examples/ping --multiplex: the sender's last bytes and its half-close visible in the same poll wake-up (drained buffer not handled before the EOF arm)","caught thanks to a part added before the first run (from the sub-agent's description: the reference caller of the tail API was not exercised at all): the built `ping --multiplex` binary is driven with segmented, pipelined Ping requests and two close schedules"),
 ("C03",1,7,"a method string whose last dot is its first or last character (`a.b.`, `.Foo`): sent to the no-dot branch","caught at once"),
 ("C03",2,8,"parameters containing an object member set to null (removed before the interface sees the request)","caught at once"),
 ("C04",1,7,"oneway:true on a request that ends in any error reply (early return for errors in front of the oneway guard)","caught at once"),
 ("C04",2,8,"oneway:true on a method whose implementation upgrades the connection (guard skipped once upgraded)","missed at first: the C04 alphabet had no upgrade request; every symbol (or none) in front of an Upgrade request flagged oneway / more+oneway added"),
 ("C05",1,7,"a final reply that spells out \"continues\": false, then another call on the connection (only an omitted member hands the stream back)","caught at once"),
 ("C05",2,8,"an implementation that hands the refused reply's error to the service, with a further request already buffered (handle() writes InvalidParameter{more} and carries on: a second final reply)","missed at first: the scripted implementation swallowed reply errors and no request followed; scripts now also run with the error handed to the service and a request buffered behind (the wire starts with the accepted replies and carries at most one error reply beyond them, none if a final reply was already sent)"),
 ("C06",1,7,"a malformed message, then a later stream served by the same thread (rejected bytes left in a per-thread receive buffer)","caught at once"),
 ("C06",2,8,"valid JSON without a `method` member (`{}`): answered with InterfaceNotFound and the connection kept","caught at once"),
 ("C07",1,7,"a oneway() sent while another call or `more` stream owns the connection (oneway path ahead of the busy check)","caught at once"),
 ("C07",2,8,"a custom error whose last name element equals a standard error's (error kind chosen from the last element)","caught at once"),
 ("C08",1,7,"a method input/output member with an inner capital (maxSize): renamed to snake_case on the wire","inconclusive at first (the driver, written against the IDL's names, no longer compiled and the diagnostics in drv_m*.rs were not attributed): errors in driver modules now count as `bindings/driver-does-not-compile`"),
 ("C08",2,8,"an optional member at method / error level set to 0, false, \"\" or empty (skipped like None)","caught at once"),
 ("C09",1,7,"an interface without any method (0..len-1 underflow in a new collision pre-check)","caught at once"),
 ("C09",2,8,"a definition cut off inside a trailing comment (generator re-terminates the last line before parsing)","missed at first: the harness' recogniser leaves `comment ended by the end of the input` unspecified and such texts were skipped; where the recogniser is silent the statement's own yardstick (the parser rejects) now decides"),
 ("C10",1,7,"an empty parameter list that goes through the multi-line layout (opening parenthesis dropped)","caught at once"),
 ("C10",2,8,"a method whose input and output both do not fit (fourth layout prints the input list twice)","caught at once"),
 ("C11",1,7,"an interface name whose first element ends in a hyphen (a-.b)","caught at once"),
 ("C11",2,8,"two members without a line end between them; a comment glued to a closing parenthesis","caught at once"),
 ("C12",1,7,"U+2028 / U+2029 before the error within one LF line (line lookup splits there, peg does not)","caught at once"),
 ("C12",2,8,"128 or more array / dictionary prefixes in one member (nesting budget decremented without check)","caught at once"),
 ("C13",1,7,"a connection closing at the moment another arrives while no idle worker waits (job-queue lock held while serving), then a third connection","caught at once"),
 ("C13",2,8,"three or more connections accepted within a worker's wake-up latency, all staying open (busy counter maintained by the workers)","missed at first by C13 (C14 caught it): clients never stayed open after a burst; bursts of 3..16 held connections on fresh servers added"),
 ("C14",1,7,"growth beyond the initial workers, 2 s of quiet with the on-demand worker waiting at the queue, then overlapping connections again (workers retire, count goes stale)","missed at first by C14 (C13 caught it): no probe followed a quiet period; grown-quiet-full-again probes added (one connection stays open through the quiet time, so only on-demand workers wait at the queue); the same trick made C13's quiet scenarios deterministic"),
 ("C14",2,8,"two or more jobs queued at the moment one worker dequeues (worker takes the whole backlog into a private queue)","caught at once"),
 ("C15",1,7,"two or more workers at shutdown with the first-created one going idle last (Terminate and join merged into one pass)","caught at once"),
 ("C15",2,8,"stop flag configured and idle_timeout > 0 (idle budget reduced before the unchanged comparison: timeout about 100 ms early)","caught at once"),
 ("C16",1,7,"socket activation on a filesystem address, then a second client connecting by that address (activated service unlinks its own socket file)","caught at once"),
 ("C16",2,8,"an activation command that ends before accepting (parent keeps its copy of the listening socket: the client waits for ever)","missed at first: every spawned command served; commands that serve nothing added for with_activate and with_bridge (an error within 15 s, twice)"),
 ("C17",1,7,"a string-set key that needs JSON escaping, read from text or bytes","caught at once"),
 ("C17",2,8,"a Request whose parameters are a string, number, bool or array","caught at once"),
 ("C18",1,7,"an upgraded session in which the service speaks first and nothing is pipelined behind the upgrade request (bridge blocks on the client's stdin before copying)","missed at first: the T-service can only speak after the client under listen(); a raw `greeter` helper service now greets 300 ms after its upgrade reply while the client is silent (and, in another variant, in the same write as the reply - which exposed D18 on the unchanged tree)"),
 ("C18",2,8,"a oneway org.varlink.service.GetInfo in resolver mode (flags dropped when the request is rewritten for the resolver)","caught at once"),
 ("C19",1,7,"two Start calls within one millisecond (client ids from a millisecond clock)","caught at once"),
 ("C19",2,8,"a float that is wrong only from the tenth significant digit (tolerance in the parameter check)","missed at first: value changes were coarse (+0.5, +1, appended letter); near-miss deviations added (float * (1 + 1e-10), integer - 1, letter case)"),
 ("C20",1,7,"call --more against a service that writes \"continues\": false on its final reply","missed at first: the scripted service never spelled the member out; every third final reply now does"),
 ("C20",2,8,"an interface's own error whose last name element equals a standard error's (reported by short name only, parameters lost)","missed at first: custom error names were random; four names of that shape added (random and fixed family)"),
]
os.environ["SEED_ROUND"] = "4"
for prop, n, sn, needs, first in T:
    log = f"/tmp/mutr4/{prop}-{n}.log"
    keys = []
    if os.path.exists(log):
        keys = re.findall(r"key : (\S+)", open(log).read())
    seen = []
    for k in keys:
        if k not in seen:
            seen.append(k)
    det = [{"check": prop, "tier": "quick", "key": k} for k in seen[:3]]
    d = {"ran": [f"./check {prop} (quick)"], "detected": det, "missed": [] if det else [prop], "notes": "" if first == "caught at once" else first}
    subprocess.check_call(["python3", "/verif/tools/seeded_store.py", prop, str(n), needs, json.dumps(d), str(sn)])
    p = f"/verif/seeded/{prop}-s{sn}/meta.json"
    m = json.load(open(p))
    m["round"] = 4
    m["first_run"] = first.split(':')[0] if first != "caught at once" else first
    json.dump(m, open(p, 'w'), indent=1)
    print(prop, sn, [x["key"] for x in det])
