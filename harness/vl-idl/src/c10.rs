//! C10 — formatting an interface definition preserves it and is idempotent; the colored
//! rendering differs from the plain one only by escape sequences.

use proptest::prelude::*;
use serde_json::{json, Value};
use std::convert::TryFrom;
use varlink_parser::{Format, IDL};
use vl_model::ctx::{hash64, load_replay, ncpu, parallel, Acc, Args, Ctx};
use vl_model::idl::*;
use vl_model::pt::{self, Fail};

use crate::c11::build;

pub const RULE: &str = "grammar-directed IDLs (all constructors, keyword names, nested anonymous types) decorated with \
generated legal trivia and documentation comments, plus the repository's own definitions, x EVERY width 0..=200 and \
{1000, usize::MAX} (so every fit/no-fit threshold of every member is crossed). Oracle per (definition, width): \
the formatted text parses; its structure (interface name, documentation comments of interface and members, per-kind \
member order, names, types) equals the intended one and the original's; formatting the result again reproduces the \
text byte for byte; Display == width 80; the colored rendering with escape sequences stripped equals the plain \
text and contains escape sequences; for a sample the command-line tool prints exactly that text. The parser's documentation texts are equal character for character before and after; for every other definition the colored rendering of a width is taken before the plain one. Non-trivial: the \
definition takes at least 2 distinct layouts across the widths and carries at least one documentation comment; \
distinct by (definition, layout).";

pub fn widths() -> Vec<usize> {
    let mut w: Vec<usize> = (0..=200).collect();
    w.push(1000);
    w.push(usize::MAX);
    w
}

pub use vl_model::oracles::{check_format, strip_ansi};

fn cli_check(text: &str, w: usize, dir: &std::path::Path, n: usize) -> Result<bool, Fail> {
    let Some(bin) = std::env::var_os("VERIF_REPO_BIN") else { return Ok(false) };
    let exe = std::path::Path::new(&bin).join("varlink");
    if !exe.exists() {
        return Ok(false);
    }
    let a = IDL::try_from(text).map_err(|e| Fail::new("HARNESS/format-input-rejected", e.to_string()))?;
    let want = match std::panic::catch_unwind(std::panic::AssertUnwindSafe(|| a.get_multiline(0, w))) {
        Ok(t) => t + "\n",
        Err(p) => return Err(Fail::new("format/panic/get_multiline", format!("get_multiline panicked at width {}: {}", w, pt::panic_text(&p)))),
    };
    let file = dir.join(format!("f{}.varlink", n));
    std::fs::write(&file, text).map_err(|e| Fail::new("HARNESS/io", e.to_string()))?;
    for color in ["off", "on"] {
        let out = std::process::Command::new(&exe)
            .args(["--color", color, "format", "-c", &w.to_string()])
            .arg(&file)
            .env("CLICOLOR_FORCE", "1")
            .output()
            .map_err(|e| Fail::new("HARNESS/spawn-varlink", e.to_string()))?;
        if !out.status.success() {
            return Err(Fail::new(
                "format/cli-failed",
                format!("`varlink --color {} format -c {}` failed: {}", color, w, String::from_utf8_lossy(&out.stderr)),
            ));
        }
        let got = String::from_utf8_lossy(&out.stdout).to_string();
        let got = if color == "on" { strip_ansi(&got) } else { got };
        if got != want {
            return Err(Fail::new(
                format!("format/cli-output-differs/color-{}", color),
                format!("`varlink --color {} format -c {}` printed {:?}, the library formats {:?}", color, w, got, want),
            ));
        }
    }
    Ok(true)
}

fn corpus() -> Vec<String> {
    let mut v = vec![];
    if let Ok(rd) = std::fs::read_dir("/verif/corpus/idl") {
        let mut paths: Vec<_> = rd.flatten().map(|e| e.path()).collect();
        paths.sort();
        for p in paths {
            if let Ok(s) = std::fs::read_to_string(&p) {
                v.push(s);
            }
        }
    }
    v
}

fn replay(ctx: &mut Ctx, v: &Value) {
    let text = v["case"]["text"].as_str().unwrap_or("").to_string();
    ctx.case(None);
    ctx.force_sample(json!({"text": text}));
    let mut ws = widths();
    if let Some(w) = v["case"]["width"].as_u64() {
        ws.insert(0, w as usize);
    }
    if let Err(f) = check_format(&text, None, &ws) {
        ctx.violation(&f.key, &f.what, "c10-replay", json!({"text": text}));
    }
}

pub fn run(args: &Args) -> ! {
    let mut ctx = Ctx::new(args, "exploration");
    ctx.rule = RULE.into();
    ctx.assumptions = vec![
        "documentation comments are compared as the list of comment lines (blank lines and indentation between them are layout)".into(),
        "member order is the per-kind order (the formatter groups members by kind)".into(),
        "the parser is used to read the formatted text back; the intended structure comes from the harness' own generator, so a parser/formatter pair that is wrong in the same way is still caught".into(),
    ];
    colored::control::set_override(true);
    if let Some(p) = &args.replay {
        let v = load_replay(p);
        replay(&mut ctx, &v);
        ctx.finish();
    }
    let ws = widths();
    for text in corpus() {
        match check_format(&text, None, &ws) {
            Ok(l) => {
                ctx.case(if l.len() >= 2 { Some(hash64(&text)) } else { None });
                ctx.class("corpus:repo-idl");
                ctx.evaluations += ws.len() as u64 - 1;
            }
            Err(f) => {
                ctx.case(None);
                ctx.violation(&f.key, &f.what, "c10-text", json!({"text": text}));
            }
        }
    }
    let n = ctx.tier.pick(2_000, 6_000);
    let opts = GenOpts { big: true, ..GenOpts::default() };
    let tapes = pt::draw(ctx.seed, "c10", &(prop::collection::vec(any::<u32>(), 0..500), 0u8..3), n);
    let tapes = &tapes;
    let opts_ref = &opts;
    let ws_ref = &ws;
    let accs = parallel(ncpu(), |w, nw| {
        let mut acc = Acc::default();
        let mut i = w;
        while i < tapes.len() {
            let (tape, level) = &tapes[i];
            let (text, intended) = build(tape, *level, opts_ref);
            let has_doc = !intended.docs.is_empty() || intended.members.iter().any(|m| !m.docs.is_empty());
            match check_format(&text, Some(&intended), ws_ref) {
                Ok(layouts) => {
                    // one evaluation per (definition, width); distinct non-trivial = distinct layouts
                    for (k, l) in layouts.iter().enumerate() {
                        let _ = k;
                        acc.case(if layouts.len() >= 2 && has_doc { Some(hash64(&(i, l))) } else { None });
                    }
                    acc.evaluations += (ws_ref.len() - layouts.len()) as u64;
                    acc.class(if layouts.len() >= 2 { "generated:>=2-layouts" } else { "generated:1-layout" });
                    if i % 37 == 0 {
                        acc.sample(|| json!({"text": text, "distinct_layouts": layouts.len(), "widths": ws_ref.len()}));
                    }
                }
                Err(f) => {
                    acc.case(None);
                    acc.fail(i as u64, &f.key, &f.what, json!({"text": text}));
                }
            }
            i += nw;
        }
        acc
    });
    ctx.merge(accs, "c10-text");
    ctx.section("widths", json!({"every_width_from_0_to": 200, "plus": ["1000", "usize::MAX"], "definitions": n}));
    // a shrinking run on top (proptest) so that a failure is minimised
    let small = ctx.tier.pick(600, 2_000);
    let r = pt::check(&mut ctx, "c10-shrink", small, (prop::collection::vec(any::<u32>(), 0..300), 0u8..3), |ctx, (tape, level)| {
        let (text, intended) = build(tape, *level, &opts);
        let l = check_format(&text, Some(&intended), &[0, 20, 40, 60, 80, 120, usize::MAX])?;
        ctx.case(if l.len() >= 2 { Some(hash64(&text)) } else { None });
        ctx.class("generated:shrinkable-run(7 widths)");
        Ok(())
    });
    if let Some(((tape, level), f)) = r {
        let (text, _) = build(&tape, level, &opts);
        ctx.violation(&f.key, &f.what, "c10-text", json!({"text": text}));
    }
    // command-line tool on a sample
    let scratch = vl_model::sock::Scratch::new("c10");
    let k = ctx.tier.pick(40, 200);
    let mut ran = 0;
    for (i, (tape, level)) in tapes.iter().take(k).enumerate() {
        let (text, _) = build(tape, *level, &opts);
        for w in [0usize, 30, 80] {
            match cli_check(&text, w, &scratch.path, i) {
                Ok(true) => {
                    ran += 1;
                    ctx.case(Some(hash64(&(&text, w, "cli"))));
                    ctx.class("cli:varlink-format");
                }
                Ok(false) => {}
                Err(f) => {
                    ctx.violation(&f.key, &f.what, "c10-text", json!({"text": text, "width": w}));
                }
            }
        }
    }
    ctx.section("cli", json!({"invocations": ran * 2}));
    if ctx.tier == vl_model::Tier::Thorough && !ctx.failed() {
        // coverage-guided bytes: every text the parser accepts, at a fuzzed width and at 0 / 80 / unlimited
        let mut seeds: Vec<Vec<u8>> = vec![];
        for (i, t) in corpus().into_iter().enumerate() {
            let mut b = vec![[0u8, 30, 80, 200][i % 4]];
            b.extend_from_slice(t.as_bytes());
            seeds.push(b);
        }
        for (i, (tape, level)) in tapes.iter().take(60).enumerate() {
            let mut b = vec![(i * 7 % 256) as u8];
            b.extend_from_slice(build(tape, *level, &opts).0.as_bytes());
            seeds.push(b);
        }
        if let Some(bytes) = vl_model::fuzz::campaign(&mut ctx, "c10_format", 400_000, &seeds, 2048) {
            let w = bytes.first().copied().unwrap_or(0) as usize;
            let text = String::from_utf8_lossy(bytes.get(1..).unwrap_or(&[])).to_string();
            match check_format(&text, None, &[w, 0, 80, usize::MAX]) {
                Err(f) => {
                    ctx.violation(&f.key, &f.what, "c10-text", json!({"text": text, "width": w, "found_by": "libfuzzer"}));
                }
                Ok(_) => ctx.inconclusive("libFuzzer reported a crash that the oracle does not reproduce in-process"),
            }
        }
    }
    ctx.exhaustive = Some(false);
    ctx.finish()
}
