//! In-process checks against `varlink_parser` (C10-C12).
use vl_model::ctx::parse_args;

mod c10;
mod c11;
mod c12;

fn main() {
    let args = parse_args();
    std::panic::set_hook(Box::new(|_| {}));
    match args.id.as_str() {
        "C10" => c10::run(&args),
        "C11" => c11::run(&args),
        "C12" => c12::run(&args),
        other => {
            eprintln!("vl-idl: unknown property {}", other);
            std::process::exit(2)
        }
    }
}
