//! C12 — parsing is total and its diagnostics point into the input.

use proptest::prelude::*;
use serde_json::{json, Value};
use std::time::Duration;
use vl_model::ctx::{hash64, load_replay, ncpu, Acc, Args, Ctx};
use vl_model::idl::*;
use vl_model::isolate::{self, Journal, Watch};
use vl_model::pt::{self};

use crate::c11::build;

pub const RULE: &str = "inputs: (1) random Unicode strings biased to grammar tokens and to the grammar's blank / \
line-end code points; (2) byte-level mutations (flip, delete, insert, splice) of valid definitions, re-validated \
as UTF-8; (3) every prefix (at character boundaries) of every corpus and generated definition; (4) each text \
re-encoded with LF, CRLF, CR, U+2028, U+2029 and mixed line ends; (5) type nesting depth 1..200 for structs, \
arrays, maps, optionals-of-arrays and mixed, and arrays up to depth 2000. Oracle: no panic (catch_unwind), result \
within the in-process watchdog (10 s per case, 8 MiB stacks; a process death is attributed through a journaled \
child process), for Error::Parse{line,column}: `line` is one of input.split('\\n') and 1 <= column <= chars(line)+1, \
to_string() of every error returns without panic and a parse error's rendering contains the line. Non-trivial: the \
input gets past the `interface` keyword and a name (so the diagnostic is located in member syntax) or contains a \
non-LF line end; distinct by input.";

const STACK: usize = 8 * 1024 * 1024;

fn past_header(text: &str) -> bool {
    let t = text.trim_start_matches(|c: char| is_blank(c) || is_eol_char(c));
    if let Some(rest) = t.strip_prefix("interface") {
        let rest = rest.trim_start_matches(|c: char| is_blank(c) || is_eol_char(c));
        return rest.chars().next().map(|c| c.is_ascii_alphabetic()).unwrap_or(false) && rest.chars().any(is_eol_char);
    }
    false
}

pub fn nontrivial(text: &str) -> bool {
    past_header(text) || text.contains('\r') || text.contains('\u{2028}') || text.contains('\u{2029}')
}

pub use vl_model::oracles::check_total;

fn eol_variants(text: &str) -> Vec<String> {
    // normalise to LF first, then re-encode
    let mut lf = String::new();
    let cs: Vec<char> = text.chars().collect();
    let mut i = 0;
    while i < cs.len() {
        if cs[i] == '\r' && cs.get(i + 1) == Some(&'\n') {
            lf.push('\n');
            i += 2;
        } else if is_eol_char(cs[i]) {
            lf.push('\n');
            i += 1;
        } else {
            lf.push(cs[i]);
            i += 1;
        }
    }
    let mut v = vec![];
    for e in EOLS {
        v.push(lf.replace('\n', e));
    }
    // mixed
    let mut mixed = String::new();
    let mut k = 0;
    for c in lf.chars() {
        if c == '\n' {
            mixed.push_str(EOLS[k % EOLS.len()]);
            k += 1;
        } else {
            mixed.push(c);
        }
    }
    v.push(mixed);
    v
}

fn nest_cases() -> Vec<(String, String)> {
    let mut v = vec![];
    let wrap = |ty: &str| format!("interface a.b\nmethod F(x: {}) -> ()\n", ty);
    for d in 1..=200usize {
        let s: String = "(a: ".repeat(d) + "int" + &")".repeat(d);
        v.push((format!("struct-depth-{}", d), wrap(&s)));
        v.push((format!("array-depth-{}", d), wrap(&("[]".repeat(d) + "int"))));
        v.push((format!("map-depth-{}", d), wrap(&("[string]".repeat(d) + "int"))));
        v.push((format!("optarray-depth-{}", d), wrap(&("?[]".repeat(d) + "int"))));
        let m: String = "[](a: ?[string]".repeat(d) + "int" + &")".repeat(d);
        v.push((format!("mixed-depth-{}", d), wrap(&m)));
        // unbalanced variants (errors deep inside)
        let u: String = "(a: ".repeat(d) + "int" + &")".repeat(d.saturating_sub(1));
        v.push((format!("struct-unclosed-depth-{}", d), wrap(&u)));
        let e: String = "(".repeat(d) + "a" + &")".repeat(d);
        v.push((format!("enum-parens-depth-{}", d), wrap(&e)));
        // a syntax error at the innermost level (every enclosing level has to give up)
        let g: String = "(a: ".repeat(d) + "int$" + &")".repeat(d);
        v.push((format!("struct-garbled-inside-depth-{}", d), wrap(&g)));
        let g2: String = "(a: ".repeat(d) + &")".repeat(d);
        v.push((format!("struct-missing-type-depth-{}", d), wrap(&g2)));
        let g3: String = "(a: int, b: ".repeat(d) + "(x,, y)" + &")".repeat(d);
        v.push((format!("struct-bad-enum-inside-depth-{}", d), wrap(&g3)));
        let g4: String = "[](a: ?[string]".repeat(d) + "string int" + &")".repeat(d);
        v.push((format!("mixed-garbled-inside-depth-{}", d), wrap(&g4)));
    }
    for d in [500usize, 1000, 2000] {
        v.push((format!("array-depth-{}", d), wrap(&("[]".repeat(d) + "int"))));
    }
    v
}

fn mutate_bytes(base: &[u8], tape: &[u32]) -> String {
    let mut t = Tape::new(tape);
    let mut v = base.to_vec();
    let n = 1 + t.pick(4);
    for _ in 0..n {
        if v.is_empty() {
            break;
        }
        let pos = t.pick(v.len());
        match t.pick(6) {
            0 => v[pos] ^= 1 << t.pick(8),
            1 => {
                v.remove(pos);
            }
            2 => v.insert(pos, [b'(', b')', b',', b':', b'#', b'\n', b'\r', b' ', b'?', b'[', b']', b'-', b'>', 0xe2, 0x80, 0xa8][t.pick(16)]),
            3 => {
                let end = (pos + 1 + t.pick(12)).min(v.len());
                let slice = v[pos..end].to_vec();
                let at = t.pick(v.len());
                for (k, b) in slice.into_iter().enumerate() {
                    v.insert((at + k).min(v.len()), b);
                }
            }
            4 => {
                let end = (pos + 1 + t.pick(20)).min(v.len());
                v.drain(pos..end);
            }
            _ => v.truncate(pos),
        }
    }
    String::from_utf8_lossy(&v).to_string()
}

fn corpus() -> Vec<String> {
    let mut v = vec![];
    if let Ok(rd) = std::fs::read_dir("/verif/corpus/idl") {
        let mut paths: Vec<_> = rd.flatten().map(|e| e.path()).collect();
        paths.sort();
        for p in paths {
            if let Ok(s) = std::fs::read_to_string(&p) {
                v.push(s);
            }
        }
    }
    v
}

fn token_soup() -> impl Strategy<Value = String> {
    let tok = prop_oneof![
        4 => prop::sample::select(vec![
            "interface", "method", "type", "error", "->", "(", ")", ",", ":", "?", "[]", "[string]", "int", "bool", "float", "string",
            "object", "Foo", "a.b", "org.example", "a", "b_c", "#", "# c", " ", "\t", "\n", "\r\n", "\r", "\u{2028}", "\u{2029}",
            "\u{00A0}", "\u{FEFF}", "\u{3000}", "-", ".", "_", "0", "interface a.b\n", "method F() -> ()\n", "type T (a: int)\n",
        ])
        .prop_map(|s| s.to_string()),
        1 => any::<char>().prop_map(|c| c.to_string()),
        1 => "[ -~]{0,6}",
        1 => prop::sample::select(vec!['\u{10FFFF}', '\u{D7FF}', '\u{E000}', '\u{0}', '\u{7f}', '\u{85}', '\u{200B}', '\u{1F600}']).prop_map(|c| c.to_string()),
    ];
    prop::collection::vec(tok, 0..40).prop_map(|v| v.concat())
}

/// Run `f` on a thread with the fixed stack size used for all parsing in this check.
fn on_big_stack<T: Send + 'static>(f: impl FnOnce() -> T + Send + 'static) -> T {
    std::thread::Builder::new().stack_size(STACK).spawn(f).expect("spawn").join().expect("worker thread died")
}

fn journal_case(j: &mut Journal, text: &str) {
    if j.active() {
        j.note(&json!({"text": text}));
    }
}

fn child_main(args: &Args) -> ! {
    let mut ctx = Ctx::new(args, "exploration");
    ctx.rule = RULE.into();
    ctx.assumptions = vec![
        "nesting beyond depth 200 (2000 for arrays) is outside the quantifier".into(),
        "a case that exceeds 10 s ends the child process; the parent confirms it in isolation before reporting".into(),
    ];
    if let Some(p) = &args.replay {
        let v = load_replay(p);
        let text = v["case"]["text"].as_str().unwrap_or("").to_string();
        ctx.case(None);
        ctx.force_sample(json!({"text": text}));
        let t2 = text.clone();
        if let Err(f) = on_big_stack(move || check_total(&t2)) {
            ctx.violation(&f.key, &f.what, "c12-text", json!({"text": text}));
        }
        ctx.finish();
    }
    if let Some(cj) = isolate::one_case() {
        let text = cj["text"].as_str().unwrap_or("").to_string();
        let r = on_big_stack(move || check_total(&text));
        std::process::exit(if r.is_err() { 1 } else { 0 });
    }
    let nw = ncpu();
    let watch = std::sync::Arc::new(Watch::start(nw + 2, Duration::from_secs(10)));

    // deterministic families, spread over worker threads with big stacks
    let mut texts: Vec<(String, String)> = vec![];
    let corp = corpus();
    let n_gen = ctx.tier.pick(200, 600);
    let opts = GenOpts::default();
    let tapes = pt::draw(ctx.seed, "c12-gen", &(prop::collection::vec(any::<u32>(), 0..400), 0u8..3), n_gen);
    let mut bases: Vec<String> = corp.clone();
    for (tape, level) in &tapes {
        bases.push(build(tape, *level, &opts).0);
    }
    for (bi, b) in bases.iter().enumerate() {
        // every prefix at a character boundary
        for (k, _) in b.char_indices() {
            texts.push((format!("prefix:{}@{}", bi, k), b[..k].to_string()));
        }
        for (vi, v) in eol_variants(b).into_iter().enumerate() {
            texts.push((format!("eol-variant:{}#{}", bi, vi), v.clone()));
            // an error in the middle of a re-encoded text
            let cut = v.char_indices().nth(v.chars().count() * 2 / 3).map(|x| x.0).unwrap_or(0);
            texts.push((format!("eol-variant-broken:{}#{}", bi, vi), format!("{}\u{7f}{}", &v[..cut], &v[cut..])));
        }
    }
    texts.extend(nest_cases());
    let total = texts.len();
    let texts = std::sync::Arc::new(texts);
    let mut handles = vec![];
    for w in 0..nw {
        let texts = texts.clone();
        let watch = watch.clone();
        handles.push(std::thread::Builder::new().stack_size(STACK).spawn(move || {
            let mut acc = Acc::default();
            let mut j = Journal::open(w);
            let mut i = w;
            while i < texts.len() {
                let (name, text) = &texts[i];
                journal_case(&mut j, text);
                watch.begin(w);
                let r = check_total(text);
                watch.end(w);
                match r {
                    Ok(class) => {
                        acc.case(if nontrivial(text) { Some(hash64(text)) } else { None });
                        let fam = name.split(':').next().unwrap_or("nest");
                        let fam = if name.contains("depth") { "nesting" } else { fam };
                        acc.class(&format!("{}:{}", fam, class));
                        if i % 7919 == 0 {
                            acc.sample(|| json!({"family": name, "text": if text.len() > 300 { format!("{}…", &text[..text.char_indices().nth(200).map(|x| x.0).unwrap_or(0)]) } else { text.clone() }}));
                        }
                    }
                    Err(f) => {
                        acc.case(None);
                        acc.fail(i as u64, &f.key, &f.what, json!({"family": name, "text": text}));
                    }
                }
                i += nw;
            }
            acc
        }).expect("spawn"));
    }
    let accs: Vec<Acc> = handles.into_iter().map(|h| h.join().expect("worker died")).collect();
    ctx.merge(accs, "c12-text");
    ctx.section("deterministic_families", json!({"texts": total, "base_definitions": bases.len(), "nesting_depths": "1..=200 (+500,1000,2000 arrays)"}));

    // random families (proptest, shrinking) on a big-stack thread
    let n_soup = ctx.tier.pick(200_000, 600_000);
    let n_mut = ctx.tier.pick(200_000, 600_000);
    let bases2 = bases.clone();
    let watch2 = watch.clone();
    let ctx = on_big_stack(move || {
        let mut ctx = ctx;
        let j = std::cell::RefCell::new(Journal::open(nw));
        ctx.bump_sample_cap(4);
        let r = pt::check(&mut ctx, "c12-soup", n_soup, token_soup(), |ctx, text| {
            journal_case(&mut j.borrow_mut(), text);
            watch2.begin(nw);
            let r = check_total(text);
            watch2.end(nw);
            let class = r?;
            ctx.case(if nontrivial(text) { Some(hash64(text)) } else { None });
            ctx.class(&format!("token-soup:{}", class));
            ctx.sample(|| json!({"family": "token-soup", "text": text}));
            Ok(())
        });
        if let Some((text, f)) = r {
            ctx.violation(&f.key, &f.what, "c12-text", json!({"text": text}));
        }
        ctx.bump_sample_cap(4);
        let nb = bases2.len();
        let strat = (0..nb, prop::collection::vec(any::<u32>(), 1..24));
        let r = pt::check(&mut ctx, "c12-mutate", n_mut, strat, |ctx, (bi, tape)| {
            let text = mutate_bytes(bases2[*bi].as_bytes(), tape);
            journal_case(&mut j.borrow_mut(), &text);
            watch2.begin(nw);
            let r = check_total(&text);
            watch2.end(nw);
            let class = r?;
            ctx.case(if nontrivial(&text) { Some(hash64(&text)) } else { None });
            ctx.class(&format!("byte-mutation:{}", class));
            ctx.sample(|| json!({"family": "byte-mutation", "text": if text.len() > 400 { "(long)".to_string() } else { text.clone() }}));
            Ok(())
        });
        if let Some(((bi, tape), f)) = r {
            let text = mutate_bytes(bases2[bi].as_bytes(), &tape);
            ctx.violation(&f.key, &f.what, "c12-text", json!({"text": text}));
        }
        ctx
    });
    let mut ctx = ctx;
    if ctx.tier == vl_model::Tier::Thorough && !ctx.failed() {
        let seeds: Vec<Vec<u8>> = bases.iter().map(|b| b.as_bytes().to_vec()).collect();
        if let Some(bytes) = vl_model::fuzz::campaign(&mut ctx, "c12_parse", 1_500_000, &seeds, 4096) {
            let text = String::from_utf8_lossy(&bytes).to_string();
            match check_total(&text) {
                Err(f) => {
                    ctx.violation(&f.key, &f.what, "c12-text", json!({"text": text, "found_by": "libfuzzer"}));
                }
                Ok(_) => ctx.inconclusive("libFuzzer reported a crash that the oracle does not reproduce in-process"),
            }
        }
    }
    ctx.exhaustive = Some(false);
    ctx.finish()
}

pub fn run(args: &Args) -> ! {
    if isolate::is_child() {
        child_main(args);
    }
    isolate::supervise(args, "exploration", RULE, "parse/process-death-or-hang", "c12-text")
}

#[allow(dead_code)]
fn _v(_: Value) {}
