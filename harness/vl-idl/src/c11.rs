//! C11 — the parser accepts exactly the varlink grammar, rejects duplicates, mirrors the source.

use proptest::prelude::*;
use serde_json::{json, Value};
use vl_model::ctx::{hash64, load_replay, ncpu, parallel, Acc, Args, Ctx};
use vl_model::idl::*;
use vl_model::pt::{self, Fail};

pub const RULE: &str = "(a) grammar-directed IDLs (0-4 typedefs, 1-4 methods, 0-3 errors, type nesting <= 3, all \
constructors, ordinary / IDL-keyword / Rust-keyword names) decorated with generated legal trivia (all 20 blank \
code points, 5 line-end conventions, comments) at every position the grammar admits; the parser must accept and \
its structure must equal the intended one incl. the attached documentation comments. (b) near misses: every \
token of such texts deleted, duplicated, swapped with its neighbour, substituted by / preceded by each of 24 \
tokens; (c) every interface name over {a,B,1,-,.} up to length 7 (97 655) and every type expression of up to 5 \
tokens over {?, [], [string], int, T, (), (a: int), (a, b)} (37 448); (d) all 9 kind x kind name collisions and \
random multi-duplicate definitions. Oracle for (b)-(d): differential against a hand-written reference recogniser \
(same verdict; on accept same structure and documentation; duplicates -> definition error naming every \
duplicated name); inputs the recogniser marks `unspecified` are skipped and counted. Every documentation text runs from its first `#` to the last non-blank character of the comment block. One definition in 24 has 32..61 interleaved members. Non-trivial: the text has a \
hyphen or upper case in its interface name, a nested optional/array/map, trivia inside parentheses, a duplicate, or \
is a near-miss mutant; distinct by text.";

pub use vl_model::oracles::{differential, Outcome};

fn nontrivial(text: &str, mutated: bool, dup: bool) -> bool {
    if mutated || dup {
        return true;
    }
    let name_line = text.lines().find(|l| l.trim_start().starts_with("interface")).unwrap_or("");
    let hy_up = name_line.contains('-') || name_line.trim_start().chars().skip(9).any(|c| c.is_ascii_uppercase());
    let nested = text.contains("?[") || text.contains("[]?") || text.contains("[][") || text.contains("[string][") || text.contains("[string]?");
    let mut depth = 0;
    let mut trivia_inside = false;
    for c in text.chars() {
        match c {
            '(' => depth += 1,
            ')' => depth -= 1,
            '#' | '\n' | '\r' | '\u{2028}' | '\u{2029}' if depth > 0 => trivia_inside = true,
            _ => {}
        }
    }
    hy_up || nested || trivia_inside
}

// ------------------------------------------------------------------------------------------------
// (a) decorated valid texts

fn tape_strategy(n: usize) -> impl Strategy<Value = Vec<u32>> {
    prop::collection::vec(any::<u32>(), 0..n)
}

pub fn build(tape: &[u32], level: u8, opts: &GenOpts) -> (String, Idl) {
    let mut t = Tape::new(tape);
    let idl = gen_idl(&mut t, opts);
    decorate(&idl, &mut t, level)
}

fn part_a(ctx: &mut Ctx, cases: u32) {
    let opts = GenOpts { big: true, ..GenOpts::default() };
    let r = pt::check(ctx, "c11a", cases, (tape_strategy(500), 0u8..3), |ctx, (tape, level)| {
        let (text, intended) = build(tape, *level, &opts);
        ctx.case(if nontrivial(&text, false, false) { Some(hash64(&text)) } else { None });
        ctx.class(["a:canonical", "a:blanks+LF", "a:full-trivia"][*level as usize]);
        ctx.sample(|| json!({"text": text}));
        match differential(&text, Some(&intended))? {
            Outcome::BothAccept => Ok(()),
            other => Err(Fail::new("HARNESS/valid-text-not-accepted-by-both", format!("{:?}", other))),
        }
    });
    if let Some(((tape, level), f)) = r {
        let (text, _) = build(&tape, level, &opts);
        ctx.violation(&f.key, &f.what, "c11-text", json!({"text": text}));
    }
}

// ------------------------------------------------------------------------------------------------
// (b) near misses

pub fn tokenize(text: &str) -> Vec<String> {
    let cs: Vec<char> = text.chars().collect();
    let mut out = vec![];
    let mut i = 0;
    while i < cs.len() {
        let c = cs[i];
        let start = i;
        if c.is_ascii_alphanumeric() || c == '_' {
            while i < cs.len() && (cs[i].is_ascii_alphanumeric() || cs[i] == '_') {
                i += 1;
            }
        } else if c == '#' {
            while i < cs.len() && !is_eol_char(cs[i]) {
                i += 1;
            }
        } else if c == '-' && cs.get(i + 1) == Some(&'>') {
            i += 2;
        } else if c == '[' && cs.get(i + 1) == Some(&']') {
            i += 2;
        } else if cs[i..].starts_with(&['[', 's', 't', 'r', 'i', 'n', 'g', ']']) {
            i += 8;
        } else if is_blank(c) {
            while i < cs.len() && is_blank(cs[i]) {
                i += 1;
            }
        } else if c == '\r' && cs.get(i + 1) == Some(&'\n') {
            i += 2;
        } else {
            i += 1;
        }
        out.push(cs[start..i].iter().collect());
    }
    out
}

const SUBST: [&str; 24] = [
    "(", ")", ",", ":", "->", "?", "[]", "[string]", "int", "Foo", "foo", "type", "method", "error", "interface", " ", "\n",
    "#c\n", "-", ".", "_", "1", "a_", "",
];

fn near_misses(tokens: &[String], f: &mut dyn FnMut(String, String) -> bool) {
    let join = |v: &[String]| v.concat();
    for i in 0..tokens.len() {
        let mut v = tokens.to_vec();
        v.remove(i);
        if !f(format!("delete#{}", i), join(&v)) {
            return;
        }
        let mut v = tokens.to_vec();
        v.insert(i, tokens[i].clone());
        if !f(format!("duplicate#{}", i), join(&v)) {
            return;
        }
        // a blank / line end / comment inside a multi-character token
        let tc: Vec<char> = tokens[i].chars().collect();
        if tc.len() >= 2 && !tokens[i].starts_with('#') && !tc.iter().all(|c| is_blank(*c)) {
            for k in 1..tc.len() {
                for ins in [" ", "\n", "\t"] {
                    let mut v = tokens.to_vec();
                    let a: String = tc[..k].iter().collect();
                    let b: String = tc[k..].iter().collect();
                    v[i] = format!("{}{}{}", a, ins, b);
                    if !f(format!("split#{}@{}", i, k), join(&v)) {
                        return;
                    }
                }
            }
        }
        if i + 1 < tokens.len() {
            let mut v = tokens.to_vec();
            v.swap(i, i + 1);
            if !f(format!("swap#{}", i), join(&v)) {
                return;
            }
        }
        for s in SUBST {
            if s.is_empty() {
                continue;
            }
            if tokens[i] != s {
                let mut v = tokens.to_vec();
                v[i] = s.to_string();
                if !f(format!("subst#{}:{:?}", i, s), join(&v)) {
                    return;
                }
            }
            let mut v = tokens.to_vec();
            v.insert(i, s.to_string());
            if !f(format!("insert#{}:{:?}", i, s), join(&v)) {
                return;
            }
        }
    }
}

fn part_b(ctx: &mut Ctx, texts: usize) {
    let opts = GenOpts { max_types: 2, max_methods: 2, max_errors: 1, max_fields: 3, max_depth: 2, ..GenOpts { big: true, ..GenOpts::default() } };
    let tapes = pt::draw(ctx.seed, "c11b", &(tape_strategy(200), 0u8..3), texts);
    let tapes = &tapes;
    let opts = &opts;
    let accs = parallel(ncpu(), |w, nw| {
        let mut acc = Acc::default();
        let mut i = w;
        while i < tapes.len() {
            let (tape, level) = &tapes[i];
            let (text, _) = build(tape, *level, opts);
            let tokens = tokenize(&text);
            let mut n = 0u64;
            near_misses(&tokens, &mut |op, mutant| {
                n += 1;
                match differential(&mutant, None) {
                    Ok(o) => {
                        acc.case(if o != Outcome::Unspecified { Some(hash64(&mutant)) } else { None });
                        acc.class(match o {
                            Outcome::BothAccept => "b:mutant-still-valid",
                            Outcome::BothReject => "b:mutant-rejected-by-both",
                            Outcome::Duplicate => "b:mutant-duplicate",
                            Outcome::Unspecified => "b:mutant-unspecified(skipped)",
                        });
                        if n % 5003 == 1 {
                            acc.sample(|| json!({"text": mutant, "op": op}));
                        }
                        true
                    }
                    Err(f) => {
                        acc.case(None);
                        acc.fail((i as u64) << 24 | n, &f.key, &f.what, json!({"text": mutant, "op": op, "original": text}));
                        false
                    }
                }
            });
            i += nw;
        }
        acc
    });
    ctx.merge(accs, "c11-text");
    ctx.section("near_miss_base_texts", json!(texts));
}

// ------------------------------------------------------------------------------------------------
// (c) systematic enumeration

fn part_c(ctx: &mut Ctx) {
    // interface names
    let alpha = ['a', 'B', '1', '-', '.'];
    let accs = parallel(ncpu(), |w, nw| {
        let mut acc = Acc::default();
        let mut idx = 0u64;
        for len in 1..=7usize {
            let total = 5usize.pow(len as u32);
            for k in 0..total {
                idx += 1;
                if (idx as usize) % nw != w {
                    continue;
                }
                let mut s = String::new();
                let mut x = k;
                for _ in 0..len {
                    s.push(alpha[x % 5]);
                    x /= 5;
                }
                let text = format!("interface {}\nmethod F()->()", s);
                match differential(&text, None) {
                    Ok(o) => {
                        acc.case(if s.contains('-') || s.contains('B') { Some(hash64(&text)) } else { None });
                        acc.class(if o == Outcome::BothAccept { "c:name-accepted" } else { "c:name-rejected" });
                        if idx % 9973 == 0 {
                            acc.sample(|| json!({"text": text}));
                        }
                    }
                    Err(f) => {
                        acc.case(None);
                        acc.fail(idx, &f.key, &f.what, json!({"text": text}));
                    }
                }
            }
        }
        acc
    });
    ctx.merge(accs, "c11-text");
    // type expressions
    let toks = ["?", "[]", "[string]", "int", "T", "()", "(a: int)", "(a, b)"];
    let accs = parallel(ncpu(), |w, nw| {
        let mut acc = Acc::default();
        let mut idx = 0u64;
        for len in 1..=5usize {
            let total = 8usize.pow(len as u32);
            for k in 0..total {
                idx += 1;
                if (idx as usize) % nw != w {
                    continue;
                }
                let mut s = String::new();
                let mut x = k;
                for _ in 0..len {
                    s.push_str(toks[x % 8]);
                    x /= 8;
                }
                let text = format!("interface a.b\nmethod F(x: {})->()", s);
                match differential(&text, None) {
                    Ok(o) => {
                        acc.case(if len >= 2 { Some(hash64(&text)) } else { None });
                        acc.class(if o == Outcome::BothAccept { "c:type-accepted" } else { "c:type-rejected" });
                        if idx % 4999 == 0 {
                            acc.sample(|| json!({"text": text}));
                        }
                    }
                    Err(f) => {
                        acc.case(None);
                        acc.fail(idx, &f.key, &f.what, json!({"text": text}));
                    }
                }
            }
        }
        acc
    });
    ctx.merge(accs, "c11-text");
    // type expressions with blanks inside / between the prefix tokens
    let toks2 = ["?", "[]", "[string]", "int", "T", "()", "(a: int)", "(a, b)", " ", "[ ]", "[string ]", "[ string]"];
    let accs = parallel(ncpu(), |w, nw| {
        let mut acc = Acc::default();
        let mut idx = 0u64;
        for len in 1..=4usize {
            let total = 12usize.pow(len as u32);
            for k in 0..total {
                idx += 1;
                if (idx as usize) % nw != w {
                    continue;
                }
                let mut s = String::new();
                let mut x = k;
                let mut has_blank = false;
                for _ in 0..len {
                    if x % 12 >= 8 {
                        has_blank = true;
                    }
                    s.push_str(toks2[x % 12]);
                    x /= 12;
                }
                if !has_blank {
                    continue;
                }
                let text = format!("interface a.b\nmethod F(x: {})->()", s);
                match differential(&text, None) {
                    Ok(o) => {
                        acc.case(Some(hash64(&text)));
                        acc.class(if o == Outcome::BothAccept { "c:blank-type-accepted" } else { "c:blank-type-rejected" });
                    }
                    Err(f) => {
                        acc.case(None);
                        acc.fail(idx, &f.key, &f.what, json!({"text": text}));
                    }
                }
            }
        }
        acc
    });
    ctx.merge(accs, "c11-text");
    ctx.section("systematic", json!({"interface_names": 97655, "type_expressions": 37448, "exhaustive": true}));
}

// ------------------------------------------------------------------------------------------------
// (d) duplicates

fn member_text(kind: &str, name: &str) -> String {
    match kind {
        "type" => format!("type {} (a: int)", name),
        "method" => format!("method {}() -> ()", name),
        _ => format!("error {} ()", name),
    }
}

fn part_d(ctx: &mut Ctx, cases: u32) {
    let kinds = ["type", "method", "error"];
    // all 9 ordered kind pairs, alone, and all subsets of the 9 pairs combined (512)
    let pairs: Vec<(&str, &str)> = kinds.iter().flat_map(|a| kinds.iter().map(move |b| (*a, *b))).collect();
    for mask in 1u32..512 {
        let mut text = String::from("interface a.b\n");
        text.push_str("method Ok() -> ()\n");
        for (i, (a, b)) in pairs.iter().enumerate() {
            if mask & (1 << i) != 0 {
                let n = format!("N{}", i);
                text.push_str(&member_text(a, &n));
                text.push('\n');
                text.push_str(&member_text(b, &n));
                text.push('\n');
            }
        }
        ctx.case(Some(hash64(&text)));
        ctx.class("d:kind-pair-subsets");
        match differential(&text, None) {
            Ok(Outcome::Duplicate) => {}
            Ok(o) => {
                ctx.violation("HARNESS/duplicate-case-not-duplicate", &format!("{:?}", o), "c11-text", json!({"text": text}));
            }
            Err(f) => {
                ctx.violation(&f.key, &f.what, "c11-text", json!({"text": text}));
            }
        }
    }
    ctx.section("duplicates_systematic", json!({"subsets_of_9_kind_pairs": 511, "exhaustive": true}));
    // random: a valid generated IDL with 1-3 of its member names re-used by further members
    let opts = GenOpts { big: true, ..GenOpts::default() };
    let strat = (tape_strategy(300), prop::collection::vec((any::<prop::sample::Index>(), 0usize..3, any::<prop::sample::Index>()), 1..=3), 0u8..3);
    let r = pt::check(ctx, "c11d", cases, strat, |ctx, (tape, dups, level)| {
        let mut t = Tape::new(tape);
        let mut idl = gen_idl(&mut t, &opts);
        for (which, kind, at) in dups {
            let name = idl.members[which.index(idl.members.len())].name.clone();
            let def = match kind {
                0 => Def::Type(Ty::Struct(vec![])),
                1 => Def::Method(vec![], vec![]),
                _ => Def::Error(vec![]),
            };
            let pos = at.index(idl.members.len() + 1);
            idl.members.insert(pos, Member { name, docs: vec![], def });
        }
        let (text, _) = decorate(&idl, &mut t, *level);
        ctx.case(Some(hash64(&text)));
        ctx.class("d:random-duplicates");
        ctx.sample(|| json!({"text": text}));
        match differential(&text, None)? {
            Outcome::Duplicate => Ok(()),
            o => Err(Fail::new("HARNESS/duplicate-case-not-duplicate", format!("{:?}", o))),
        }
    });
    if let Some(((tape, dups, level), f)) = r {
        let _ = (tape, dups, level);
        ctx.violation(&f.key, &f.what, "c11-text", json!({"note": "shrunk random duplicate case", "what": f.what}));
    }
}

fn corpus_texts() -> Vec<String> {
    let mut v = vec![];
    for dir in ["/verif/corpus/idl"] {
        if let Ok(rd) = std::fs::read_dir(dir) {
            let mut paths: Vec<_> = rd.flatten().map(|e| e.path()).collect();
            paths.sort();
            for p in paths {
                if let Ok(s) = std::fs::read_to_string(&p) {
                    v.push(s);
                }
            }
        }
    }
    v
}

fn part_corpus(ctx: &mut Ctx) {
    for text in corpus_texts() {
        ctx.case(Some(hash64(&text)));
        ctx.class("corpus:repo-idl");
        match differential(&text, None) {
            Ok(Outcome::BothAccept) | Ok(Outcome::Unspecified) => {}
            Ok(o) => {
                ctx.violation("parser/corpus-definition-not-accepted", &format!("{:?}", o), "c11-text", json!({"text": text}));
            }
            Err(f) => {
                ctx.violation(&f.key, &f.what, "c11-text", json!({"text": text}));
            }
        }
    }
}

pub fn replay_text(ctx: &mut Ctx, v: &Value) {
    let text = v["case"]["text"].as_str().unwrap_or("").to_string();
    ctx.case(None);
    ctx.force_sample(json!({"text": text}));
    if let Err(f) = differential(&text, None) {
        ctx.violation(&f.key, &f.what, "c11-replay", json!({"text": text}));
    }
}

pub fn run(args: &Args) -> ! {
    let mut ctx = Ctx::new(args, "exploration");
    ctx.rule = RULE.into();
    ctx.assumptions = vec![
        "the reference recogniser implements the documented grammar; three placements where the peg grammar is stricter than a liberal reading and no property clause decides (blanks before a comma, an interface without members, a comment after blanks at the end of a member's line / ended by the end of input) are classified `unspecified` and skipped".into(),
        "member order is the per-kind order of appearance (the structure records three per-kind key lists)".into(),
    ];
    if let Some(p) = &args.replay {
        let v = load_replay(p);
        replay_text(&mut ctx, &v);
        ctx.finish();
    }
    part_corpus(&mut ctx);
    let n = ctx.tier.pick(6_000, 100_000);
    part_a(&mut ctx, n);
    ctx.bump_sample_cap(4);
    let n = ctx.tier.pick(120, 2_000);
    part_b(&mut ctx, n);
    ctx.bump_sample_cap(4);
    part_c(&mut ctx);
    ctx.bump_sample_cap(4);
    let n = ctx.tier.pick(3_000, 50_000);
    part_d(&mut ctx, n);
    if ctx.tier == vl_model::Tier::Thorough && !ctx.failed() {
        let mut seeds: Vec<Vec<u8>> = corpus_texts().into_iter().map(|s| s.into_bytes()).collect();
        let opts = GenOpts { big: true, ..GenOpts::default() };
        for (tape, level) in pt::draw(ctx.seed, "c11-fuzz-seeds", &(tape_strategy(200), 0u8..3), 60) {
            seeds.push(build(&tape, level, &opts).0.into_bytes());
        }
        if let Some(bytes) = vl_model::fuzz::campaign(&mut ctx, "c11_diff", 1_000_000, &seeds, 2048) {
            let text = String::from_utf8_lossy(&bytes).to_string();
            match differential(&text, None) {
                Err(f) => {
                    ctx.violation(&f.key, &f.what, "c11-text", json!({"text": text, "found_by": "libfuzzer"}));
                }
                Ok(_) => ctx.inconclusive("libFuzzer reported a crash that the oracle does not reproduce in-process"),
            }
        }
    }
    ctx.exhaustive = Some(false);
    ctx.finish()
}
