fn main() {
    // Bindings for the harness' test services are produced by /repo's own generator at build time.
    varlink_generator::cargo_build_many(&[
        "idl/org.verif.test.varlink",
        "idl/org.verif.varlink",
        "idl/org.verif.test-2.varlink",
        "idl/org.verif.Test.varlink",
    ]);
}
