//! The harness' test service ("T-service"): the built-in org.varlink.service plus `org.verif.test`
//! and three name-variants of it, all with bindings produced at build time by /repo's generator.

use std::io::BufRead;
use std::sync::atomic::{AtomicUsize, Ordering};
use std::sync::{Arc, Mutex};

#[allow(non_camel_case_types, non_snake_case, dead_code, clippy::all)]
pub mod org_verif_test {
    include!(concat!(env!("OUT_DIR"), "/org.verif.test.rs"));
}
#[allow(non_camel_case_types, non_snake_case, dead_code, clippy::all)]
pub mod org_verif {
    include!(concat!(env!("OUT_DIR"), "/org.verif.rs"));
}
#[allow(non_camel_case_types, non_snake_case, dead_code, clippy::all)]
pub mod org_verif_test_2 {
    include!(concat!(env!("OUT_DIR"), "/org.verif.test-2.rs"));
}
#[allow(non_camel_case_types, non_snake_case, dead_code, clippy::all)]
pub mod org_verif_test_upper {
    include!(concat!(env!("OUT_DIR"), "/org.verif.Test.rs"));
}

pub use vl_model::svc::{IDL_TEST, IDL_TEST_2, IDL_TEST_UPPER, IDL_VERIF, PRODUCT, REGISTERED, URL, VENDOR, VERSION};


/// Shared observation points of a T-service instance.
#[derive(Clone, Default)]
pub struct Probe {
    /// every byte offered to `call_upgraded`, in order
    pub upgraded: Arc<Mutex<Vec<u8>>>,
    /// number of `call_upgraded` invocations
    pub upgraded_calls: Arc<AtomicUsize>,
}

pub use vl_model::svc::GREETING;

pub struct TestImpl {
    pub probe: Probe,
    /// write every byte offered to the upgraded handler back to the peer (process-level checks)
    pub echo_upgraded: bool,
}


impl org_verif_test::VarlinkInterface for TestImpl {
    fn echo(
        &self,
        call: &mut dyn org_verif_test::Call_Echo,
        token: String,
        n: i64,
    ) -> varlink::Result<()> {
        call.reply(token, n)
    }

    fn slow(&self, call: &mut dyn org_verif_test::Call_Slow, token: String, ms: i64) -> varlink::Result<()> {
        std::thread::sleep(std::time::Duration::from_millis(ms.clamp(0, 5_000) as u64));
        call.reply(token)
    }

    fn ack(&self, call: &mut dyn org_verif_test::Call_Ack, _token: String) -> varlink::Result<()> {
        call.reply()
    }

    fn fail(&self, call: &mut dyn org_verif_test::Call_Fail, token: String) -> varlink::Result<()> {
        call.reply_failed(token)
    }

    fn stream(
        &self,
        call: &mut dyn org_verif_test::Call_Stream,
        token: String,
        k: i64,
    ) -> varlink::Result<()> {
        if call.wants_more() {
            call.set_continues(true);
            for i in 0..k {
                call.reply(token.clone(), i)?;
            }
            call.set_continues(false);
        }
        call.reply(token, k)
    }

    fn naive_stream(
        &self,
        call: &mut dyn org_verif_test::Call_NaiveStream,
        token: String,
    ) -> varlink::Result<()> {
        // deliberately ignores whether the caller asked for `more`
        call.set_continues(true);
        call.reply(token.clone())?;
        call.set_continues(false);
        call.reply(token)
    }

    fn upgrade(
        &self,
        call: &mut dyn org_verif_test::Call_Upgrade,
        token: String,
    ) -> varlink::Result<()> {
        call.to_upgraded();
        call.reply(token)
    }

    fn big(&self, call: &mut dyn org_verif_test::Call_Big, blob: String) -> varlink::Result<()> {
        call.reply(blob)
    }

    fn call_upgraded(
        &self,
        call: &mut varlink::Call,
        bufreader: &mut dyn BufRead,
    ) -> varlink::Result<Vec<u8>> {
        self.probe.upgraded_calls.fetch_add(1, Ordering::SeqCst);
        loop {
            let n = {
                let buf = bufreader.fill_buf().map_err(varlink::map_context!())?;
                if buf.is_empty() {
                    break;
                }
                self.probe.upgraded.lock().unwrap().extend_from_slice(buf);
                if self.echo_upgraded {
                    // echo with ASCII letters upper-cased, so that bytes merely looped back by a
                    // proxy cannot be mistaken for the service's answer
                    let up: Vec<u8> = buf.iter().map(|b| b.to_ascii_uppercase()).collect();
                    call.writer.write_all(&up).map_err(varlink::map_context!())?;
                    call.writer.flush().map_err(varlink::map_context!())?;
                }
                buf.len()
            };
            bufreader.consume(n);
        }
        Ok(Vec::new())
    }
}

pub struct EchoOnly;

macro_rules! echo_only {
    ($m:ident) => {
        impl $m::VarlinkInterface for EchoOnly {
            fn echo(&self, call: &mut dyn $m::Call_Echo, token: String, n: i64) -> varlink::Result<()> {
                call.reply(token, n)
            }
        }
    };
}
echo_only!(org_verif);
echo_only!(org_verif_test_2);
echo_only!(org_verif_test_upper);

/// The full T-service: org.verif.test plus its three name variants.
pub fn t_service() -> (varlink::VarlinkService, Probe) {
    t_service_with(false)
}

pub fn t_service_with(echo_upgraded: bool) -> (varlink::VarlinkService, Probe) {
    let probe = Probe::default();
    let svc = varlink::VarlinkService::new(
        VENDOR,
        PRODUCT,
        VERSION,
        URL,
        vec![
            Box::new(org_verif_test::new(Box::new(TestImpl {
                probe: probe.clone(),
                echo_upgraded,
            }))),
            Box::new(org_verif::new(Box::new(EchoOnly))),
            Box::new(org_verif_test_2::new(Box::new(EchoOnly))),
            Box::new(org_verif_test_upper::new(Box::new(EchoOnly))),
        ],
    );
    (svc, probe)
}

