//! Helper processes of the verification harness: the T-service behind various transports.
//!   vl-svc listen <address> [idle_timeout_s]     plain listen() server
//!   vl-svc activated                              socket-activated server; dumps what it was given
//!   vl-svc stdio                                  serves stdin/stdout through handle()
//!   vl-svc listen-spaced <unix address>           thread-per-connection server whose replies carry blanks
//!   vl-svc listen-greeter <unix address>          raw service: upgrade reply and a greeting in one write, then upper-case echo
//!   vl-svc listener-matrix <fds|-> <own|other|junk|-> <names|-> <address>

use serde_json::json;
use std::io::{Read, Write};
use std::os::unix::io::AsRawFd;
use varlink::ConnectionHandler;

fn fd_info(fd: i32) -> serde_json::Value {
    unsafe {
        let flags = libc::fcntl(fd, libc::F_GETFD);
        if flags < 0 {
            return json!({"open": false});
        }
        let mut st: libc::stat = std::mem::zeroed();
        libc::fstat(fd, &mut st);
        let is_sock = (st.st_mode & libc::S_IFMT) == libc::S_IFSOCK;
        let mut val: libc::c_int = 0;
        let mut len = std::mem::size_of::<libc::c_int>() as libc::socklen_t;
        let r = libc::getsockopt(fd, libc::SOL_SOCKET, libc::SO_ACCEPTCONN, &mut val as *mut _ as *mut libc::c_void, &mut len);
        json!({"open": true, "socket": is_sock, "listening": r == 0 && val != 0, "cloexec": flags & libc::FD_CLOEXEC != 0})
    }
}

fn open_fds() -> Vec<i32> {
    let mut v: Vec<i32> = std::fs::read_dir("/proc/self/fd")
        .map(|rd| rd.flatten().filter_map(|e| e.file_name().to_str().and_then(|s| s.parse().ok())).collect())
        .unwrap_or_default();
    v.sort();
    v
}

struct Spaced;

impl serde_json::ser::Formatter for Spaced {
    fn begin_array_value<W: ?Sized + Write>(&mut self, w: &mut W, first: bool) -> std::io::Result<()> {
        if first {
            Ok(())
        } else {
            w.write_all(b", ")
        }
    }
    fn begin_object_key<W: ?Sized + Write>(&mut self, w: &mut W, first: bool) -> std::io::Result<()> {
        if first {
            Ok(())
        } else {
            w.write_all(b", ")
        }
    }
    fn begin_object_value<W: ?Sized + Write>(&mut self, w: &mut W) -> std::io::Result<()> {
        w.write_all(b": ")
    }
}

/// Re-serialise every NUL-terminated JSON message with blanks after `:` and `,`.
fn respace(out: &[u8]) -> Vec<u8> {
    use serde::Serialize;
    let mut v = vec![];
    for piece in out.split_inclusive(|b| *b == 0) {
        if piece.last() == Some(&0) {
            if let Ok(val) = serde_json::from_slice::<serde_json::Value>(&piece[..piece.len() - 1]) {
                let mut ser = serde_json::Serializer::with_formatter(&mut v, Spaced);
                if val.serialize(&mut ser).is_ok() {
                    v.push(0);
                    continue;
                }
            }
        }
        v.extend_from_slice(piece);
    }
    v
}

/// Serve one byte stream through handle(); bytes behind an upgrade request are handed to the
/// upgraded handler right away.
fn serve(svc: &varlink::VarlinkService, input: &mut dyn Read, output: &mut dyn Write, spaced: bool) {
    let mut pending: Vec<u8> = vec![];
    let mut iface: Option<String> = None;
    let mut buf = [0u8; 8192];
    let mut fed = usize::MAX;
    let mut continue_without_read = false;
    loop {
        let again = (iface.is_some() && !pending.is_empty() && pending.len() != fed) || continue_without_read;
        continue_without_read = false;
        if !again {
            let n = match input.read(&mut buf) {
                Ok(0) | Err(_) => break,
                Ok(n) => n,
            };
            pending.extend_from_slice(&buf[..n]);
        }
        fed = pending.len();
        let mut out = vec![];
        // a spaced service is fed one message at a time while it is not upgraded, so that what it
        // writes does not depend on how the requests were segmented
        let take = if spaced && iface.is_none() {
            match pending.iter().position(|b| *b == 0) {
                Some(p) => p + 1,
                None => {
                    fed = usize::MAX;
                    continue;
                }
            }
        } else {
            pending.len()
        };
        let later: Vec<u8> = pending[take..].to_vec();
        let mut rd: &[u8] = &pending[..take];
        let before = iface.clone();
        match svc.handle(&mut rd, &mut out, iface.clone()) {
            Ok((rest, i)) => {
                let mut rest = rest;
                rest.extend_from_slice(rd);
                rest.extend_from_slice(&later);
                pending = rest;
                iface = i;
                if spaced && before.is_none() {
                    out = respace(&out);
                }
                if output.write_all(&out).is_err() || output.flush().is_err() {
                    break;
                }
                if spaced && iface.is_none() && pending.contains(&0) {
                    // more complete messages are waiting: no read needed
                    continue_without_read = true;
                }
            }
            Err(_) => {
                if spaced && before.is_none() {
                    out = respace(&out);
                }
                let _ = output.write_all(&out);
                let _ = output.flush();
                break;
            }
        }
    }
}

fn main() {
    let args: Vec<String> = std::env::args().collect();
    let mode = args.get(1).map(|s| s.as_str()).unwrap_or("");
    match mode {
        "listen" => {
            let addr = args.get(2).expect("address");
            let idle: u64 = args.get(3).and_then(|s| s.parse().ok()).unwrap_or(0);
            let (svc, _p) = vl_tsvc::t_service_with(true);
            let r = varlink::listen(svc, addr, &varlink::ListenConfig { idle_timeout: idle, ..Default::default() });
            std::process::exit(match r {
                Ok(()) => 0,
                Err(e) if *e.kind() == varlink::ErrorKind::Timeout => 0,
                Err(e) => {
                    eprintln!("vl-svc listen: {:?}", e);
                    1
                }
            });
        }
        "activated" => {
            let env = |k: &str| std::env::var(k).ok();
            let dump = json!({
                "pid": std::process::id(),
                "LISTEN_FDS": env("LISTEN_FDS"),
                "LISTEN_PID": env("LISTEN_PID"),
                "LISTEN_FDNAMES": env("LISTEN_FDNAMES"),
                "VARLINK_ADDRESS": env("VARLINK_ADDRESS"),
                "fd3": fd_info(3),
                "open_fds": open_fds(),
            });
            if let Some(p) = env("VL_DUMP") {
                let _ = std::fs::write(p, dump.to_string());
            }
            // services chat on their standard output; whoever started this one keeps that away from
            // the channel it talks varlink on
            println!("vl-svc activated: starting (pid {})", std::process::id());
            let addr = env("VARLINK_ADDRESS").unwrap_or_else(|| args.get(2).cloned().unwrap_or_default());
            let idle: u64 = env("VL_IDLE").and_then(|s| s.parse().ok()).unwrap_or(3);
            let (svc, _p) = vl_tsvc::t_service_with(true);
            let r = varlink::listen(svc, &addr, &varlink::ListenConfig { idle_timeout: idle, ..Default::default() });
            std::process::exit(match r {
                Ok(()) => 0,
                Err(e) if *e.kind() == varlink::ErrorKind::Timeout => 0,
                Err(e) => {
                    eprintln!("vl-svc activated: {:?}", e);
                    1
                }
            });
        }
        "stdio" => {
            let (svc, _p) = vl_tsvc::t_service_with(true);
            serve(&svc, &mut std::io::stdin(), &mut std::io::stdout(), false);
        }
        "listen-spaced" => {
            // a service whose replies carry blanks after `:` and `,` (what e.g. Python's json.dumps writes)
            let addr = args.get(2).expect("address");
            let path = addr.strip_prefix("unix:").expect("unix address");
            let _ = std::fs::remove_file(path);
            let l = std::os::unix::net::UnixListener::bind(path).expect("bind");
            // one service instance for all connections (GetInfo lists the interfaces in the
            // instance's own map order)
            let (svc, _p) = vl_tsvc::t_service_with(true);
            let svc = std::sync::Arc::new(svc);
            for c in l.incoming() {
                let Ok(c) = c else { continue };
                let svc = svc.clone();
                std::thread::spawn(move || {
                    let Ok(mut w) = c.try_clone() else { return };
                    let mut r = c;
                    serve(&svc, &mut r, &mut w, true);
                    let _ = w.shutdown(std::net::Shutdown::Both);
                });
            }
        }
        "listener-matrix" => {
            // arguments: LISTEN_FDS value or "-", LISTEN_PID mode, LISTEN_FDNAMES value or "-", address
            let fds = args.get(2).cloned().unwrap_or_default();
            let pid = args.get(3).cloned().unwrap_or_default();
            let names = args.get(4).cloned().unwrap_or_default();
            let addr = args.get(5).cloned().unwrap_or_default();
            // three listening sockets at descriptors 3, 4, 5
            let dir = std::env::var("VL_TMP").unwrap_or_else(|_| "/tmp".into());
            let mut keep = vec![];
            for i in 0..3 {
                let p = format!("{}/m{}-{}.sock", dir, std::process::id(), i);
                let _ = std::fs::remove_file(&p);
                let l = std::os::unix::net::UnixListener::bind(&p).expect("bind");
                let want = 3 + i;
                unsafe {
                    if l.as_raw_fd() != want {
                        libc::dup2(l.as_raw_fd(), want);
                    } else {
                        std::mem::forget(l);
                        continue;
                    }
                }
                keep.push(l);
            }
            for k in ["LISTEN_FDS", "LISTEN_PID", "LISTEN_FDNAMES"] {
                std::env::remove_var(k);
            }
            if fds != "-" {
                std::env::set_var("LISTEN_FDS", &fds);
            }
            match pid.as_str() {
                "own" => std::env::set_var("LISTEN_PID", std::process::id().to_string()),
                "other" => std::env::set_var("LISTEN_PID", "1"),
                "junk" => std::env::set_var("LISTEN_PID", "12x"),
                _ => {}
            }
            if names != "-" {
                std::env::set_var("LISTEN_FDNAMES", &names);
            }
            let r = varlink::Listener::new(&addr);
            let out = match &r {
                Ok(l) => {
                    let dbg = format!("{:?}", l);
                    json!({"ok": true, "fd": l.as_raw_fd(), "activated": dbg.ends_with("true)"), "debug": dbg})
                }
                Err(e) => json!({"ok": false, "kind": format!("{:?}", e.kind())}),
            };
            println!("{}", out);
            // do not run destructors of activated listeners twice over our own sockets
            std::mem::forget(r);
            for i in 0..3 {
                let _ = std::fs::remove_file(format!("{}/m{}-{}.sock", dir, std::process::id(), i));
            }
            if let Some(a) = addr.strip_prefix("unix:") {
                if !a.starts_with('@') {
                    let _ = std::fs::remove_file(a.split(';').next().unwrap_or(a));
                }
            }
        }
        "listen-greeter" => {
            // a hand-written service for `org.verif.greeter.Upgrade`: it answers the upgrade request
            // and sends a greeting of its own in ONE write, then echoes upper-cased what it receives
            let addr = args.get(2).expect("address");
            let path = addr.strip_prefix("unix:").expect("unix address");
            let _ = std::fs::remove_file(path);
            let l = std::os::unix::net::UnixListener::bind(path).expect("bind");
            for c in l.incoming() {
                let Ok(mut c) = c else { continue };
                std::thread::spawn(move || {
                    let mut pending: Vec<u8> = vec![];
                    let mut buf = [0u8; 8192];
                    let mut upgraded = false;
                    loop {
                        if upgraded && !pending.is_empty() {
                            let up: Vec<u8> = pending.iter().map(|b| b.to_ascii_uppercase()).collect();
                            pending.clear();
                            if c.write_all(&up).is_err() {
                                break;
                            }
                        }
                        if !upgraded {
                            if let Some(p) = pending.iter().position(|b| *b == 0) {
                                let msg: Vec<u8> = pending.drain(..=p).collect();
                                let req: serde_json::Value = serde_json::from_slice(&msg[..msg.len() - 1]).unwrap_or(serde_json::Value::Null);
                                let mut out = serde_json::to_vec(&json!({"parameters": {"token": req["parameters"]["token"]}})).unwrap();
                                out.push(0);
                                // a token starting with "late": the greeting follows 300 ms after the reply
                                let late = req["parameters"]["token"].as_str().map(|t| t.starts_with("late")).unwrap_or(false);
                                if req["upgrade"] == json!(true) {
                                    if !late {
                                        out.extend_from_slice(vl_tsvc::GREETING);
                                    }
                                    upgraded = true;
                                }
                                if req["oneway"] != json!(true) && c.write_all(&out).is_err() {
                                    break;
                                }
                                if upgraded && late {
                                    std::thread::sleep(std::time::Duration::from_millis(300));
                                    if c.write_all(vl_tsvc::GREETING).is_err() {
                                        break;
                                    }
                                }
                                continue;
                            }
                        }
                        match c.read(&mut buf) {
                            Ok(0) | Err(_) => break,
                            Ok(n) => pending.extend_from_slice(&buf[..n]),
                        }
                    }
                    let _ = c.shutdown(std::net::Shutdown::Both);
                });
            }
        }
        "resolver" => {
            // vl-svc resolver <address> <json: {"interface": "address", ...}>
            use varlink_stdinterfaces::org_varlink_resolver as r;
            struct Res {
                map: std::collections::BTreeMap<String, String>,
            }
            impl r::VarlinkInterface for Res {
                fn get_info(&self, call: &mut dyn r::Call_GetInfo) -> varlink::Result<()> {
                    call.reply(
                        "org.verif.resolver-vendor".into(),
                        "harness resolver".into(),
                        "7".into(),
                        "http://resolver.invalid/".into(),
                        self.map.keys().cloned().collect(),
                    )
                }
                fn resolve(&self, call: &mut dyn r::Call_Resolve, interface: String) -> varlink::Result<()> {
                    match self.map.get(&interface) {
                        Some(a) => call.reply(a.clone()),
                        None => call.reply_interface_not_found(interface),
                    }
                }
            }
            let addr = args.get(2).expect("address");
            let map: std::collections::BTreeMap<String, String> = serde_json::from_str(args.get(3).expect("map")).expect("json map");
            let svc = varlink::VarlinkService::new("org.verif", "resolver", "1", "http://x", vec![Box::new(r::new(Box::new(Res { map })))]);
            let _ = varlink::listen(svc, addr, &varlink::ListenConfig::default());
        }
        "activate-client" | "bridge-client" => {
            // a fresh process (descriptors 0-2 only) that first opens <n> placeholder descriptors,
            // then uses the spawning constructor and makes one call through the connection
            let placeholders: usize = args.get(2).and_then(|s| s.parse().ok()).unwrap_or(0);
            let cmd = args.get(3).cloned().unwrap_or_default();
            let mut keep = vec![];
            for _ in 0..placeholders {
                keep.push(std::fs::File::open("/dev/null").expect("placeholder"));
            }
            let first_free = {
                let f = std::fs::File::open("/dev/null").expect("probe");
                f.as_raw_fd()
            };
            let conn = if mode == "activate-client" { varlink::Connection::with_activate(&cmd) } else { varlink::Connection::with_bridge(&cmd) };
            let conn = match conn {
                Ok(c) => c,
                Err(e) => {
                    println!("{}", json!({"constructed": false, "error": format!("{:?}", e.kind())}));
                    return;
                }
            };
            let address = conn.read().unwrap().address();
            use varlink::OrgVarlinkServiceInterface;
            let mut c = varlink::OrgVarlinkServiceClient::new(conn.clone());
            let info = c.get_info();
            let out = match info {
                Ok(i) => json!({"constructed": true, "call_ok": true, "vendor": i.vendor, "interfaces": i.interfaces, "address": address, "first_free_fd": first_free}),
                Err(e) => json!({"constructed": true, "call_ok": false, "error": format!("{:?}", e.kind()), "address": address, "first_free_fd": first_free}),
            };
            println!("{}", out);
            drop(c);
            drop(conn);
        }
        _ => {
            eprintln!("usage: vl-svc listen|activated|stdio|listener-matrix ...");
            std::process::exit(2);
        }
    }
}
