//! Raw varlink conversation over a Peer: send request objects, collect the replies that belong
//! to each.

use serde_json::Value;
use std::time::Duration;
use vl_model::sock::{Peer, Wait};

pub struct Raw {
    pub peer: Peer,
    finals_seen: usize,
    consumed: usize,
}

#[derive(Debug)]
pub enum CallEnd {
    /// replies (continues..., final)
    Replies(Vec<Value>),
    Closed(Vec<Value>),
    Stalled,
}

impl Raw {
    pub fn connect(addr: &str) -> std::io::Result<Raw> {
        Ok(Raw { peer: Peer::connect(addr)?, finals_seen: 0, consumed: 0 })
    }

    pub fn send(&mut self, req: &Value) {
        let mut b = serde_json::to_vec(req).unwrap();
        b.push(0);
        self.peer.send(&b);
    }

    fn all_replies(&self) -> Vec<Value> {
        let bytes = self.peer.received();
        let mut v = vec![];
        let last = bytes.iter().rposition(|b| *b == 0).map(|p| p + 1).unwrap_or(0);
        if last == 0 {
            return v;
        }
        for p in bytes[..last - 1].split(|b| *b == 0) {
            v.push(serde_json::from_slice(p).unwrap_or(Value::Null));
        }
        v
    }

    /// Wait for the next final reply; returns everything received since the previous call.
    pub fn next_final(&mut self, timeout: Duration) -> CallEnd {
        let r = self.peer.wait_finals(self.finals_seen + 1, timeout);
        let all = self.all_replies();
        let new: Vec<Value> = all[self.consumed.min(all.len())..].to_vec();
        match r {
            Wait::Reached => {
                // take up to and including the first non-continues reply
                let mut out = vec![];
                for v in new {
                    let fin = v.get("continues") != Some(&Value::Bool(true));
                    out.push(v);
                    self.consumed += 1;
                    if fin {
                        break;
                    }
                }
                self.finals_seen += 1;
                CallEnd::Replies(out)
            }
            Wait::Eof => {
                self.consumed = all.len();
                CallEnd::Closed(new)
            }
            Wait::Stalled => CallEnd::Stalled,
        }
    }

    pub fn call(&mut self, req: &Value, timeout: Duration) -> CallEnd {
        self.send(req);
        self.next_final(timeout)
    }
}
