//! C18 — the CLI bridge is transparent.

use proptest::prelude::*;
use serde_json::{json, Value};
use std::io::{Read, Write};
use std::process::{Child, Command, Stdio};
use std::sync::{Arc, Condvar, Mutex};
use std::time::{Duration, Instant};
use vl_model::ctx::{hash64, load_replay, Args, Ctx};
use vl_model::pt::{self, Fail};
use vl_model::sock::{Peer, Scratch, Wait};
use vl_model::wire::*;

use crate::spawn::{harness_bin, repo_bin, Proc};

pub const RULE: &str = "sessions through the built `varlink bridge` in four modes: resolver lookup (-R <harness \
resolver> with two test services behind it, so that the bridge switches targets between requests), --connect \
ADDRESS, --activate <socket-activated test service>, --bridge <stdio test service>; request sequences of plain / \
more / oneway calls over the test services' interfaces (kinds after which a service keeps its connection open; \
service-info queries included), optionally ending in an upgrade request followed by arbitrary payload (the test \
service answers upgraded bytes with their upper-cased echo); client behaviour pipelined or one request at a \
time; the client keeps its side open until the last expected reply. Oracle (differential): the bridge's stdout \
equals, byte for byte, the reply stream obtained from direct sockets to the same service(s) - in resolver mode \
per request from the service the resolver names, GetInfo from the resolver itself - and, after the client closes \
its side, the bridge exits with status 0. Variant `close right after the last request`: only exit status 0 and \
`stdout is a prefix of the expected stream` are asserted. Further variants: the service spells its JSON with blanks; the client closes while a 300 ms reply is pending; the client hangs up altogether (stdin and stdout) while a 400 ms reply is pending - exit status 0 in every mode; bytes that arrive only after the client closed its side make the session slow (twice in a row: stuck); in the three copying modes the client closes its sending side while the service is busy with a 4 s call: the bridge stops (more than 2.5 s, twice in a row, is waiting for the service). Non-trivial: a session that switches target services, \
streams, or upgrades; distinct by (mode, sequence, client behaviour). Two sessions of 401 calls in resolver mode (one connection per call) run through a bridge process limited to 128 descriptors. In the copying modes sessions also end with a call after which the service closes the connection right behind its reply (ill-typed parameters, a refused stream): every reply still reaches the client and the bridge exits 0.";

#[derive(Clone, Copy, Debug, PartialEq, Eq, Hash)]
pub enum Mode {
    Resolver,
    Connect,
    Activate,
    InnerBridge,
}

#[derive(Clone, Debug)]
pub struct Session {
    pub mode: Mode,
    pub syms: Vec<Sym>,
    pub pipelined: bool,
    /// end with an upgrade request followed by this payload
    pub upgrade: Option<Vec<u8>>,
    /// send the payload together with the upgrade request instead of after its reply
    pub payload_pipelined: bool,
    pub close_early: bool,
    /// the service behind org.verif.test writes its JSON with blanks after `:` and `,`
    pub spaced: bool,
    /// (with close_early) the last request is one the service answers only after 300 ms, so the
    /// client's hang-up reaches the bridge while it is waiting for a reply
    pub slow_tail: bool,
    /// after all replies have arrived the client sends one more request (answered after 400 ms) and
    /// hangs up altogether - stdin and stdout - while the bridge waits for that reply
    pub hangup_while_waiting: bool,
    /// (with upgrade) the service sends a greeting of its own right behind its upgrade reply
    pub greet: bool,
    /// (resolver mode, with upgrade) the upgrade goes to the raw greeter service, which sends its
    /// upgrade reply and a greeting in one write
    pub greet_one_write: bool,
    /// (with greet_one_write) the greeter sends its greeting 300 ms after the upgrade reply instead:
    /// the service speaks first while the client is silent
    pub greet_late: bool,
}

fn slow_request(ms: u64) -> Value {
    json!({"method": "org.verif.test.Slow", "parameters": {"token": "slow-tail", "ms": ms}})
}

fn sess_json(s: &Session) -> Value {
    json!({"mode": format!("{:?}", s.mode), "requests": syms_json(&s.syms), "pipelined": s.pipelined,
        "upgrade_payload_hex": s.upgrade.as_ref().map(|p| p.iter().map(|b| format!("{:02x}", b)).collect::<String>()),
        "payload_pipelined": s.payload_pipelined, "close_early": s.close_early, "spaced_service": s.spaced, "slow_tail": s.slow_tail, "hangup_while_waiting": s.hangup_while_waiting, "service_greets_after_upgrade": s.greet, "greeting_in_one_write_with_the_upgrade_reply": s.greet_one_write, "greeting_300ms_after_the_upgrade_reply": s.greet_late})
}

fn sess_from(v: &Value) -> Session {
    let mode = match v["mode"].as_str().unwrap_or("") {
        "Connect" => Mode::Connect,
        "Activate" => Mode::Activate,
        "InnerBridge" => Mode::InnerBridge,
        _ => Mode::Resolver,
    };
    Session {
        mode,
        syms: syms_from_json(&v["requests"]),
        pipelined: v["pipelined"].as_bool().unwrap_or(false),
        upgrade: v["upgrade_payload_hex"].as_str().map(|s| (0..s.len() / 2).filter_map(|i| u8::from_str_radix(&s[2 * i..2 * i + 2], 16).ok()).collect()),
        payload_pipelined: v["payload_pipelined"].as_bool().unwrap_or(false),
        close_early: v["close_early"].as_bool().unwrap_or(false),
        spaced: v["spaced_service"].as_bool().unwrap_or(false),
        slow_tail: v["slow_tail"].as_bool().unwrap_or(false),
        hangup_while_waiting: v["hangup_while_waiting"].as_bool().unwrap_or(false),
        greet: v["service_greets_after_upgrade"].as_bool().unwrap_or(false),
        greet_one_write: v["greeting_in_one_write_with_the_upgrade_reply"].as_bool().unwrap_or(false),
        greet_late: v["greeting_300ms_after_the_upgrade_reply"].as_bool().unwrap_or(false),
    }
}

pub struct World {
    _scratch: Scratch,
    pub s1: String,
    pub s2: String,
    /// the raw greeter service (org.verif.greeter)
    pub s3: String,
    pub resolver: String,
    _procs: Vec<Proc>,
}

impl World {
    pub fn start(spaced: bool) -> Option<World> {
        let scratch = Scratch::new("c18");
        let svc = harness_bin("vl-svc");
        let s1 = scratch.unix_addr("s1.sock");
        let s2 = scratch.unix_addr("s2.sock");
        let resolver = scratch.unix_addr("res.sock");
        let s3 = scratch.unix_addr("s3.sock");
        let map = json!({"org.verif.test": s1, "org.verif": s2, "org.verif.test-2": s2, "org.verif.Test": s2, "org.verif.greeter": s3}).to_string();
        let p1 = Proc::spawn(&svc, &[if spaced { "listen-spaced" } else { "listen" }, &s1], Some(&scratch.path.join("s1.sock")))?;
        let p2 = Proc::spawn(&svc, &["listen", &s2], Some(&scratch.path.join("s2.sock")))?;
        let p3 = Proc::spawn(&svc, &["resolver", &resolver, &map], Some(&scratch.path.join("res.sock")))?;
        let p4 = Proc::spawn(&svc, &["listen-greeter", &s3], Some(&scratch.path.join("s3.sock")))?;
        Some(World { _scratch: scratch, s1, s2, s3, resolver, _procs: vec![p1, p2, p3, p4] })
    }

    fn owner(&self, method: &str) -> Option<&str> {
        let iface = &method[..method.rfind('.')?];
        match iface {
            "org.verif.test" => Some(&self.s1),
            "org.verif" | "org.verif.test-2" | "org.verif.Test" => Some(&self.s2),
            "org.verif.greeter" => Some(&self.s3),
            _ => None,
        }
    }
}

fn upgrade_request(i: usize, s: &Session) -> Value {
    let mut r = request(Sym { kind: Kind::Upgrade, flag: Flag::None }, i);
    if s.greet_one_write {
        r["method"] = json!("org.verif.greeter.Upgrade");
        if s.greet_late {
            r["parameters"]["token"] = json!(format!("late-{}", i));
        }
    }
    r
}

/// one request on a fresh direct connection; returns the raw reply bytes
fn direct_one(addr: &str, req: &Value) -> Result<Vec<u8>, Fail> {
    let mut p = Peer::connect(addr).map_err(|e| Fail::new("HARNESS/direct-connect", e.to_string()))?;
    p.send(&encode(req, Style::Compact));
    if req["oneway"] == json!(true) {
        p.half_close();
        let _ = p.wait_eof(Duration::from_secs(5));
        return Ok(p.finish());
    }
    match p.wait_finals(1, Duration::from_secs(10)) {
        Wait::Reached | Wait::Eof => {}
        Wait::Stalled => return Err(Fail::new("HARNESS/direct-stalled", format!("{}", req))),
    }
    p.half_close();
    let _ = p.wait_eof(Duration::from_secs(5));
    Ok(p.finish())
}

/// What a client must see: (bytes of the varlink replies, expected echo of the upgrade payload)
pub fn reference(w: &World, s: &Session) -> Result<(Vec<u8>, Vec<u8>), Fail> {
    let mut reqs: Vec<Value> = s.syms.iter().enumerate().map(|(i, x)| request(*x, i)).collect();
    if s.upgrade.is_some() {
        reqs.push(upgrade_request(reqs.len(), s));
    }
    if s.slow_tail {
        reqs.push(slow_request(0));
    }
    let mut echo: Vec<u8> = s.upgrade.as_ref().map(|p| p.iter().map(|b| b.to_ascii_uppercase()).collect()).unwrap_or_default();
    let _ = &mut echo;
    let mut out = vec![];
    match s.mode {
        Mode::Resolver => {
            for r in &reqs {
                let m = r["method"].as_str().unwrap_or("");
                if m == "org.varlink.service.GetInfo" {
                    let mut r2 = r.clone();
                    r2["method"] = json!("org.varlink.resolver.GetInfo");
                    out.extend(direct_one(&w.resolver, &r2)?);
                } else if m == "org.varlink.service.GetInterfaceDescription" {
                    let target = r["parameters"]["interface"].as_str().unwrap_or("");
                    let owner = w.owner(&format!("{}.X", target)).ok_or_else(|| Fail::new("HARNESS/unroutable", m.to_string()))?;
                    out.extend(direct_one(owner, r)?);
                } else {
                    let owner = w.owner(m).ok_or_else(|| Fail::new("HARNESS/unroutable", m.to_string()))?;
                    out.extend(direct_one(owner, r)?);
                }
            }
        }
        _ => {
            // one direct connection, everything pipelined
            let mut p = Peer::connect(&w.s1).map_err(|e| Fail::new("HARNESS/direct-connect", e.to_string()))?;
            let mut finals = 0;
            for r in &reqs {
                p.send(&encode(r, Style::Compact));
                if r["oneway"] != json!(true) {
                    finals += 1;
                }
            }
            match p.wait_finals(finals, Duration::from_secs(10)) {
                Wait::Stalled => return Err(Fail::new("HARNESS/direct-stalled", "pipelined reference".to_string())),
                _ => {}
            }
            p.half_close();
            let _ = p.wait_eof(Duration::from_secs(5));
            out = p.finish();
        }
    }
    Ok((out, echo))
}

/// stdout collector of the bridge process
struct Out {
    st: Arc<(Mutex<(Vec<u8>, bool)>, Condvar)>,
    /// tells the reader thread to let go of the pipe (the client hangs up altogether)
    hangup: Arc<std::sync::atomic::AtomicBool>,
}

impl Out {
    fn new(mut so: std::process::ChildStdout) -> Out {
        let st: Arc<(Mutex<(Vec<u8>, bool)>, Condvar)> = Arc::new((Mutex::new((vec![], false)), Condvar::new()));
        let s2 = st.clone();
        let hangup = Arc::new(std::sync::atomic::AtomicBool::new(false));
        let h2 = hangup.clone();
        std::thread::spawn(move || {
            use std::os::unix::io::AsRawFd;
            let mut buf = [0u8; 8192];
            loop {
                // wait for data in slices, so that a hang-up request is honoured while nothing arrives
                let mut pfd = libc::pollfd { fd: so.as_raw_fd(), events: libc::POLLIN, revents: 0 };
                let r = unsafe { libc::poll(&mut pfd, 1, 10) };
                if h2.load(std::sync::atomic::Ordering::SeqCst) {
                    s2.0.lock().unwrap().1 = true;
                    s2.1.notify_all();
                    break; // `so` is dropped: the read end of the bridge's stdout is closed
                }
                if r == 0 {
                    continue;
                }
                match so.read(&mut buf) {
                    Ok(0) | Err(_) => {
                        s2.0.lock().unwrap().1 = true;
                        s2.1.notify_all();
                        break;
                    }
                    Ok(n) => {
                        s2.0.lock().unwrap().0.extend_from_slice(&buf[..n]);
                        s2.1.notify_all();
                    }
                }
            }
        });
        Out { st, hangup }
    }
    /// close our end of the bridge's stdout
    fn hang_up(&self) {
        self.hangup.store(true, std::sync::atomic::Ordering::SeqCst);
        let _ = self.wait_eof(Duration::from_secs(2));
    }
    /// wait until at least `n` bytes arrived or EOF; false on timeout
    fn wait_len(&self, n: usize, t: Duration) -> bool {
        let deadline = Instant::now() + t;
        let mut g = self.st.0.lock().unwrap();
        loop {
            if g.0.len() >= n || g.1 {
                return true;
            }
            let now = Instant::now();
            if now >= deadline {
                return false;
            }
            g = self.st.1.wait_timeout(g, deadline - now).unwrap().0;
        }
    }
    fn wait_eof(&self, t: Duration) -> bool {
        let deadline = Instant::now() + t;
        let mut g = self.st.0.lock().unwrap();
        loop {
            if g.1 {
                return true;
            }
            let now = Instant::now();
            if now >= deadline {
                return false;
            }
            g = self.st.1.wait_timeout(g, deadline - now).unwrap().0;
        }
    }
    fn bytes(&self) -> Vec<u8> {
        self.st.0.lock().unwrap().0.clone()
    }
}

/// RLIMIT_NOFILE for the next bridge processes (0: inherit)
static NOFILE_LIMIT: std::sync::atomic::AtomicU64 = std::sync::atomic::AtomicU64::new(0);

fn spawn_bridge(w: &World, mode: Mode, stderr_file: &std::path::Path) -> Result<Child, Fail> {
    let exe = repo_bin("varlink").ok_or_else(|| Fail::new("HARNESS/no-varlink-binary", "VERIF_REPO_BIN/varlink missing".to_string()))?;
    let svc = harness_bin("vl-svc");
    let mut cmd = Command::new(exe);
    match mode {
        Mode::Resolver => {
            cmd.args(["-R", &w.resolver, "bridge"]);
        }
        Mode::Connect => {
            cmd.args(["bridge", "--connect", &w.s1]);
        }
        Mode::Activate => {
            cmd.args(["--activate", &format!("{} activated", svc.display()), "bridge"]);
            cmd.env("VL_IDLE", "2");
        }
        Mode::InnerBridge => {
            cmd.args(["--bridge", &format!("{} stdio", svc.display()), "bridge"]);
        }
    }
    {
        use std::os::unix::process::CommandExt;
        cmd.process_group(0);
        let lim = NOFILE_LIMIT.load(std::sync::atomic::Ordering::SeqCst);
        if lim > 0 {
            // a modest descriptor limit for this bridge process (sessions with hundreds of calls)
            unsafe {
                cmd.pre_exec(move || {
                    let r = libc::rlimit { rlim_cur: lim, rlim_max: lim };
                    libc::setrlimit(libc::RLIMIT_NOFILE, &r);
                    Ok(())
                });
            }
        }
    }
    // stderr goes to a file: a socket-activated service inherits it and would keep a pipe open
    let ef = std::fs::File::create(stderr_file).map_err(|e| Fail::new("HARNESS/io", e.to_string()))?;
    cmd.stdin(Stdio::piped()).stdout(Stdio::piped()).stderr(Stdio::from(ef));
    cmd.spawn().map_err(|e| Fail::new("HARNESS/spawn-bridge", e.to_string()))
}

#[derive(Debug, PartialEq)]
pub enum Outcome {
    Ok,
    /// the bridge did not deliver / did not exit in time (needs confirmation)
    Slow(String),
}

pub fn run_session(w: &World, s: &Session) -> Result<Outcome, Fail> {
    let (want, echo) = reference(w, s)?;
    static SEQ: std::sync::atomic::AtomicU64 = std::sync::atomic::AtomicU64::new(0);
    let stderr_file = w._scratch.path.join(format!("bridge-{}.stderr", SEQ.fetch_add(1, std::sync::atomic::Ordering::SeqCst)));
    let mut child = spawn_bridge(w, s.mode, &stderr_file)?;
    let mut stdin = child.stdin.take().unwrap();
    let out = Out::new(child.stdout.take().unwrap());
    let kill = |child: &mut Child| {
        unsafe {
            libc::kill(-(child.id() as i32), libc::SIGKILL);
        }
        let _ = child.kill();
        let _ = child.wait();
    };
    let mut reqs: Vec<Value> = s.syms.iter().enumerate().map(|(i, x)| request(*x, i)).collect();
    if s.upgrade.is_some() {
        reqs.push(upgrade_request(reqs.len(), s));
    }
    if s.slow_tail {
        reqs.push(slow_request(300));
    }
    let patience = Duration::from_secs(10);
    let mut slow: Option<String> = None;
    if s.pipelined {
        let mut all = vec![];
        for r in &reqs {
            all.extend(encode(r, Style::Compact));
        }
        if s.payload_pipelined {
            if let Some(p) = &s.upgrade {
                all.extend_from_slice(p);
            }
        }
        let _ = stdin.write_all(&all);
        let _ = stdin.flush();
    } else {
        // one at a time: wait until the reply stream has grown to what this request must produce
        let mut upto = 0usize;
        // expected length after each request is found by replaying the reference incrementally
        let cum = cumulative_lengths(w, s, &reqs)?;
        for (i, r) in reqs.iter().enumerate() {
            let mut b = encode(r, Style::Compact);
            if s.payload_pipelined && i + 1 == reqs.len() {
                if let Some(p) = &s.upgrade {
                    b.extend_from_slice(p);
                }
            }
            let _ = stdin.write_all(&b);
            let _ = stdin.flush();
            upto = cum[i];
            if !s.close_early && !out.wait_len(upto, patience) {
                slow = Some(format!("reply to request #{} did not arrive within 10 s", i));
                break;
            }
        }
        let _ = upto;
    }
    if slow.is_none() && !s.close_early {
        if !out.wait_len(want.len(), patience) {
            slow = Some("the expected replies did not all arrive within 10 s".into());
        }
        if slow.is_none() {
            if let Some(p) = &s.upgrade {
                if !s.payload_pipelined {
                    let _ = stdin.write_all(p);
                    let _ = stdin.flush();
                }
                if !out.wait_len(want.len() + echo.len(), patience) {
                    slow = Some("the upgraded echo did not arrive within 10 s".into());
                }
            }
        }
    }
    if s.hangup_while_waiting && slow.is_none() {
        let _ = stdin.write_all(&encode(&slow_request(400), Style::Compact));
        let _ = stdin.flush();
        std::thread::sleep(Duration::from_millis(80));
        drop(stdin);
        out.hang_up();
    } else {
        drop(stdin); // the client closes its side
    }
    let exited = {
        let t0 = Instant::now();
        loop {
            match child.try_wait() {
                Ok(Some(st)) => break Some(st),
                Ok(None) => {
                    if t0.elapsed() > patience {
                        break None;
                    }
                    std::thread::sleep(Duration::from_millis(3));
                }
                Err(_) => break None,
            }
        }
    };
    let status = match exited {
        Some(st) => st,
        None => {
            kill(&mut child);
            return Ok(Outcome::Slow(slow.unwrap_or_else(|| "the bridge did not exit within 10 s after the client closed its side".into())));
        }
    };
    let _ = out.wait_eof(Duration::from_secs(5));
    let got = out.bytes();
    let stderr_text = std::fs::read_to_string(&stderr_file).unwrap_or_default();
    let _ = std::fs::remove_file(&stderr_file);
    let mut full = want.clone();
    full.extend_from_slice(&echo);
    let tag = format!("{:?}", s.mode).to_lowercase();
    if s.hangup_while_waiting {
        // everything before the last request had arrived; of the last reply nothing need arrive
        if !(got.starts_with(&full) || full.starts_with(&got)) || got.len() < full.len() {
            return Err(diff_fail(&tag, &got, &full, &stderr_text, Some("client hung up while the bridge waited for a further reply")));
        }
        if !status.success() {
            return Err(Fail::new(
                format!("bridge[{}]/exit-status-after-hangup", tag),
                format!("the client hung up while the bridge was waiting for a reply (nothing left to forward): bridge exited with {:?}; stderr: {}", status.code(), stderr_text.trim()),
            ));
        }
        return Ok(Outcome::Ok);
    }
    if s.close_early {
        if !full.starts_with(&got) {
            return Err(Fail::new(
                format!("bridge[{}]/output-not-a-prefix", tag),
                format!("client closed right after its last request; bridge wrote {} bytes that are not a prefix of the direct reply stream", got.len()),
            ));
        }
    } else {
        if let Some(m) = slow {
            // it exited by itself but something was missing: compare to say what
            if got != full {
                return Err(diff_fail(&tag, &got, &full, &stderr_text, Some(&m)));
            }
            // everything is there now, but it was not while the client kept its side open: the bridge
            // held bytes back until the session ended (judged by repetition)
            return Ok(Outcome::Slow(format!("{}; the missing bytes arrived only after the client had closed its side", m)));
        }
        if got != full {
            return Err(diff_fail(&tag, &got, &full, &stderr_text, None));
        }
    }
    if !status.success() {
        return Err(Fail::new(
            format!("bridge[{}]/exit-status", tag),
            format!("bridge exited with {:?} after a clean session; stderr: {}", status.code(), stderr_text.trim()),
        ));
    }
    Ok(Outcome::Ok)
}

fn diff_fail(tag: &str, got: &[u8], want: &[u8], stderr: &str, note: Option<&str>) -> Fail {
    let at = got.iter().zip(want.iter()).position(|(a, b)| a != b).unwrap_or(got.len().min(want.len()));
    let show = |b: &[u8]| String::from_utf8_lossy(&b[at.saturating_sub(40).min(b.len())..(at + 80).min(b.len())]).to_string();
    Fail::new(
        format!("bridge[{}]/output-differs", tag),
        format!(
            "bridge stdout ({} bytes) differs from the direct reply stream ({} bytes) at offset {}: bridge {:?} vs direct {:?}{}; stderr: {}",
            got.len(),
            want.len(),
            at,
            show(got),
            show(want),
            note.map(|n| format!(" ({})", n)).unwrap_or_default(),
            stderr.trim()
        ),
    )
}

/// expected stdout length after each request (for the one-at-a-time client)
fn cumulative_lengths(w: &World, s: &Session, reqs: &[Value]) -> Result<Vec<usize>, Fail> {
    let mut v = vec![];
    match s.mode {
        Mode::Resolver => {
            let mut total = 0;
            for r in reqs {
                let m = r["method"].as_str().unwrap_or("");
                let bytes = if m == "org.varlink.service.GetInfo" {
                    let mut r2 = r.clone();
                    r2["method"] = json!("org.varlink.resolver.GetInfo");
                    direct_one(&w.resolver, &r2)?
                } else if m == "org.varlink.service.GetInterfaceDescription" {
                    let target = r["parameters"]["interface"].as_str().unwrap_or("");
                    direct_one(w.owner(&format!("{}.X", target)).unwrap_or(&w.s1), r)?
                } else {
                    direct_one(w.owner(m).unwrap_or(&w.s1), r)?
                };
                total += bytes.len();
                v.push(total);
            }
        }
        _ => {
            let mut total = 0;
            for r in reqs {
                total += direct_one(&w.s1, r)?.len();
                v.push(total);
            }
        }
    }
    Ok(v)
}

fn resolver_alphabet() -> Vec<Sym> {
    // Big(1..4): messages of 8 KiB-1 / 8 KiB / 8 KiB+1 / 24 KiB (the bridge copies through 8 KiB buffers)
    let kinds = [Kind::GetInfo, Kind::DescKnown, Kind::Echo, Kind::EchoVariant, Kind::Fail, Kind::Stream0, Kind::Stream2, Kind::UnknownMethodGen, Kind::NoParams, Kind::Big(1), Kind::Big(2), Kind::Big(3), Kind::Big(4)];
    let mut v = vec![];
    for k in kinds {
        for f in FLAGS {
            v.push(Sym { kind: k, flag: f });
        }
    }
    v
}

fn connect_alphabet() -> Vec<Sym> {
    let mut v = resolver_alphabet();
    for k in [Kind::DescBuiltin, Kind::DescUnknown, Kind::DescNoParams, Kind::UnknownIface, Kind::UnknownMethodBuiltin, Kind::NoDot] {
        for f in FLAGS {
            v.push(Sym { kind: k, flag: f });
        }
    }
    v
}

fn session_strategy() -> impl Strategy<Value = Session> {
    let ra = resolver_alphabet();
    let ca = connect_alphabet();
    (
        prop::sample::select(vec![Mode::Resolver, Mode::Resolver, Mode::Connect, Mode::Activate, Mode::InnerBridge]),
        prop::collection::vec((0..ra.len(), 0..ca.len()), 0..8),
        any::<bool>(),
        prop::option::weighted(0.3, (prop::collection::vec(any::<u8>(), 0..300), 0u8..4).prop_map(|(mut p, big)| {
            if big == 1 {
                // one text line, then a long run without any line break (a line-buffered writer takes
                // the line and may leave the rest to the caller)
                let mut q = b"a line of text\n".to_vec();
                q.extend(std::iter::repeat(b'y').take(1500 + 10 * p.len()));
                q.extend_from_slice(&p);
                p = q;
            }
            if big == 0 {
                // more than the 8 KiB copy buffer
                let base = p.clone();
                while p.len() < 20_000 {
                    p.extend_from_slice(&base);
                    p.push(b'x');
                }
            }
            p
        })),
        prop::bool::weighted(0.2),
        prop::bool::weighted(0.15),
        prop::bool::weighted(0.3),
        prop::bool::weighted(0.5),
        prop::bool::weighted(0.12),
        prop::bool::weighted(0.35),
    )
        .prop_map(move |(mode, ix, pipelined, upgrade, payload_pipelined, close_early, spaced, slow_tail, hangup, greet)| {
            let mut syms: Vec<Sym> = ix.iter().map(|(a, b)| if mode == Mode::Resolver { ra[*a] } else { ca[*b] }).collect();
            if matches!(mode, Mode::Activate | Mode::InnerBridge) {
                // another service instance lists its interfaces in another order: GetInfo bytes
                // are not comparable with the reference instance
                for x in syms.iter_mut() {
                    if x.kind == Kind::GetInfo {
                        x.kind = Kind::DescKnown;
                    }
                }
            }
            // the activated / inner-bridge targets are separate (compact) instances
            let spaced = spaced && matches!(mode, Mode::Resolver | Mode::Connect);
            let slow_tail = slow_tail && close_early;
            let hangup_while_waiting = hangup && !close_early;
            let upgrade = if hangup_while_waiting { None } else { upgrade };
            // the service speaks first after the upgrade: resolver mode, through the raw greeter service
            // (under listen() the T-service's upgraded handler only runs once the client has sent something)
            let greet = greet && upgrade.is_some() && mode == Mode::Resolver;
            let greet_one_write = greet;
            let greet_late = greet_one_write && ix.len() % 4 == 0;
            let mut s = Session { mode, syms, pipelined, upgrade, payload_pipelined, close_early, spaced, slow_tail, hangup_while_waiting, greet, greet_one_write, greet_late };
            if s.syms.is_empty() && s.upgrade.is_none() {
                s.syms.push(Sym { kind: Kind::Echo, flag: Flag::None });
            }
            if s.close_early {
                s.upgrade = None;
            }
            if s.upgrade.is_none() {
                s.payload_pipelined = false;
            }
            s
        })
}

/// The client closes its sending side while the service is busy with a call that takes `busy_ms`: in the
/// modes that copy bytes between the two sides the bridge stops at once (it has forwarded all it received);
/// it does not wait for the service to close by itself. Returns the time the bridge took to exit.
fn stop_time_after_client_close(w: &World, mode: Mode, busy_ms: u64) -> Result<Option<(Duration, Option<i32>)>, Fail> {
    static SEQ: std::sync::atomic::AtomicU64 = std::sync::atomic::AtomicU64::new(0);
    let stderr_file = w._scratch.path.join(format!("bridge-stop-{}.stderr", SEQ.fetch_add(1, std::sync::atomic::Ordering::SeqCst)));
    let mut child = spawn_bridge(w, mode, &stderr_file)?;
    let mut stdin = child.stdin.take().unwrap();
    let out = Out::new(child.stdout.take().unwrap());
    // one answered call first, so that the session is established end to end
    let first = json!({"method": "org.verif.test.Echo", "parameters": {"token": "stop-probe", "n": 1}});
    let _ = stdin.write_all(&encode(&first, Style::Compact));
    let _ = stdin.flush();
    if !out.wait_len(10, Duration::from_secs(10)) {
        unsafe {
            libc::kill(-(child.id() as i32), libc::SIGKILL);
        }
        let _ = child.kill();
        let _ = child.wait();
        let _ = std::fs::remove_file(&stderr_file);
        return Ok(None);
    }
    let _ = stdin.write_all(&encode(&slow_request(busy_ms), Style::Compact));
    let _ = stdin.flush();
    std::thread::sleep(Duration::from_millis(150));
    drop(stdin);
    let t0 = Instant::now();
    let res = loop {
        match child.try_wait() {
            Ok(Some(st)) => break Some((t0.elapsed(), st.code())),
            Ok(None) if t0.elapsed() > Duration::from_secs(10) => break None,
            Ok(None) => std::thread::sleep(Duration::from_millis(3)),
            Err(_) => break None,
        }
    };
    if res.is_none() {
        unsafe {
            libc::kill(-(child.id() as i32), libc::SIGKILL);
        }
        let _ = child.kill();
        let _ = child.wait();
    }
    let _ = std::fs::remove_file(&stderr_file);
    Ok(Some(res.unwrap_or((Duration::from_secs(10), None))))
}

/// Judged by repetition: the service is busy for 4 s; a bridge that needs more than 2.5 s to stop, twice in
/// a row, waits for the service instead of stopping.
fn stops_when_client_closes(ctx: &mut Ctx, w: &World) {
    for mode in [Mode::Connect, Mode::Activate, Mode::InnerBridge] {
        let tag = format!("{:?}", mode).to_lowercase();
        ctx.case(Some(hash64(&("stop-when-client-closes", &tag))));
        ctx.class("client-closes-while-the-service-is-busy-for-4s");
        let mut late = vec![];
        for _ in 0..2 {
            match stop_time_after_client_close(w, mode, 4000) {
                Err(f) => {
                    ctx.violation(&f.key, &f.what, "c18-stop", json!({"stop_probe": tag}));
                    return;
                }
                Ok(None) => {
                    ctx.inconclusive(&format!("bridge[{}]: the first call of the stop probe was not answered within 10 s", tag));
                    break;
                }
                Ok(Some((t, code))) => {
                    if t > Duration::from_millis(2500) {
                        late.push(t.as_millis());
                        continue;
                    }
                    if code != Some(0) {
                        ctx.violation(
                            &format!("bridge[{}]/exit-status", tag),
                            &format!("the client closed its side while the service was busy: the bridge exited with {:?}", code),
                            "c18-stop",
                            json!({"stop_probe": tag}),
                        );
                        return;
                    }
                    break;
                }
            }
        }
        if late.len() == 2 {
            ctx.violation(
                &format!("bridge[{}]/does-not-stop-when-client-closes", tag),
                &format!("the client closed its sending side while the service was busy with a 4 s call: the bridge took {:?} ms to exit (twice) - it waits for the service instead of stopping", late),
                "c18-stop",
                json!({"stop_probe": tag}),
            );
            return;
        }
    }
}

fn nontrivial(s: &Session) -> bool {
    let targets: std::collections::BTreeSet<bool> = s.syms.iter().map(|x| x.kind == Kind::EchoVariant).collect();
    (s.mode == Mode::Resolver && targets.len() == 2) || s.upgrade.is_some() || s.syms.iter().any(|x| x.flag == Flag::More && x.kind == Kind::Stream2)
}

/// run with the "slow twice" rule
fn judge(w: &World, s: &Session) -> Result<Option<String>, Fail> {
    match run_session(w, s)? {
        Outcome::Ok => Ok(None),
        Outcome::Slow(m1) => match run_session(w, s)? {
            Outcome::Ok => Ok(Some(m1)),
            Outcome::Slow(m2) => Err(Fail::new(
                format!("bridge[{}]/stuck", format!("{:?}", s.mode).to_lowercase()),
                format!("twice in a row: {}; {}", m1, m2),
            )),
        },
    }
}

fn replay(ctx: &mut Ctx, v: &Value) {
    if v["case"].get("stop_probe").is_some() {
        ctx.case(None);
        let Some(w) = World::start(false) else {
            ctx.inconclusive("cannot start the helper services");
            return;
        };
        stops_when_client_closes(ctx, &w);
        return;
    }
    let s = sess_from(&v["case"]);
    ctx.case(None);
    ctx.force_sample(v["case"].clone());
    let Some(w) = World::start(s.spaced) else {
        ctx.inconclusive("cannot start the helper services");
        return;
    };
    NOFILE_LIMIT.store(v["case"]["nofile_limit"].as_u64().unwrap_or(0), std::sync::atomic::Ordering::SeqCst);
    if let Err(f) = judge(&w, &s) {
        ctx.violation(&f.key, &f.what, "c18-replay", v["case"].clone());
    }
}

pub fn run(args: &Args) -> ! {
    let mut ctx = Ctx::new(args, "exploration");
    ctx.rule = RULE.into();
    ctx.assumptions = vec![
        "resolver mode uses request kinds whose interface the resolver knows (the statement does not say what the bridge does after a failed lookup) and after which a service keeps its connection open".into(),
        "a bridge that does not deliver or does not exit within 10 s, twice in a row for the same session, is reported as stuck".into(),
        "helper services (vl-svc listen / activated / stdio / resolver) are part of the harness".into(),
    ];
    if let Some(p) = &args.replay {
        let v = load_replay(p);
        replay(&mut ctx, &v);
        ctx.finish();
    }
    if repo_bin("varlink").is_none() {
        ctx.inconclusive("the varlink CLI binary is not built (VERIF_REPO_BIN)");
        ctx.finish();
    }
    let (Some(w), Some(ws)) = (World::start(false), World::start(true)) else {
        ctx.inconclusive("cannot start the helper services");
        ctx.finish();
    };
    // one fixed session per mode first (cheap smoke of every mode, plain + upgrade)
    let mut slow_once = 0;
    for (mode, spaced) in [(Mode::Resolver, false), (Mode::Connect, false), (Mode::Activate, false), (Mode::InnerBridge, false), (Mode::Resolver, true), (Mode::Connect, true)] {
        for up in [None, Some(b"hello \0 upgraded world\n".to_vec())] {
            let s = Session {
                mode,
                syms: vec![Sym { kind: Kind::Echo, flag: Flag::None }, Sym { kind: Kind::EchoVariant, flag: Flag::None }, Sym { kind: Kind::Stream2, flag: Flag::More }, Sym { kind: Kind::Echo, flag: Flag::Oneway }, Sym { kind: Kind::Big(4), flag: Flag::None }, Sym { kind: if matches!(mode, Mode::Activate | Mode::InnerBridge) { Kind::DescKnown } else { Kind::GetInfo }, flag: Flag::None }],
                pipelined: false,
                upgrade: up,
                payload_pipelined: false,
                close_early: false,
                spaced,
                slow_tail: false,
                hangup_while_waiting: false,
                greet: false,
                greet_one_write: false,
                greet_late: false,
            };
            ctx.case(Some(hash64(&sess_json(&s).to_string())));
            ctx.class(&format!("fixed:{:?}{}", mode, if spaced { "(spaced-JSON service)" } else { "" }));
            ctx.force_sample(sess_json(&s));
            match pt::guard(|| judge(if spaced { &ws } else { &w }, &s)) {
                Ok(None) => {}
                Ok(Some(_)) => slow_once += 1,
                Err(f) => {
                    ctx.violation(&f.key, &f.what, "c18", sess_json(&s));
                }
            }
        }
    }
    // the service speaks first after the upgrade (raw greeter service, resolver mode): in the same write
    // as its reply, and 300 ms later while the client is silent
    for (late, pipelined) in [(false, false), (true, false), (false, true), (true, true)] {
        let s = Session {
            mode: Mode::Resolver,
            syms: vec![Sym { kind: Kind::Echo, flag: Flag::None }, Sym { kind: Kind::EchoVariant, flag: Flag::None }],
            pipelined,
            upgrade: Some([&b"client payload after the greeting\n\0tail"[..], &vec![b'z'; 2500][..]].concat()),
            payload_pipelined: false,
            close_early: false,
            spaced: false,
            slow_tail: false,
            hangup_while_waiting: false,
            greet: true,
            greet_one_write: true,
            greet_late: late,
        };
        ctx.case(Some(hash64(&sess_json(&s).to_string())));
        ctx.class("fixed:Resolver(service speaks first after the upgrade)");
        ctx.force_sample(sess_json(&s));
        match pt::guard(|| judge(&w, &s)) {
            Ok(None) => {}
            Ok(Some(_)) => slow_once += 1,
            Err(f) => {
                ctx.violation(&f.key, &f.what, "c18", sess_json(&s));
            }
        }
    }
    let cases = ctx.tier.pick(400, 6_000);
    let slow = std::cell::Cell::new(slow_once);
    let r = pt::check_with(&mut ctx, "c18", cases, 12, 90_000, session_strategy(), |ctx, s| {
        ctx.case(if nontrivial(s) { Some(hash64(&sess_json(s).to_string())) } else { None });
        ctx.class(&format!("mode:{:?}", s.mode));
        if s.upgrade.is_some() {
            ctx.class("with-upgrade");
        }
        if s.close_early {
            ctx.class("close-right-after-last-request");
        }
        if s.spaced {
            ctx.class("service-writes-spaced-JSON");
        }
        if s.slow_tail {
            ctx.class("close-while-the-bridge-waits-for-a-reply");
        }
        if s.hangup_while_waiting {
            ctx.class("full-hang-up-while-the-bridge-waits-for-a-reply");
        }
        if s.greet {
            ctx.class("service-speaks-first-after-upgrade");
        }
        if s.greet_one_write {
            ctx.class(if s.greet_late { "greeting-300ms-after-the-upgrade-reply(client silent)" } else { "greeting-in-one-write-with-the-upgrade-reply" });
        }
        ctx.sample(|| sess_json(s));
        let t0 = Instant::now();
        let r = judge(if s.spaced { &ws } else { &w }, s);
        if std::env::var_os("VL_TIMING").is_some() {
            eprintln!("{:?} {} ms {}", s.mode, t0.elapsed().as_millis(), sess_json(s));
        }
        if r?.is_some() {
            slow.set(slow.get() + 1);
        }
        Ok(())
    });
    if let Some((s, f)) = r {
        ctx.violation(&f.key, &f.what, "c18", sess_json(&s));
    }
    if !ctx.failed() {
        stops_when_client_closes(&mut ctx, &w);
    }
    if !ctx.failed() {
        // the service closes right behind its last reply (a call with ill-typed parameters, a stream the
        // library refuses): in the copying modes the client still gets every reply, and the bridge exits 0
        'closing: for mode in [Mode::Connect, Mode::Activate, Mode::InnerBridge] {
            for last in [Kind::BadType, Kind::BadMissing, Kind::NaiveStream] {
                for pipelined in [true, false] {
                    for lead in [0usize, 2] {
                        let mut syms: Vec<Sym> = [Sym { kind: Kind::Echo, flag: Flag::None }, Sym { kind: Kind::Stream2, flag: Flag::More }][..lead].to_vec();
                        syms.push(Sym { kind: last, flag: Flag::None });
                        let s = Session { mode, syms, pipelined, upgrade: None, payload_pipelined: false, close_early: false, spaced: false, slow_tail: false, hangup_while_waiting: false, greet: false, greet_one_write: false, greet_late: false };
                        ctx.case(Some(hash64(&sess_json(&s).to_string())));
                        ctx.class("service-closes-right-behind-its-last-reply");
                        // several times: whether the reply and the hang-up reach the bridge in one wake-up is a race
                        for _ in 0..ctx.tier.pick(3, 12) {
                            match judge(&w, &s) {
                                Ok(Some(_)) => slow.set(slow.get() + 1),
                                Ok(None) => {}
                                Err(f) => {
                                    ctx.violation(&f.key, &f.what, "c18", sess_json(&s));
                                    break 'closing;
                                }
                            }
                        }
                    }
                }
            }
        }
    }
    if !ctx.failed() {
        // long sessions in resolver mode (a connection per call): 400 calls, most of them oneway, through a
        // bridge process that may hold 128 descriptors
        for flag in [Flag::Oneway, Flag::None] {
            let mut syms: Vec<Sym> = (0..400).map(|i| Sym { kind: if i % 7 == 3 { Kind::EchoVariant } else { Kind::Echo }, flag: if i % 5 == 4 { Flag::None } else { flag } }).collect();
            syms.push(Sym { kind: Kind::Echo, flag: Flag::None });
            let s = Session { mode: Mode::Resolver, syms, pipelined: true, upgrade: None, payload_pipelined: false, close_early: false, spaced: false, slow_tail: false, hangup_while_waiting: false, greet: false, greet_one_write: false, greet_late: false };
            ctx.case(Some(hash64(&("long-session", format!("{:?}", flag)))));
            ctx.class("resolver-mode:401-calls-under-a-128-descriptor-limit");
            NOFILE_LIMIT.store(128, std::sync::atomic::Ordering::SeqCst);
            let r = judge(&w, &s);
            NOFILE_LIMIT.store(0, std::sync::atomic::Ordering::SeqCst);
            match r {
                Ok(Some(_)) => slow.set(slow.get() + 1),
                Ok(None) => {}
                Err(f) => {
                    let mut j = sess_json(&s);
                    j["nofile_limit"] = json!(128);
                    ctx.violation(&f.key, &f.what, "c18", j);
                    break;
                }
            }
        }
    }
    ctx.section("slow_once_not_repeated", json!(slow.get()));
    drop(w);
    drop(ws);
    ctx.exhaustive = Some(false);
    ctx.finish()
}
