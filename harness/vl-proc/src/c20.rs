//! C20 — `varlink call` reports exactly what the service replied.

use proptest::prelude::*;
use serde_json::{json, Map, Value};
use std::io::{Read, Write};
use std::net::TcpListener;
use std::os::unix::net::UnixListener;
use std::time::{Duration, Instant};
use vl_model::ctx::{hash64, load_replay, Args, Ctx};
use vl_model::jsongen::{json_string, stable_json};
use vl_model::pt::{self, Fail};
use vl_model::sock::Scratch;

use crate::spawn::repo_bin;

pub const RULE: &str = "invocations of the built `varlink call` against a scripted fake service (raw sockets in the \
harness): reply scripts = {one success reply; with --more k in 0..8 `continues` replies then a final one; an error \
reply (the four standard errors with well-typed / missing / ill-typed parameter, custom names with arbitrary or no \
parameters), possibly after continues replies; connection closed before the final reply} x generated reply values \
(nested objects, arrays, non-ASCII and escape-heavy strings, i64/u64 boundary integers, floats, empty objects, \
absent / null parameters) x address forms {unix path with several slashes, unix:@abstract, tcp:127.0.0.1:port} x \
--color on/off x JSON arguments on the command line. Oracle: stdout, parsed as a stream of JSON documents (escape \
sequences stripped when coloured), equals the parameters of the successful replies in order; exit status 0 iff \
every expected reply arrived and none was an error; on an error reply stderr names the error (short name for the \
standard ones) and shows its parameter / parameters; the fake service received exactly the method, the `more` flag \
and the arguments given. Every other abstract name contains slashes and dots, every other tcp address names the host. Non-trivial: --more with k >= 1, an error reply, a closed connection, or a nested reply \
value; distinct by (script, values, address form, color). One reply script in three is written by the scripted service in about 37 pieces with pauses (chunk boundaries anywhere, also inside a multi-byte character); large values are ASCII or runs of three-byte characters.";

#[derive(Clone, Debug)]
pub enum Final {
    Ok(Option<Value>),
    Err(Option<String>, Option<Value>),
    Close,
}

#[derive(Clone, Debug)]
pub struct Case {
    pub more: bool,
    pub conts: Vec<Option<Value>>,
    pub fin: Final,
    pub addr_form: u8,
    pub color: bool,
    pub args: Option<Value>,
}

fn case_json(c: &Case) -> Value {
    json!({
        "more": c.more, "continues_params": c.conts, "final": match &c.fin {
            Final::Ok(p) => json!({"ok": p}),
            Final::Err(n, p) => json!({"error": n, "parameters": p, "has_parameters": p.is_some()}),
            Final::Close => json!("close"),
        },
        "address_form": c.addr_form, "color": c.color, "args": c.args, "has_args": c.args.is_some(),
    })
}

fn case_from(v: &Value) -> Case {
    let fin = if v["final"] == "close" {
        Final::Close
    } else if v["final"].get("ok").is_some() {
        Final::Ok(if v["final"]["ok"].is_null() { None } else { Some(v["final"]["ok"].clone()) })
    } else {
        Final::Err(v["final"]["error"].as_str().map(String::from), if v["final"]["has_parameters"] == json!(true) { Some(v["final"]["parameters"].clone()) } else { None })
    };
    Case {
        more: v["more"].as_bool().unwrap_or(false),
        conts: v["continues_params"].as_array().map(|a| a.iter().map(|x| if x.is_null() { None } else { Some(x.clone()) }).collect()).unwrap_or_default(),
        fin,
        addr_form: v["address_form"].as_u64().unwrap_or(0) as u8,
        color: v["color"].as_bool().unwrap_or(false),
        args: if v["has_args"] == json!(true) { Some(v["args"].clone()) } else { None },
    }
}

const STD: [(&str, &str, &str); 4] = [
    ("org.varlink.service.InterfaceNotFound", "InterfaceNotFound", "interface"),
    ("org.varlink.service.InvalidParameter", "InvalidParameter", "parameter"),
    ("org.varlink.service.MethodNotFound", "MethodNotFound", "method"),
    ("org.varlink.service.MethodNotImplemented", "MethodNotImplemented", "method"),
];

fn strip_ansi(s: &str) -> String {
    let cs: Vec<char> = s.chars().collect();
    let mut out = String::new();
    let mut i = 0;
    while i < cs.len() {
        if cs[i] == '\u{1b}' && cs.get(i + 1) == Some(&'[') {
            i += 2;
            while i < cs.len() && !cs[i].is_ascii_alphabetic() {
                i += 1;
            }
            i += 1;
        } else {
            out.push(cs[i]);
            i += 1;
        }
    }
    out
}

enum Listener {
    Unix(UnixListener),
    Tcp(TcpListener),
}

struct Served {
    request: Option<Value>,
    raw: Vec<u8>,
}

fn serve_one(l: Listener, script: Vec<u8>, close_after: bool, give_up: std::sync::Arc<std::sync::atomic::AtomicBool>) -> std::thread::JoinHandle<Served> {
    std::thread::spawn(move || {
        let deadline = Instant::now() + Duration::from_secs(15);
        let mut served = Served { request: None, raw: vec![] };
        // accept with a deadline
        let mut stream: Box<dyn RW> = loop {
            let r: std::io::Result<Box<dyn RW>> = match &l {
                Listener::Unix(u) => {
                    u.set_nonblocking(true).ok();
                    u.accept().map(|(s, _)| {
                        s.set_nonblocking(false).ok();
                        Box::new(s) as Box<dyn RW>
                    })
                }
                Listener::Tcp(t) => {
                    t.set_nonblocking(true).ok();
                    t.accept().map(|(s, _)| {
                        s.set_nonblocking(false).ok();
                        Box::new(s) as Box<dyn RW>
                    })
                }
            };
            match r {
                Ok(s) => break s,
                Err(_) => {
                    if Instant::now() > deadline || give_up.load(std::sync::atomic::Ordering::SeqCst) {
                        return served;
                    }
                    std::thread::sleep(Duration::from_millis(2));
                }
            }
        };
        stream.set_timeout(Duration::from_secs(10));
        let mut buf = [0u8; 4096];
        loop {
            match stream.read(&mut buf) {
                Ok(0) | Err(_) => break,
                Ok(n) => {
                    served.raw.extend_from_slice(&buf[..n]);
                    if served.raw.contains(&0) {
                        break;
                    }
                }
            }
        }
        if let Some(p) = served.raw.iter().position(|b| *b == 0) {
            served.request = serde_json::from_slice(&served.raw[..p]).ok();
        }
        // one script in three is written in about 37 pieces with pauses, so that the tool reads the replies
        // in several chunks whose boundaries fall anywhere - also inside a multi-byte character
        if vl_model::ctx::hash64(&script) % 3 == 0 && script.len() > 12 {
            let seg = (script.len() / 37).max(5);
            for piece in script.chunks(seg) {
                if stream.write_all(piece).is_err() {
                    break;
                }
                let _ = stream.flush();
                std::thread::sleep(Duration::from_micros(700));
            }
        } else {
            let _ = stream.write_all(&script);
        }
        if close_after {
            stream.close();
        } else {
            // keep the connection until the tool goes away
            loop {
                match stream.read(&mut buf) {
                    Ok(0) | Err(_) => break,
                    Ok(n) => served.raw.extend_from_slice(&buf[..n]),
                }
            }
        }
        served
    })
}

trait RW: Read + Write + Send {
    fn set_timeout(&mut self, d: Duration);
    fn close(&mut self);
}
impl RW for std::os::unix::net::UnixStream {
    fn set_timeout(&mut self, d: Duration) {
        let _ = self.set_read_timeout(Some(d));
    }
    fn close(&mut self) {
        let _ = self.shutdown(std::net::Shutdown::Both);
    }
}
impl RW for std::net::TcpStream {
    fn set_timeout(&mut self, d: Duration) {
        let _ = self.set_read_timeout(Some(d));
    }
    fn close(&mut self) {
        let _ = self.shutdown(std::net::Shutdown::Both);
    }
}

fn reply_obj(cont: bool, err: Option<&String>, params: Option<&Value>) -> Vec<u8> {
    reply_obj_spelled(cont, err, params, false)
}

/// `spell_false`: a final reply spells out `"continues": false` (legal; other implementations write it)
fn reply_obj_spelled(cont: bool, err: Option<&String>, params: Option<&Value>, spell_false: bool) -> Vec<u8> {
    let mut m = Map::new();
    if cont {
        m.insert("continues".into(), json!(true));
    } else if spell_false {
        m.insert("continues".into(), json!(false));
    }
    if let Some(e) = err {
        m.insert("error".into(), json!(e));
    }
    if let Some(p) = params {
        m.insert("parameters".into(), p.clone());
    }
    let mut b = serde_json::to_vec(&Value::Object(m)).unwrap();
    b.push(0);
    b
}

/// `localhost` is only used as a host name where this machine resolves it to 127.0.0.1.
fn localhost_resolves() -> bool {
    use std::net::ToSocketAddrs;
    static OK: std::sync::OnceLock<bool> = std::sync::OnceLock::new();
    *OK.get_or_init(|| ("localhost", 1u16).to_socket_addrs().map(|mut a| a.any(|x| x.ip() == std::net::Ipv4Addr::LOCALHOST)).unwrap_or(false))
}

pub fn run_case(c: &Case, dir: &std::path::Path, n: u64) -> Result<(), Fail> {
    let Some(exe) = repo_bin("varlink") else { return Err(Fail::new("HARNESS/no-varlink-binary", "VERIF_REPO_BIN/varlink missing".to_string())) };
    let method = "org.example.fake.Method";
    let (listener, address) = match c.addr_form % 3 {
        0 => {
            let d = dir.join(format!("a{}", n)).join("b").join("c");
            std::fs::create_dir_all(&d).map_err(|e| Fail::new("HARNESS/io", e.to_string()))?;
            let p = d.join("s.sock");
            let l = UnixListener::bind(&p).map_err(|e| Fail::new("HARNESS/bind", e.to_string()))?;
            (Listener::Unix(l), format!("unix:{}", p.display()))
        }
        1 => {
            use std::os::linux::net::SocketAddrExt;
            // an abstract name is not a path: it may well contain slashes and dots
            let name = if n % 2 == 1 { format!("vl-c20-{}/{}/sub.dir/s", std::process::id(), n) } else { format!("vl-c20-{}-{}", std::process::id(), n) };
            let sa = std::os::unix::net::SocketAddr::from_abstract_name(&name).map_err(|e| Fail::new("HARNESS/bind", e.to_string()))?;
            let l = UnixListener::bind_addr(&sa).map_err(|e| Fail::new("HARNESS/bind", e.to_string()))?;
            (Listener::Unix(l), format!("unix:@{}", name))
        }
        _ => {
            let l = TcpListener::bind("127.0.0.1:0").map_err(|e| Fail::new("HARNESS/bind", e.to_string()))?;
            let port = l.local_addr().map(|a| a.port()).unwrap_or(0);
            // the library takes "hostname/IP address and port": every other call names the host
            (Listener::Tcp(l), if n % 2 == 1 && localhost_resolves() { format!("tcp:localhost:{}", port) } else { format!("tcp:127.0.0.1:{}", port) })
        }
    };
    // script
    let mut script = vec![];
    let conts: Vec<Option<Value>> = if c.more { c.conts.clone() } else { vec![] };
    for p in &conts {
        script.extend_from_slice(&reply_obj(true, None, p.as_ref()));
    }
    let mut close_after = false;
    match &c.fin {
        // every third case spells the final reply's `continues` member out
        Final::Ok(p) => script.extend_from_slice(&reply_obj_spelled(false, None, p.as_ref(), n % 3 == 2)),
        Final::Err(nm, p) => script.extend_from_slice(&reply_obj_spelled(false, nm.as_ref(), p.as_ref(), n % 3 == 2)),
        Final::Close => close_after = true,
    }
    let give_up = std::sync::Arc::new(std::sync::atomic::AtomicBool::new(false));
    let server = serve_one(listener, script, close_after, give_up.clone());
    let mut cmd = std::process::Command::new(&exe);
    cmd.args(["--color", if c.color { "on" } else { "off" }, "call"]);
    if c.more {
        cmd.arg("--more");
    }
    cmd.arg(format!("{}/{}", address, method));
    if let Some(a) = &c.args {
        cmd.arg(a.to_string());
    }
    cmd.stdin(std::process::Stdio::null()).stdout(std::process::Stdio::piped()).stderr(std::process::Stdio::piped());
    let child = cmd.spawn().map_err(|e| Fail::new("HARNESS/spawn", e.to_string()))?;
    let out = wait_output(child, Duration::from_secs(20));
    give_up.store(true, std::sync::atomic::Ordering::SeqCst); // the tool is gone: stop waiting for it to connect
    let out = out.ok_or_else(|| Fail::new("HARNESS/varlink-call-hung", format!("{:?}", c)))?;
    let served = server.join().map_err(|_| Fail::new("HARNESS/server-thread", "panicked".to_string()))?;
    let stdout_raw = String::from_utf8_lossy(&out.stdout).to_string();
    let stderr_raw = String::from_utf8_lossy(&out.stderr).to_string();
    let stdout = if c.color { strip_ansi(&stdout_raw) } else { stdout_raw.clone() };
    let stderr = if c.color { strip_ansi(&stderr_raw) } else { stderr_raw.clone() };

    // --- what the service saw
    let Some(req) = &served.request else {
        return Err(Fail::new("call/request-not-received", format!("the fake service received no complete request; stderr: {}", stderr)));
    };
    let want_params = c.args.clone().unwrap_or(Value::Null);
    let sent_params = req.get("parameters").cloned().unwrap_or(Value::Null);
    if req["method"] != method
        || sent_params != serde_json::from_str::<Value>(&want_params.to_string()).unwrap()
        || (req.get("more") == Some(&json!(true))) != c.more
        || req.get("oneway") == Some(&json!(true))
    {
        return Err(Fail::new(
            "call/wrong-request",
            format!("`varlink call{} {}/{} {}` sent {}", if c.more { " --more" } else { "" }, address, method, want_params, req),
        ));
    }
    // --- stdout
    let mut want_docs: Vec<Value> = conts.iter().map(|p| p.clone().filter(|x| !x.is_null()).unwrap_or(json!({}))).collect();
    let mut want_ok = true;
    match &c.fin {
        Final::Ok(p) => want_docs.push(p.clone().filter(|x| !x.is_null()).unwrap_or(json!({}))),
        Final::Err(None, p) => want_docs.push(p.clone().filter(|x| !x.is_null()).unwrap_or(json!({}))), // no error member: a success
        Final::Err(Some(_), _) | Final::Close => want_ok = false,
    }
    let want_docs: Vec<Value> = want_docs.iter().map(|d| serde_json::from_str(&d.to_string()).unwrap()).collect();
    let got_docs: Result<Vec<Value>, _> = serde_json::Deserializer::from_str(&stdout).into_iter::<Value>().collect();
    let got_docs = got_docs.map_err(|e| Fail::new("call/stdout-not-json", format!("stdout is not a stream of JSON documents ({}): {:?}", e, stdout)))?;
    if got_docs != want_docs {
        return Err(Fail::new(
            if got_docs.len() != want_docs.len() { "call/stdout-reply-count" } else { "call/stdout-value-differs" },
            format!("stdout carries {} but the service replied {}", Value::Array(got_docs), Value::Array(want_docs)),
        ));
    }
    // --- exit status
    let ok = out.status.success();
    if ok != want_ok {
        return Err(Fail::new(
            if ok { "call/exit-zero-on-failure" } else { "call/exit-nonzero-on-success" },
            format!("exit status {:?}, expected {}; stderr: {}", out.status.code(), if want_ok { "0" } else { "non-zero" }, stderr),
        ));
    }
    // --- stderr on error replies
    if let Final::Err(Some(name), params) = &c.fin {
        if let Some((_, short, field)) = STD.iter().find(|s| s.0 == name) {
            if !stderr.contains(short) {
                return Err(Fail::new("call/stderr-lacks-error-name", format!("error {} but stderr is {:?}", name, stderr)));
            }
            if let Some(Value::String(s)) = params.as_ref().and_then(|p| p.get(*field)) {
                if !stderr.contains(s.as_str()) {
                    return Err(Fail::new("call/stderr-lacks-error-parameter", format!("error {}({:?}) but stderr is {:?}", name, s, stderr)));
                }
            }
        } else {
            if !stderr.contains(name.as_str()) {
                return Err(Fail::new("call/stderr-lacks-error-name", format!("error {} but stderr is {:?}", name, stderr)));
            }
            if let Some(p) = params.as_ref().filter(|p| !p.is_null()) {
                // the parameters are printed as (pretty) JSON after the first line
                let rest = stderr.split_once('\n').map(|x| x.1).unwrap_or("");
                let parsed: Option<Value> = serde_json::Deserializer::from_str(rest).into_iter::<Value>().next().and_then(|r| r.ok());
                let want: Value = serde_json::from_str(&p.to_string()).unwrap();
                if parsed.as_ref() != Some(&want) {
                    return Err(Fail::new(
                        "call/stderr-lacks-error-parameters",
                        format!("error {} with parameters {} but stderr is {:?}", name, want, stderr),
                    ));
                }
            }
        }
    }
    Ok(())
}

fn wait_output(mut child: std::process::Child, limit: Duration) -> Option<std::process::Output> {
    let start = Instant::now();
    // read the pipes on threads so a chatty child cannot block
    let mut so = child.stdout.take()?;
    let mut se = child.stderr.take()?;
    let h1 = std::thread::spawn(move || {
        let mut v = vec![];
        let _ = so.read_to_end(&mut v);
        v
    });
    let h2 = std::thread::spawn(move || {
        let mut v = vec![];
        let _ = se.read_to_end(&mut v);
        v
    });
    loop {
        match child.try_wait() {
            Ok(Some(status)) => {
                return Some(std::process::Output { status, stdout: h1.join().unwrap_or_default(), stderr: h2.join().unwrap_or_default() });
            }
            Ok(None) => {
                if start.elapsed() > limit {
                    let _ = child.kill();
                    let _ = child.wait();
                    return None;
                }
                std::thread::sleep(Duration::from_millis(2));
            }
            Err(_) => return None,
        }
    }
}

fn case_strategy() -> impl Strategy<Value = Case> {
    let params = || prop_oneof![
        1 => Just(None),
        1 => Just(Some(Value::Null)),
        1 => Just(Some(json!({}))),
        5 => stable_json(3).prop_map(|v| Some(if v.is_object() { v } else { json!({"v": v}) })),
        2 => stable_json(2).prop_map(Some),
    ];
    let fin = prop_oneof![
        5 => params().prop_map(Final::Ok),
        2 => (0..4usize, 0u8..4, json_string()).prop_map(|(i, m, s)| {
            let field = STD[i].2;
            Final::Err(Some(STD[i].0.to_string()), match m {
                0 => Some(json!({field: s})),
                1 => None,
                2 => Some(json!({})),
                _ => Some(json!({field: 5})),
            })
        }),
        2 => ("[a-z]{1,5}\\.[a-z]{1,5}\\.[A-Z][a-zA-Z]{0,6}", params()).prop_map(|(n, p)| Final::Err(Some(n), p)),
        // an interface's own error that shares a standard error's last element
        1 => (prop::sample::select(vec!["com.example.store.InvalidParameter", "org.varlink.resolver.InterfaceNotFound", "a.b.MethodNotFound", "io.x.y.MethodNotImplemented"]), params())
            .prop_map(|(n, p)| Final::Err(Some(n.to_string()), p)),
        1 => Just(Final::Close),
    ];
    (any::<bool>(), prop::collection::vec(params(), 0..=8), fin, 0u8..3, any::<bool>(), prop_oneof![1 => Just(None), 3 => stable_json(2).prop_map(|v| Some(if v.is_object() { v } else { json!({"a": v}) }))])
        .prop_map(|(more, conts, fin, addr_form, color, args)| Case { more, conts: if more { conts } else { vec![] }, fin, addr_form, color, args })
}

fn nontrivial(c: &Case) -> bool {
    (c.more && !c.conts.is_empty())
        || !matches!(c.fin, Final::Ok(_))
        || matches!(&c.fin, Final::Ok(Some(v)) if v.as_object().map(|o| o.values().any(|x| x.is_object() || x.is_array())).unwrap_or(false))
}

fn replay(ctx: &mut Ctx, v: &Value) {
    let c = case_from(&v["case"]);
    ctx.case(None);
    ctx.force_sample(v["case"].clone());
    let scratch = Scratch::new("c20r");
    if let Err(f) = run_case(&c, &scratch.path, 0) {
        ctx.violation(&f.key, &f.what, "c20-replay", v["case"].clone());
    }
}

pub fn run(args: &Args) -> ! {
    let mut ctx = Ctx::new(args, "exploration");
    ctx.rule = RULE.into();
    ctx.assumptions = vec![
        "reply values are drawn from what serde_json carries losslessly through its own text form (i64/u64/floats that survive its round trip)".into(),
        "for a standard error only its short name and its parameter string are required on stderr".into(),
    ];
    if let Some(p) = &args.replay {
        let v = load_replay(p);
        replay(&mut ctx, &v);
        ctx.finish();
    }
    if repo_bin("varlink").is_none() {
        ctx.inconclusive("the varlink CLI binary is not built (VERIF_REPO_BIN)");
        ctx.finish();
    }
    let scratch = Scratch::new("c20");
    let counter = std::cell::Cell::new(0u64);
    // systematic sweep: k = 0..8 x final kinds x address forms x color
    for k in 0..=8usize {
        for (fi, fin) in [Final::Ok(Some(json!({"i": k}))), Final::Err(Some("org.example.fake.Oops".into()), Some(json!({"why": "x"}))), Final::Err(Some(STD[1].0.to_string()), Some(json!({"parameter": "p"}))), Final::Err(Some("com.example.store.InvalidParameter".into()), Some(json!({"parameter": "size", "limit": 5}))), Final::Close].into_iter().enumerate() {
            let c = Case { more: true, conts: (0..k).map(|i| Some(json!({"i": i}))).collect(), fin, addr_form: (k + fi) as u8 % 3, color: (k + fi) % 2 == 0, args: Some(json!({"k": k})) };
            counter.set(counter.get() + 1);
            ctx.case(if nontrivial(&c) { Some(hash64(&case_json(&c).to_string())) } else { None });
            ctx.class("sweep:k x final-kind");
            if let Err(f) = pt::guard(|| run_case(&c, &scratch.path, counter.get())) {
                ctx.violation(&f.key, &f.what, "c20", case_json(&c));
            }
        }
    }
    // large reply values: below, at and above 64 KiB and 1 MiB, as the only reply and inside a stream
    for size in [9_000usize, 20_000, 65_000, 65_536, 70_000, 71_000, 300_000, 301_001, 1_100_000] {
        for more in [false, true] {
            // every other size: three-byte characters behind a lead of 0..2 bytes, so that the 8 KiB read
            // boundaries of the tool fall inside a character whatever the offset of the value in the message
            let blob = if (size / 1000) % 2 == 0 { "b".repeat(size) } else { format!("{}{}", "x".repeat(size % 3), "\u{20ac}".repeat(size / 3)) };
            let c = Case {
                more,
                conts: if more { vec![Some(json!({"blob": blob, "i": 0})), Some(json!({"i": 1}))] } else { vec![] },
                fin: Final::Ok(Some(json!({"blob": blob, "nested": {"list": [1, 2, 3]}}))),
                addr_form: (size % 3) as u8,
                color: size % 2 == 0,
                args: Some(json!({"size": size})),
            };
            counter.set(counter.get() + 1);
            ctx.case(Some(hash64(&("large", size, more))));
            ctx.class("large-reply-values");
            if let Err(f) = pt::guard(|| run_case(&c, &scratch.path, counter.get())) {
                ctx.violation(&f.key, &f.what, "c20", json!({"large_reply_bytes": size, "more": more}));
            }
        }
    }
    let cases = ctx.tier.pick(1_500, 20_000);
    let r = pt::check_with(&mut ctx, "c20", cases, 150, 120_000, case_strategy(), |ctx, c| {
        counter.set(counter.get() + 1);
        ctx.case(if nontrivial(c) { Some(hash64(&case_json(c).to_string())) } else { None });
        ctx.class(match &c.fin {
            Final::Ok(_) => "final:success",
            Final::Err(Some(n), _) if n.starts_with("org.varlink.service.") => "final:standard-error",
            Final::Err(..) => "final:custom-error",
            Final::Close => "final:connection-closed",
        });
        ctx.class(["address:unix-path-with-slashes", "address:unix-abstract(every other name with slashes)", "address:tcp(every other one by host name)"][(c.addr_form % 3) as usize]);
        ctx.sample(|| case_json(c));
        run_case(c, &scratch.path, counter.get())
    });
    if let Some((c, f)) = r {
        ctx.violation(&f.key, &f.what, "c20", case_json(&c));
    }
    ctx.exhaustive = Some(false);
    ctx.finish()
}
