//! Process-level checks of the binaries built from /repo (C18-C20).
use vl_model::ctx::parse_args;

mod c18;
mod c19;
mod c20;
mod raw;
mod spawn;

fn main() {
    let args = parse_args();
    std::panic::set_hook(Box::new(|_| {}));
    vl_model::pt::set_code_under_test_in_process(false);
    match args.id.as_str() {
        "C18" => c18::run(&args),
        "C19" => c19::run(&args),
        "C20" => c20::run(&args),
        other => {
            eprintln!("vl-proc: unknown property {}", other);
            std::process::exit(2)
        }
    }
}
