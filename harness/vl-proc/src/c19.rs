//! C19 — the certification service never lets a deviating step pass.

use proptest::prelude::*;
use serde_json::{json, Map, Value};
use std::time::Duration;
use vl_model::ctx::{hash64, load_replay, Args, Ctx};
use vl_model::pt::{self, Fail};
use vl_model::sock::Scratch;

use crate::raw::{CallEnd, Raw};
use crate::spawn::Proc;

pub const RULE: &str = "for every step Start, Test01..Test11, End: the canonical prefix is run on a fresh raw \
connection to the built varlink-certification process (parameters of each step are taken from the previous \
reply, as the interface prescribes), then ONE deviating request is sent in place of the step: every leaf of the \
canonical parameters changed to another value of its type / removed / retyped to every other JSON type, members \
added, `parameters` removed, every flag combination of {more, oneway, upgrade} other than the canonical one, the \
canonical request of every other step (wrong position), an unknown and another client's id. Encodings that are \
semantically equal are not deviations and are excluded (1 for 1.0, null for an absent optional, any value for a \
string-set element). Then random double deviations, and 1..16 concurrent canonical clients with tape-driven \
interleaving of their steps, all of which must finish with all_ok. Oracle: the reply to the deviating request \
(delimited by a following GetInfo probe) is an error reply, nothing (oneway) or a closed connection - never a \
reply without `error`. Also: every test step sent again after End, five respellings of the client's own id, and a duplicate-step race (one id, one step, six connections at the same instant: exactly one success reply). Non-trivial: a deviation at a step >= Test01 that keeps the request well-typed; distinct \
by (step, deviation).";

const T: Duration = Duration::from_secs(10);
pub const STEPS: [&str; 13] = ["Start", "Test01", "Test02", "Test03", "Test04", "Test05", "Test06", "Test07", "Test08", "Test09", "Test10", "Test11", "End"];

fn method(step: &str) -> String {
    format!("org.varlink.certification.{}", step)
}

/// canonical flags of a step
fn canon_flags(step: &str) -> (bool, bool, bool) {
    match step {
        "Test10" => (true, false, false),
        "Test11" => (false, true, false),
        _ => (false, false, false),
    }
}

fn mk_request(step: &str, params: Option<Value>, flags: (bool, bool, bool)) -> Value {
    let mut m = Map::new();
    m.insert("method".into(), json!(method(step)));
    if let Some(p) = params {
        m.insert("parameters".into(), p);
    }
    if flags.0 {
        m.insert("more".into(), json!(true));
    }
    if flags.1 {
        m.insert("oneway".into(), json!(true));
    }
    if flags.2 {
        m.insert("upgrade".into(), json!(true));
    }
    Value::Object(m)
}

/// State of one canonical client: what the next step's parameters are.
pub struct Client {
    pub raw: Raw,
    pub client_id: String,
    pub next: usize,
    /// parameters (without client_id) for the next step, from the previous reply
    pub carry: Value,
    pub more_replies: Vec<String>,
}

#[derive(Debug)]
pub enum StepErr {
    Stalled,
    Fail(Fail),
}

impl Client {
    pub fn connect(addr: &str) -> Result<Client, StepErr> {
        let raw = Raw::connect(addr).map_err(|e| StepErr::Fail(Fail::new("HARNESS/connect", e.to_string())))?;
        Ok(Client { raw, client_id: String::new(), next: 0, carry: json!({}), more_replies: vec![] })
    }

    pub fn canonical_params(&self) -> Value {
        let step = STEPS[self.next];
        if step == "Start" {
            return json!({});
        }
        let mut p = self.carry.as_object().cloned().unwrap_or_default();
        if step == "Test11" {
            p = Map::new();
            p.insert("last_more_replies".into(), json!(self.more_replies));
        }
        if step == "End" {
            p = Map::new();
        }
        p.insert("client_id".into(), json!(self.client_id));
        Value::Object(p)
    }

    /// Run the next canonical step; it must succeed.
    pub fn advance(&mut self) -> Result<(), StepErr> {
        let step = STEPS[self.next];
        let req = mk_request(step, Some(self.canonical_params()), canon_flags(step));
        if step == "Test11" {
            self.raw.send(&req);
            self.next += 1;
            return Ok(());
        }
        match self.raw.call(&req, T) {
            CallEnd::Replies(rs) => {
                let last = rs.last().cloned().unwrap_or(Value::Null);
                if rs.iter().any(|r| r.get("error").map(|e| !e.is_null()).unwrap_or(false)) {
                    return Err(StepErr::Fail(Fail::new(
                        format!("cert/canonical-step-rejected/{}", step),
                        format!("canonical {} was answered with {}", step, last),
                    )));
                }
                if step == "Test10" {
                    self.more_replies = rs.iter().filter_map(|r| r["parameters"]["string"].as_str().map(String::from)).collect();
                    if rs.len() < 2 {
                        return Err(StepErr::Fail(Fail::new("cert/canonical-more-not-streamed", format!("Test10 with `more` gave {} replies", rs.len()))));
                    }
                } else {
                    self.carry = last["parameters"].clone();
                    if step == "Start" {
                        self.client_id = last["parameters"]["client_id"].as_str().unwrap_or("").to_string();
                        self.carry = json!({});
                    }
                    if step == "End" && last["parameters"]["all_ok"] != json!(true) {
                        return Err(StepErr::Fail(Fail::new("cert/canonical-not-all-ok", format!("End answered {}", last))));
                    }
                }
                self.next += 1;
                Ok(())
            }
            CallEnd::Closed(_) => Err(StepErr::Fail(Fail::new(
                format!("cert/canonical-step-closed/{}", step),
                format!("the connection was closed at canonical step {}", step),
            ))),
            CallEnd::Stalled => Err(StepErr::Stalled),
        }
    }
}

#[derive(Clone, Debug)]
pub struct Deviation {
    pub step: usize,
    pub name: String,
    pub request: Value,
    pub well_typed: bool,
}

fn paths(v: &Value, cur: &mut Vec<String>, out: &mut Vec<(Vec<String>, Value)>) {
    match v {
        Value::Object(o) => {
            out.push((cur.clone(), v.clone()));
            for (k, x) in o {
                cur.push(k.clone());
                paths(x, cur, out);
                cur.pop();
            }
        }
        Value::Array(a) => {
            out.push((cur.clone(), v.clone()));
            for (i, x) in a.iter().enumerate() {
                cur.push(i.to_string());
                paths(x, cur, out);
                cur.pop();
            }
        }
        _ => out.push((cur.clone(), v.clone())),
    }
}

fn set_at(v: &mut Value, path: &[String], new: Option<Value>) {
    let (last, init) = path.split_last().unwrap();
    let mut cur = v;
    for p in init {
        let next = match cur {
            Value::Object(o) => o.get_mut(p),
            Value::Array(a) => p.parse::<usize>().ok().and_then(|i| a.get_mut(i)),
            _ => None,
        };
        match next {
            Some(n) => cur = n,
            None => return,
        }
    }
    match (cur, new) {
        (Value::Object(o), Some(n)) => {
            o.insert(last.clone(), n);
        }
        (Value::Object(o), None) => {
            o.remove(last);
        }
        (Value::Array(a), Some(n)) => {
            if let Some(i) = last.parse::<usize>().ok().filter(|i| *i < a.len()) {
                a[i] = n;
            }
        }
        (Value::Array(a), None) => {
            if let Some(i) = last.parse::<usize>().ok().filter(|i| *i < a.len()) {
                a.remove(i);
            }
        }
        _ => {}
    }
}

/// Is `path` inside a string set (whose element values carry no meaning)?
fn in_string_set(path: &[String]) -> bool {
    // `set` (Test09 argument) and `mytype.stringset`
    let p: Vec<&str> = path.iter().map(|s| s.as_str()).collect();
    (p.len() >= 2 && p[0] == "set") || (p.len() >= 3 && p[0] == "mytype" && p[1] == "stringset")
}

/// is the member at `path` an optional one whose null equals its absence?
fn optional_member(path: &[String]) -> bool {
    let p: Vec<&str> = path.iter().map(|s| s.as_str()).collect();
    matches!(p.as_slice(), ["mytype", "nullable"] | ["mytype", "nullable_array_struct"] | ["mytype", "interface", "foo"])
        || (p.len() == 4 && p[0] == "mytype" && p[1] == "interface" && p[2] == "foo")
}

pub fn deviations(step: usize, canon: &Value, client_id: &str, other_id: &str, table: &[Value]) -> Vec<Deviation> {
    let sname = STEPS[step];
    let flags = canon_flags(sname);
    let mut v = vec![];
    let mut push = |name: String, request: Value, well_typed: bool| v.push(Deviation { step, name, request, well_typed });
    // flags
    for bits in 0..8u8 {
        let f = (bits & 1 != 0, bits & 2 != 0, bits & 4 != 0);
        if f == flags {
            continue;
        }
        push(format!("flags:more={},oneway={},upgrade={}", f.0, f.1, f.2), mk_request(sname, Some(canon.clone()), f), true);
    }
    // no parameters at all (for Start `{}` and absent are both canonical)
    if sname != "Start" {
        push("parameters-removed".into(), mk_request(sname, None, flags), false);
        push("parameters-null".into(), {
            let mut r = mk_request(sname, Some(Value::Null), flags);
            r["parameters"] = Value::Null;
            r
        }, false);
        for (n, p) in [("array", json!([])), ("string", json!("x")), ("number", json!(1))] {
            push(format!("parameters-retyped:{}", n), mk_request(sname, Some(p), flags), false);
        }
    } else {
        push("start-with-parameters".into(), mk_request(sname, Some(json!({"client_id": "x"})), flags), true);
        // Start takes no parameters: an empty object or none at all. Any other JSON value in their place deviates.
        for (n, p) in [("empty-array", json!([])), ("array-of-empty-object", json!([{}])), ("string", json!("start")), ("empty-string", json!("")), ("zero", json!(0)), ("float", json!(1.5)), ("true", json!(true)), ("false", json!(false))] {
            push(format!("parameters-retyped:{}", n), mk_request(sname, Some(p), flags), false);
        }
    }
    // client id
    if sname != "Start" {
        // respellings of the client's own id are other ids (the id is a string, not a number)
        for (n, id) in [
            ("unknown", "deadbeef00000000"),
            ("empty", ""),
            ("other-client", other_id),
            ("own-with-leading-zero", "@@SELF:0@@"),
            ("own-with-plus-sign", "@@SELF:+@@"),
            ("own-in-other-letter-case", "@@SELF:case@@"),
            ("own-with-trailing-blank", "@@SELF:blank@@"),
            ("own-with-0x", "@@SELF:0x@@"),
        ] {
            if n == "other-client" && step == 1 {
                continue; // that client is itself waiting at Test01: its id is valid there
            }
            let mut p = canon.clone();
            p["client_id"] = json!(id);
            push(format!("client-id:{}", n), mk_request(sname, Some(p), flags), true);
        }
    }
    // wrong position: every other step's canonical request with this client's id
    for (j, other) in STEPS.iter().enumerate() {
        if j == step || *other == "Start" && sname == "Start" {
            continue;
        }
        let mut p = table[j].clone();
        if *other != "Start" {
            p["client_id"] = json!(client_id);
        }
        // a Start at any position is a legitimate new session, not a deviation
        if *other == "Start" {
            continue;
        }
        push(format!("wrong-position:{}", other), mk_request(other, Some(p), canon_flags(other)), true);
    }
    // leaf mutations
    let mut ps = vec![];
    paths(canon, &mut vec![], &mut ps);
    for (path, val) in ps {
        if path.is_empty() || path[0] == "client_id" {
            continue;
        }
        let pname = path.join("/");
        // removal
        let opt = optional_member(&path);
        let set_depth = if path[0] == "set" { 2 } else { 3 };
        let is_set_element = in_string_set(&path) && path.len() == set_depth;
        if in_string_set(&path) && path.len() > set_depth {
            continue; // below an element's value
        }
        let is_elem_of_array = path.last().map(|l| l.parse::<usize>().is_ok()).unwrap_or(false);
        if !(opt && val.is_null()) {
            let mut p = canon.clone();
            set_at(&mut p, &path, None);
            // removing a present optional member or any required member is a deviation; removing an
            // absent-equivalent (null) optional is not
            push(format!("remove:{}", pname), mk_request(sname, Some(p), flags), opt || is_elem_of_array || in_string_set(&path));
        }
        if is_set_element {
            continue; // the value of a string-set element carries no meaning: only removal deviates
        }
        // change within the type
        let changed: Option<Value> = match &val {
            Value::Bool(b) => Some(json!(!b)),
            Value::Number(n) if n.is_f64() => Some(json!(n.as_f64().unwrap() + 0.5)),
            Value::Number(n) => Some(json!(n.as_i64().unwrap_or(0) + 1)),
            Value::String(s) => Some(json!(format!("{}x", s))),
            Value::Object(o) => {
                let mut o2 = o.clone();
                o2.insert("extra".into(), if in_string_set(&path) { json!({}) } else { json!("Extra") });
                Some(Value::Object(o2))
            }
            Value::Array(a) => {
                let mut a2 = a.clone();
                a2.push(a.first().cloned().unwrap_or(json!("more")));
                Some(Value::Array(a2))
            }
            Value::Null => None,
        };
        if let Some(c) = changed {
            // adding an unknown member to a struct is ignored by the service's decoder: only
            // containers with open key sets (maps, sets, `object`) make that a deviation
            let open_keys = matches!(pname.as_str(), "map" | "set" | "mytype/dictionary" | "mytype/stringset" | "mytype/object" | "mytype/object/parameters" | "mytype/object/parameters/map")
                || pname.starts_with("mytype/object");
            if !(val.is_object() && !open_keys) {
                let mut p = canon.clone();
                set_at(&mut p, &path, Some(c));
                push(format!("change:{}", pname), mk_request(sname, Some(p), flags), true);
            }
        }
        // near misses: a float that differs in the tenth significant digit, an integer off by one in
        // the other direction, a string that differs only in letter case
        let near: Option<Value> = match &val {
            Value::Number(n) if n.is_f64() => {
                let f = n.as_f64().unwrap();
                let g = if f == 0.0 { 1e-12 } else { f * (1.0 + 1e-10) };
                // through the decoder's own text round trip, so that the request carries what is meant
                let g: f64 = serde_json::from_str(&serde_json::to_string(&g).unwrap()).unwrap_or(g);
                if g != f { Some(json!(g)) } else { None }
            }
            Value::Number(n) => Some(json!(n.as_i64().unwrap_or(0) - 1)),
            Value::String(s) if s.chars().any(|c| c.is_ascii_alphabetic()) => {
                let t: String = s.chars().map(|c| if c.is_ascii_lowercase() { c.to_ascii_uppercase() } else { c.to_ascii_lowercase() }).collect();
                Some(json!(t))
            }
            _ => None,
        };
        if let Some(c) = near {
            let mut p = canon.clone();
            set_at(&mut p, &path, Some(c));
            push(format!("near-miss:{}", pname), mk_request(sname, Some(p), flags), true);
        }
        // retype
        let inside_object_any = pname.starts_with("mytype/object");
        for (tn, tv) in [("null", Value::Null), ("bool", json!(true)), ("int", json!(7)), ("float", json!(7.5)), ("string", json!("s")), ("array", json!([])), ("object", json!({}))] {
            let same_type = match (&val, &tv) {
                (Value::Null, Value::Null) | (Value::Bool(_), Value::Bool(_)) | (Value::String(_), Value::String(_)) | (Value::Array(_), Value::Array(_)) | (Value::Object(_), Value::Object(_)) => true,
                (Value::Number(a), Value::Number(b)) => a.is_f64() == b.is_f64(),
                _ => false,
            };
            if same_type {
                continue;
            }
            if opt && tv.is_null() && val.is_null() {
                continue;
            }
            let mut p = canon.clone();
            set_at(&mut p, &path, Some(tv.clone()));
            if p == *canon {
                continue;
            }
            // an int where a float is expected is read as that float: a different value, still a deviation
            push(format!("retype:{}:{}", pname, tn), mk_request(sname, Some(p), flags), inside_object_any);
        }
    }
    v
}

pub enum Verdict {
    Rejected(&'static str),
    Stalled,
}

/// Run the canonical prefix up to `step`, send the deviating request, judge the reply.
pub fn run_deviation(addr: &str, d: &Deviation, other: &mut Option<String>) -> Result<Verdict, Fail> {
    let mut c = match Client::connect(addr) {
        Ok(c) => c,
        Err(StepErr::Fail(f)) => return Err(f),
        Err(StepErr::Stalled) => return Ok(Verdict::Stalled),
    };
    for _ in 0..d.step {
        match c.advance() {
            Ok(()) => {}
            Err(StepErr::Fail(f)) => return Err(f),
            Err(StepErr::Stalled) => return Ok(Verdict::Stalled),
        }
    }
    let _ = other;
    // substitute this connection's client id where the deviation carries the placeholder
    let mut req = d.request.clone();
    if req["parameters"]["client_id"] == "@@SELF@@" {
        req["parameters"]["client_id"] = json!(c.client_id);
    } else if let Some(how) = req["parameters"]["client_id"].as_str().and_then(|s| s.strip_prefix("@@SELF:")).map(|s| s.trim_end_matches("@@").to_string()) {
        let id = c.client_id.clone();
        let alias = match how.as_str() {
            "0" => format!("0{}", id),
            "+" => format!("+{}", id),
            "blank" => format!("{} ", id),
            "0x" => format!("0x{}", id),
            _ => {
                if id.chars().any(|ch| ch.is_ascii_lowercase()) {
                    id.to_ascii_uppercase()
                } else {
                    id.to_ascii_lowercase()
                }
            }
        };
        if alias == id {
            return Ok(Verdict::Rejected("not-applicable(the id has no letters)"));
        }
        req["parameters"]["client_id"] = json!(alias);
    }
    let oneway = req["oneway"] == json!(true);
    c.raw.send(&req);
    // probe: delimits whatever the deviating request caused
    let probe = json!({"method": "org.varlink.service.GetInfo"});
    c.raw.send(&probe);
    let mut got: Vec<Value> = vec![];
    let mut closed = false;
    loop {
        match c.raw.next_final(T) {
            CallEnd::Replies(rs) => {
                let is_probe = rs.last().map(|r| r["parameters"]["vendor"].is_string() && r["parameters"]["interfaces"].is_array()).unwrap_or(false);
                if is_probe {
                    break;
                }
                got.extend(rs);
            }
            CallEnd::Closed(rs) => {
                got.extend(rs);
                closed = true;
                break;
            }
            CallEnd::Stalled => return Ok(Verdict::Stalled),
        }
    }
    for r in &got {
        let is_err = r.get("error").map(|e| e.is_string()).unwrap_or(false);
        if !is_err {
            return Err(Fail::new(
                format!("cert/deviation-accepted/{}/{}", step_name(d.step), d.name.split(':').next().unwrap_or("")),
                format!("step {} deviation `{}`: request {} was answered with a non-error reply {}", step_name(d.step), d.name, req, r),
            ));
        }
    }
    Ok(Verdict::Rejected(if got.is_empty() {
        if closed {
            "closed"
        } else if oneway {
            "nothing(oneway)"
        } else {
            "nothing"
        }
    } else {
        "error-reply"
    }))
}

/// One full canonical run; returns each step's canonical parameters (client id blanked).
fn learn_table(addr: &str) -> Result<Vec<Value>, Fail> {
    let mut c = Client::connect(addr).map_err(|e| match e {
        StepErr::Fail(f) => f,
        StepErr::Stalled => Fail::new("HARNESS/stalled", "connect".to_string()),
    })?;
    let mut table = vec![];
    for _ in 0..STEPS.len() {
        let mut p = c.canonical_params();
        if p.get("client_id").is_some() {
            p["client_id"] = json!("@@SELF@@");
        }
        table.push(p);
        match c.advance() {
            Ok(()) => {}
            Err(StepErr::Fail(f)) => return Err(f),
            Err(StepErr::Stalled) => return Err(Fail::new("HARNESS/stalled", "canonical run stalled".to_string())),
        }
    }
    Ok(table)
}

/// The same canonical step of one client id sent on several connections at the same instant: the
/// step is the client's next one for exactly one of them. Returns the number of raced steps, or
/// None when something stalled.
fn duplicate_step_race(addr: &str, conns: usize) -> Result<Option<usize>, Fail> {
    let mut c = match Client::connect(addr) {
        Ok(c) => c,
        Err(StepErr::Fail(f)) => return Err(f),
        Err(StepErr::Stalled) => return Ok(None),
    };
    match c.advance() {
        Ok(()) => {}
        Err(StepErr::Fail(f)) => return Err(f),
        Err(StepErr::Stalled) => return Ok(None),
    }
    let mut raced = 0;
    // Test01..Test09: plain calls whose reply carries the next step's parameters
    while c.next < STEPS.len() && STEPS[c.next] != "Test10" {
        let step = STEPS[c.next];
        let req = mk_request(step, Some(c.canonical_params()), canon_flags(step));
        let barrier = std::sync::Arc::new(std::sync::Barrier::new(conns));
        let mut hs = vec![];
        for _ in 0..conns {
            let b = barrier.clone();
            let req = req.clone();
            let addr = addr.to_string();
            hs.push(std::thread::spawn(move || -> Option<Vec<Value>> {
                let mut raw = Raw::connect(&addr).ok()?;
                b.wait();
                match raw.call(&req, T) {
                    CallEnd::Replies(rs) => Some(rs),
                    CallEnd::Closed(rs) => Some(rs),
                    CallEnd::Stalled => None,
                }
            }));
        }
        let mut successes: Vec<Value> = vec![];
        for h in hs {
            match h.join() {
                Ok(Some(rs)) => {
                    if let Some(last) = rs.last() {
                        if last.get("error").map(|e| e.is_null()).unwrap_or(true) && !rs.is_empty() {
                            successes.push(last.clone());
                        }
                    }
                }
                _ => return Ok(None),
            }
        }
        if successes.len() > 1 {
            return Err(Fail::new(
                format!("cert/step-accepted-twice/{}", step),
                format!("{} of {} simultaneous {} requests of one client id were answered with the step's success reply", successes.len(), conns, step),
            ));
        }
        let Some(ok) = successes.pop() else {
            return Err(Fail::new(
                format!("cert/canonical-step-rejected/{}", step),
                format!("none of {} simultaneous canonical {} requests of one client id succeeded", conns, step),
            ));
        };
        c.carry = ok["parameters"].clone();
        c.next += 1;
        raced += 1;
    }
    Ok(Some(raced))
}

fn concurrent(addr: &str, n: usize, tape: &[u16]) -> Result<bool, Fail> {
    let mut clients = vec![];
    for _ in 0..n {
        match Client::connect(addr) {
            Ok(c) => clients.push(c),
            Err(StepErr::Fail(f)) => return Err(f),
            Err(StepErr::Stalled) => return Ok(false),
        }
    }
    let mut t = 0usize;
    loop {
        let live: Vec<usize> = (0..n).filter(|i| clients[*i].next < STEPS.len()).collect();
        if live.is_empty() {
            break;
        }
        let pick = tape.get(t).cloned().unwrap_or(0) as usize;
        t += 1;
        let i = live[(pick * live.len()) >> 16];
        match clients[i].advance() {
            Ok(()) => {}
            Err(StepErr::Fail(mut f)) => {
                f.key = format!("cert/concurrent/{}", f.key);
                f.what = format!("{} clients interleaved; client {}: {}", n, i, f.what);
                return Err(f);
            }
            Err(StepErr::Stalled) => return Ok(false),
        }
    }
    let mut ids: Vec<&String> = clients.iter().map(|c| &c.client_id).collect();
    ids.sort();
    ids.dedup();
    if ids.len() != n {
        return Err(Fail::new("cert/concurrent/client-id-reused", format!("{} concurrent clients received only {} distinct client ids", n, ids.len())));
    }
    Ok(true)
}

fn replay(ctx: &mut Ctx, v: &Value, addr: &str) {
    let cj = &v["case"];
    ctx.case(None);
    ctx.force_sample(cj.clone());
    let res = if cj.get("duplicate_step_race").is_some() {
        let mut r = Ok(());
        for _ in 0..200 {
            if let Err(f) = duplicate_step_race(addr, cj["connections"].as_u64().unwrap_or(6) as usize) {
                r = Err(f);
                break;
            }
        }
        r
    } else if let Some(n) = cj.get("concurrent_clients").and_then(|n| n.as_u64()) {
        let tape: Vec<u16> = cj["tape"].as_array().map(|a| a.iter().filter_map(|x| x.as_u64()).map(|x| x as u16).collect()).unwrap_or_default();
        concurrent(addr, n as usize, &tape).map(|_| ())
    } else {
        let d = Deviation { step: cj["step_index"].as_u64().unwrap_or(0) as usize, name: cj["deviation"].as_str().unwrap_or("").to_string(), request: cj["request"].clone(), well_typed: true };
        run_deviation(addr, &d, &mut None).map(|_| ())
    };
    if let Err(f) = res {
        ctx.violation(&f.key, &f.what, "c19-replay", cj.clone());
    }
}

/// `STEPS.len()` stands for "after End": the whole canonical sequence has been run.
fn step_name(i: usize) -> &'static str {
    STEPS.get(i).copied().unwrap_or("after-End")
}

fn dev_json(d: &Deviation) -> Value {
    json!({"step": step_name(d.step), "step_index": d.step, "deviation": d.name, "request": d.request})
}

pub fn run(args: &Args) -> ! {
    let mut ctx = Ctx::new(args, "fault_enumeration");
    ctx.rule = RULE.into();
    ctx.assumptions = vec![
        "the canonical parameters are learned from the service's own replies (each reply is the next step's argument)".into(),
        "adding an unknown member to a struct-typed value is not a deviation (decoders ignore unknown members); maps, sets and `object` values are compared in full".into(),
        "a Start request at a later position opens a new session and is not a deviation".into(),
    ];
    let scratch = Scratch::new("c19");
    let addr = scratch.unix_addr("cert.sock");
    let Some(proc_) = Proc::spawn_repo_bin("varlink-certification", &[&format!("--varlink={}", addr)], &scratch.path.join("cert.sock")) else {
        ctx.inconclusive("cannot start varlink-certification (VERIF_REPO_BIN missing?)");
        ctx.finish();
    };
    if let Some(p) = &args.replay {
        let v = load_replay(p);
        replay(&mut ctx, &v, &addr);
        drop(proc_);
        ctx.finish();
    }
    let table = match learn_table(&addr) {
        Ok(t) => t,
        Err(f) => {
            ctx.case(None);
            ctx.violation(&f.key, &f.what, "c19", json!({"canonical_run": true}));
            drop(proc_);
            ctx.finish();
        }
    };
    ctx.case(Some(hash64("canonical")));
    ctx.class("canonical-run");
    // another live client's id for the "other client" deviation
    let mut other = Client::connect(&addr).ok();
    if let Some(o) = other.as_mut() {
        let _ = o.advance();
    }
    let other_id = other.as_ref().map(|o| o.client_id.clone()).unwrap_or_else(|| "0".into());
    let mut stalls = 0;
    let mut all_devs: Vec<Deviation> = vec![];
    for step in 0..STEPS.len() {
        let devs = deviations(step, &table[step], "@@SELF@@", &other_id, &table);
        for d in devs {
            match pt::guard(|| run_deviation(&addr, &d, &mut None)) {
                Ok(Verdict::Rejected(how)) => {
                    ctx.case(if step >= 1 && d.well_typed { Some(hash64(&(step, &d.name))) } else { None });
                    ctx.class(&format!("rejected-by:{}", how));
                    ctx.class(&format!("kind:{}", d.name.split(':').next().unwrap_or("")));
                    if ctx.evaluations % 211 == 0 {
                        ctx.force_sample(dev_json(&d));
                    }
                }
                Ok(Verdict::Stalled) => stalls += 1,
                Err(f) => {
                    ctx.case(None);
                    ctx.violation(&f.key, &f.what, "c19", dev_json(&d));
                }
            }
            all_devs.push(d);
        }
    }
    // a finished session: after End, the id is not good for another pass through the tests
    for j in 1..STEPS.len() - 1 {
        let mut p = table[j].clone();
        p["client_id"] = json!("@@SELF@@");
        let d = Deviation { step: STEPS.len(), name: format!("wrong-position:{}-after-End", STEPS[j]), request: mk_request(STEPS[j], Some(p), canon_flags(STEPS[j])), well_typed: true };
        match pt::guard(|| run_deviation(&addr, &d, &mut None)) {
            Ok(Verdict::Rejected(how)) => {
                ctx.case(Some(hash64(&(STEPS.len(), &d.name))));
                ctx.class(&format!("rejected-by:{}", how));
                ctx.class("kind:wrong-position-after-End");
            }
            Ok(Verdict::Stalled) => stalls += 1,
            Err(f) => {
                ctx.case(None);
                ctx.violation(&f.key, &f.what, "c19", dev_json(&d));
            }
        }
        all_devs.push(d);
    }
    ctx.section("single_deviations", json!({"enumerated": all_devs.len(), "steps": STEPS.len(), "exhaustive": true}));
    // random double deviations: take a single deviation's request and apply a second leaf change
    let cases = ctx.tier.pick(600, 20_000);
    let all = &all_devs;
    let tbl = &table;
    // per step: deviations that keep the step's own method and an object as parameters, and leaf changes
    let mut per_step: Vec<(Vec<usize>, Vec<usize>)> = vec![];
    for step in 0..STEPS.len() {
        let base: Vec<usize> = (0..all.len()).filter(|i| all[*i].step == step && all[*i].request["parameters"].is_object() && all[*i].request["method"] == json!(method(STEPS[step]))).collect();
        let changes: Vec<usize> = (0..all.len()).filter(|i| all[*i].step == step && all[*i].name.starts_with("change:")).collect();
        if !base.is_empty() && !changes.is_empty() {
            per_step.push((base, changes));
        }
    }
    let per_step = &per_step;
    let nsteps = per_step.len();
    let r = pt::check_with(&mut ctx, "c19-double", cases, 100, 60_000, (0..nsteps, any::<prop::sample::Index>(), any::<prop::sample::Index>()), |ctx, (si, ia, ib)| {
        let (base, changes) = &per_step[*si];
        let a = &base[ia.index(base.len())];
        let b = &changes[ib.index(changes.len())];
        let d1 = &all[*a];
        let d2 = &all[*b];
        // apply d2's changed leaf onto d1's request
        let path: Vec<String> = d2.name.trim_start_matches("change:").split('/').map(String::from).collect();
        let mut req = d1.request.clone();
        let mut cur = &d2.request["parameters"];
        for p in &path {
            cur = match cur {
                Value::Array(a) => a.get(p.parse::<usize>().unwrap_or(0)).unwrap_or(&Value::Null),
                other => &other[p.as_str()],
            };
        }
        let newv = cur.clone();
        if !req["parameters"].is_object() || req["method"] != json!(method(STEPS[d1.step])) {
            ctx.exclude("double:not-combinable");
            return Ok(());
        }
        // only when the path still exists in d1's request
        let mut probe = &req["parameters"];
        for p in &path[..path.len() - 1] {
            probe = match probe {
                Value::Array(a) => a.get(p.parse::<usize>().unwrap_or(0)).unwrap_or(&Value::Null),
                other => &other[p.as_str()],
            };
        }
        if probe.is_null() || !(probe.is_object() || probe.is_array()) {
            ctx.exclude("double:not-combinable");
            return Ok(());
        }
        set_at(&mut req["parameters"], &path, Some(newv));
        let _ = tbl;
        let d = Deviation { step: d1.step, name: format!("double:{}+{}", d1.name, d2.name), request: req, well_typed: true };
        match run_deviation(&addr, &d, &mut None)? {
            Verdict::Rejected(_) => {
                ctx.case(Some(hash64(&d.name)));
                ctx.class("double-deviation");
                ctx.sample(|| dev_json(&d));
            }
            Verdict::Stalled => {}
        }
        Ok(())
    });
    if let Some((_, f)) = r {
        ctx.violation(&f.key, &f.what, "c19", json!({"double_deviation": f.what}));
    }
    // concurrent canonical clients
    let rounds = ctx.tier.pick(40, 1_000);
    let r = pt::check_with(&mut ctx, "c19-concurrent", rounds, 60, 60_000, (1usize..=16, prop::collection::vec(any::<u16>(), 0..208)), |ctx, (n, tape)| {
        if concurrent(&addr, *n, tape)? {
            ctx.case(if *n >= 2 { Some(hash64(&(n, tape))) } else { None });
            ctx.class("concurrent-canonical-clients");
            ctx.class_n("concurrent-clients-total", *n as u64);
        }
        Ok(())
    });
    if let Some(((n, tape), f)) = r {
        ctx.violation(&f.key, &f.what, "c19", json!({"concurrent_clients": n, "tape": tape}));
    }
    // one client id, one step, several connections at the same instant
    let races = ctx.tier.pick(60, 1_500);
    for k in 0..races {
        if ctx.failed() {
            break;
        }
        match pt::guard(|| duplicate_step_race(&addr, 6)) {
            Ok(Some(n)) => {
                ctx.case(Some(hash64(&("race", k))));
                ctx.class("duplicate-step-race(6 connections)");
                ctx.class_n("raced-steps-total", n as u64);
            }
            Ok(None) => stalls += 1,
            Err(f) => {
                ctx.case(None);
                ctx.violation(&f.key, &f.what, "c19", json!({"duplicate_step_race": true, "connections": 6}));
            }
        }
    }
    if stalls > 0 {
        ctx.inconclusive(&format!("{} deviation runs stalled", stalls));
    }
    drop(other);
    drop(proc_);
    ctx.exhaustive = Some(false);
    ctx.finish()
}
