//! Child processes of the repository's binaries.

use std::path::{Path, PathBuf};
use std::process::{Child, Command, Stdio};
use std::time::{Duration, Instant};

pub fn repo_bin(name: &str) -> Option<PathBuf> {
    let dir = std::env::var_os("VERIF_REPO_BIN")?;
    let p = Path::new(&dir).join(name);
    if p.exists() {
        Some(p)
    } else {
        None
    }
}

pub fn harness_bin(name: &str) -> PathBuf {
    std::env::current_exe().expect("current_exe").parent().unwrap().join(name)
}

pub struct Proc {
    pub child: Child,
}

impl Proc {
    /// Spawn a binary built from /repo and wait until `socket` exists.
    pub fn spawn_repo_bin(name: &str, args: &[&str], socket: &Path) -> Option<Proc> {
        let exe = repo_bin(name)?;
        Self::spawn(&exe, args, Some(socket))
    }

    pub fn spawn(exe: &Path, args: &[&str], socket: Option<&Path>) -> Option<Proc> {
        let child = Command::new(exe).args(args).stdin(Stdio::null()).stdout(Stdio::null()).stderr(Stdio::null()).spawn().ok()?;
        let p = Proc { child };
        if let Some(s) = socket {
            let t0 = Instant::now();
            while !s.exists() {
                if t0.elapsed() > Duration::from_secs(10) {
                    return None;
                }
                std::thread::sleep(Duration::from_millis(2));
            }
        }
        Some(p)
    }
}

impl Drop for Proc {
    fn drop(&mut self) {
        let _ = self.child.kill();
        let _ = self.child.wait();
    }
}
