#![no_main]
//! text -> differential of IDL::try_from against the reference recogniser (C11 oracle).
use libfuzzer_sys::fuzz_target;

fuzz_target!(|data: &[u8]| {
    if let Ok(text) = std::str::from_utf8(data) {
        if let Err(f) = vl_model::oracles::differential(text, None) {
            if !f.key.starts_with("HARNESS/") {
                panic!("C11 violation {}: {}", f.key, f.what);
            }
        }
    }
});
