#![no_main]
//! bytes -> handle() on the T-service; the C06 oracle decides inside the target.
use libfuzzer_sys::fuzz_target;
use std::collections::HashMap;
use std::sync::OnceLock;

static SVC: OnceLock<(varlink::VarlinkService, vl_tsvc::Probe)> = OnceLock::new();

fuzz_target!(|data: &[u8]| {
    let (svc, probe) = SVC.get_or_init(vl_tsvc::t_service);
    // no state from earlier inputs: the probe records every byte an upgraded handler was offered
    probe.upgraded.lock().unwrap().clear();
    let none: HashMap<Vec<u8>, (vl_model::wire::Sym, usize)> = HashMap::new();
    if let Err(f) = vl_model::oracles::check_bytes(svc, &none, data, "handle") {
        panic!("C06 violation {}: {}", f.key, f.what);
    }
});
