#![no_main]
//! (width byte, text) -> for every text the parser accepts: formatting oracle of C10 at that width and
//! at 0 / 80 / unlimited (definition preserved, idempotent, colored == plain modulo escapes).
use libfuzzer_sys::fuzz_target;

fuzz_target!(|data: &[u8]| {
    let Some((w, rest)) = data.split_first() else { return };
    if let Ok(text) = std::str::from_utf8(rest) {
        // a definition whose own comments contain ESC cannot be judged for "differs only by escape
        // sequences" (the plain text carries them too); excluded by construction
        if text.contains('\u{1b}') || varlink_parser::IDL::try_from(text).is_err() {
            return;
        }
        vl_model::oracles::force_color();
        if let Err(f) = vl_model::oracles::check_format(text, None, &[*w as usize, 0, 80, usize::MAX]) {
            if !f.key.starts_with("HARNESS/") {
                panic!("C10 violation {}: {}", f.key, f.what);
            }
        }
    }
});
