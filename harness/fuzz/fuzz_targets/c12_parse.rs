#![no_main]
//! text -> totality and diagnostic-location oracle of the parser (C12).
use libfuzzer_sys::fuzz_target;

fuzz_target!(|data: &[u8]| {
    if let Ok(text) = std::str::from_utf8(data) {
        if let Err(f) = vl_model::oracles::check_total(text) {
            panic!("C12 violation {}: {}", f.key, f.what);
        }
    }
});
