//! C07 — a client connection carries one call at a time and reports outcomes faithfully.

use proptest::prelude::*;
use serde_json::{json, Map, Value};
use std::io::{BufRead, BufReader, Write};
use std::os::unix::net::UnixStream;
use std::time::Duration;
use std::sync::atomic::{AtomicUsize, Ordering};
use std::sync::{Arc, Mutex, RwLock};
use vl_model::ctx::{hash64, load_replay, Args, Ctx};
use vl_model::jsongen::{json_string, json_value};
use vl_model::pt::{self, Fail};
use vl_model::wire::*;

use crate::fake::{vcall, Fake};

pub const RULE: &str = "(a) arbitrary final reply objects (no error / null error / the four standard errors with a \
well-typed, missing, null or ill-typed parameter / custom error names incl. near-misses of the standard ones; \
parameters absent, null, object, other JSON) served by a scripted fake service on a socketpair to call(); oracle: \
independent reply->outcome mapping from the statement. (b) every history of length <= 4 (quick) / 5 (thorough) \
and random ones up to 12 over {call, more-start, more-next, oneway, second send on the same object, new call / \
oneway while iterating, drop iterator, a stream whose first reply is an error reply with continues:true, a call after an \
iterator was dropped mid-stream (must not receive a reply of that stream)} against a model of the connection slot (Idle | Streaming): busy \
rejections write no byte, a call object sends once, after the final reply the connection works, every result is \
the reply queued for that call. (c) 2..8 threads share one connection against a live scripted server with \
generated op lists and yields; every call returns its own token or a busy error, the server log is a sequence of \
intact requests, afterwards the connection is idle and usable. Non-trivial: (a) error reply; (b) a send attempted \
while streaming; (c) at least one busy rejection observed in the round; distinct by reply / history / round. (d) read faults (four I/O error kinds) injected between a request and its reply, for plain calls and `more` streams, exhaustively over small dimensions: no invented success, and a late reply reaches no other call. (e) write / flush faults reported after the request bytes reached the peer (two sites x four error kinds x {call, more, oneway} x later operations, exhaustive): the peer's reply to the failed send reaches no other call.";

// ------------------------------------------------------------------------------------------------
// (a) reply -> outcome

#[derive(Debug, Clone, PartialEq)]
pub enum Outcome {
    Ok(Value),
    /// variant name and, when the statement fixes it, the carried string
    Std(&'static str, Option<String>),
    Custom(Value),
}

const STD: [(&str, &str, &str); 4] = [
    ("org.varlink.service.InterfaceNotFound", "InterfaceNotFound", "interface"),
    ("org.varlink.service.InvalidParameter", "InvalidParameter", "parameter"),
    ("org.varlink.service.MethodNotFound", "MethodNotFound", "method"),
    ("org.varlink.service.MethodNotImplemented", "MethodNotImplemented", "method"),
];

fn text_roundtrip(v: &Value) -> Value {
    serde_json::from_str(&v.to_string()).unwrap()
}

/// The statement's mapping, written independently of the library.
pub fn expected_outcome(reply: &Value) -> Outcome {
    let reply = text_roundtrip(reply);
    let err = reply.get("error").filter(|e| !e.is_null());
    let params = reply.get("parameters").filter(|p| !p.is_null());
    match err {
        None => Outcome::Ok(params.cloned().unwrap_or_else(|| json!({}))),
        Some(e) => {
            let name = e.as_str().unwrap_or("");
            if let Some((_, variant, field)) = STD.iter().find(|s| s.0 == name) {
                let arg = match params {
                    None => Some(String::new()),
                    Some(Value::Object(o)) => match o.get(*field) {
                        None | Some(Value::Null) => Some(String::new()),
                        Some(Value::String(s)) => Some(s.clone()),
                        Some(_) => None, // ill-typed: the statement does not say
                    },
                    Some(_) => None,
                };
                Outcome::Std(variant, arg)
            } else {
                let mut m = Map::new();
                m.insert("error".into(), e.clone());
                if let Some(p) = params {
                    m.insert("parameters".into(), p.clone());
                }
                if let Some(Value::Bool(b)) = reply.get("continues") {
                    m.insert("continues".into(), json!(b));
                }
                Outcome::Custom(Value::Object(m))
            }
        }
    }
}

pub fn check_outcome(
    where_: &str,
    want: &Outcome,
    got: &Result<Value, varlink::Error>,
) -> Result<(), Fail> {
    let show = |g: &Result<Value, varlink::Error>| match g {
        Ok(v) => format!("Ok({})", v),
        Err(e) => format!("Err({:?})", e.kind()),
    };
    let ok = match (want, got) {
        (Outcome::Ok(v), Ok(g)) => v == g,
        (Outcome::Std(variant, arg), Err(e)) => {
            let (v, s) = match e.kind() {
                varlink::ErrorKind::InterfaceNotFound(s) => ("InterfaceNotFound", s),
                varlink::ErrorKind::InvalidParameter(s) => ("InvalidParameter", s),
                varlink::ErrorKind::MethodNotFound(s) => ("MethodNotFound", s),
                varlink::ErrorKind::MethodNotImplemented(s) => ("MethodNotImplemented", s),
                _ => {
                    return Err(Fail::new(
                        format!("{}/std-error-kind", where_),
                        format!("expected {:?}, client returned {}", want, show(got)),
                    ))
                }
            };
            v == *variant && arg.as_ref().map(|a| a == s).unwrap_or(true)
        }
        (Outcome::Custom(full), Err(e)) => match e.kind() {
            varlink::ErrorKind::VarlinkErrorReply(r) => {
                let mut g = serde_json::to_value(r).unwrap();
                if let Some(o) = g.as_object_mut() {
                    if o.get("continues") == Some(&Value::Bool(false)) && full.get("continues").is_none() {
                        o.remove("continues");
                    }
                }
                let mut f = full.clone();
                if f.get("continues") == Some(&Value::Bool(false)) && g.get("continues").is_none() {
                    f.as_object_mut().unwrap().remove("continues");
                }
                g == f
            }
            _ => false,
        },
        _ => false,
    };
    if ok {
        Ok(())
    } else {
        let class = match want {
            Outcome::Ok(_) => "success",
            Outcome::Std(..) => "standard-error",
            Outcome::Custom(_) => "custom-error",
        };
        Err(Fail::new(
            format!("{}/{}", where_, class),
            format!("expected {:?}, client returned {}", want, show(got)),
        ))
    }
}

/// Final reply objects (never continues:true).
pub fn final_reply_strategy() -> impl Strategy<Value = Value> {
    let err_name = prop_oneof![
        3 => Just(None),
        1 => Just(Some(Value::Null)),
        4 => (0..4usize).prop_map(|i| Some(json!(STD[i].0))),
        2 => "[a-z]{1,5}(\\.[a-z]{1,5}){1,2}\\.[A-Z][a-zA-Z]{0,6}".prop_map(|s| Some(json!(s))),
        1 => Just(Some(json!("org.varlink.service.InterfaceNotFoundX"))),
        1 => Just(Some(json!("org.varlink.service.Other"))),
        1 => Just(Some(json!("InvalidParameter"))),
        1 => Just(Some(json!(""))),
    ];
    let params = prop_oneof![
        2 => Just(0u8),
        1 => Just(1u8),
        3 => Just(2u8),
        1 => Just(3u8),
        1 => Just(4u8),
        1 => Just(5u8),
        2 => Just(6u8),
        1 => Just(7u8),
    ];
    (err_name, params, json_string(), json_value(2), prop_oneof![Just(0u8), Just(1u8), Just(2u8)]).prop_map(
        |(err, pmode, s, any, cmode)| {
            let mut m = Map::new();
            let field = err
                .as_ref()
                .and_then(|e| e.as_str())
                .and_then(|n| STD.iter().find(|x| x.0 == n))
                .map(|x| x.2)
                .unwrap_or("parameter");
            if let Some(e) = err {
                m.insert("error".into(), e);
            }
            match pmode {
                0 => {}
                1 => {
                    m.insert("parameters".into(), Value::Null);
                }
                2 => {
                    m.insert("parameters".into(), json!({ field: s }));
                }
                3 => {
                    m.insert("parameters".into(), json!({}));
                }
                4 => {
                    m.insert("parameters".into(), json!({ field: Value::Null }));
                }
                5 => {
                    m.insert("parameters".into(), json!({ field: 5 }));
                }
                6 => {
                    m.insert("parameters".into(), if any.is_object() { any } else { json!({ "v": any }) });
                }
                _ => {
                    m.insert("parameters".into(), any);
                }
            }
            match cmode {
                1 => {
                    m.insert("continues".into(), json!(false));
                }
                2 => {
                    m.insert("continues".into(), Value::Null);
                }
                _ => {}
            }
            Value::Object(m)
        },
    )
}

#[derive(serde_derive::Deserialize, Debug)]
#[allow(dead_code)]
struct TypedReply {
    a: i64,
    #[serde(default)]
    b: Option<String>,
}

fn part_a(ctx: &mut Ctx) {
    let cases = ctx.tier.pick(120_000, 500_000);
    let r = pt::check(ctx, "c07a", cases, final_reply_strategy(), |ctx, reply| {
        let want = expected_outcome(reply);
        let nt = !matches!(want, Outcome::Ok(_));
        ctx.case(if nt { Some(hash64(&reply.to_string())) } else { None });
        ctx.class(match &want {
            Outcome::Ok(_) => "a:success",
            Outcome::Std(_, Some(_)) => "a:standard-error",
            Outcome::Std(_, None) => "a:standard-error(ill-typed parameter)",
            Outcome::Custom(_) => "a:custom-error",
        });
        ctx.sample(|| json!({"reply": reply}));
        let mut fake = Fake::new();
        fake.push_replies(std::slice::from_ref(reply));
        let got = vcall(&fake.conn, "org.x.M", json!({"a": 1})).call();
        check_outcome("outcome", &want, &got)?;
        if !fake.slots_present() {
            return Err(Fail::new("outcome/slots-not-returned", "after the final reply the connection is not usable"));
        }
        // the same reply read through a typed call object (the shape generated bindings use): whether
        // or not its parameters decode into the reply type, it was the final reply - the connection
        // is usable again and the next call gets its own reply
        let mut fake = Fake::new();
        fake.push_replies(std::slice::from_ref(reply));
        let typed: Result<TypedReply, varlink::Error> = varlink::MethodCall::<Value, TypedReply, varlink::Error>::new(fake.conn.clone(), "org.x.M", json!({"a": 1})).call();
        ctx.class(if typed.is_ok() { "a:typed-reply-decodes" } else { "a:typed-reply-does-not-decode-or-error" });
        if !fake.slots_present() {
            return Err(Fail::new(
                "outcome/slots-not-returned-after-typed-reply",
                format!("after the final reply {} (typed call returned {:?}) the connection is not usable", reply, typed.as_ref().map(|_| ()).map_err(|e| e.kind().clone())),
            ));
        }
        fake.push_replies(&[json!({"parameters": {"follow": 7}})]);
        match vcall(&fake.conn, "org.x.Next", json!({})).call() {
            Ok(v) if v == json!({"follow": 7}) => {}
            other => {
                return Err(Fail::new(
                    "outcome/follow-up-after-typed-reply",
                    format!("the call after final reply {} returned {:?} instead of its own reply", reply, other.map_err(|e| e.kind().clone())),
                ))
            }
        }
        Ok(())
    });
    if let Some((reply, f)) = r {
        ctx.violation(&f.key, &f.what, "c07a", json!({"reply": reply}));
    }
}

// ------------------------------------------------------------------------------------------------
// (b) histories against a slot model

#[derive(Clone, Copy, Debug, PartialEq, Eq, Hash)]
pub enum HOp {
    /// new call object, call()
    Call,
    /// new call object, more() with this many continues replies queued, then a final
    MoreStart(u8),
    /// like MoreStart(2), but the first reply is an *error* reply that carries `continues: true`
    /// (the crate's own server writes that for set_continues(true) + reply_error): the stream goes on
    MoreStartErrFirst,
    /// next() on the current iterator
    MoreNext,
    /// new call object, oneway()
    Oneway,
    /// send again on the most recent call object (call())
    SendAgain,
    /// drop the current iterator
    DropIter,
}

const HOPS: [HOp; 9] = [
    HOp::Call,
    HOp::MoreStart(0),
    HOp::MoreStart(1),
    HOp::MoreStart(2),
    HOp::MoreStartErrFirst,
    HOp::MoreNext,
    HOp::Oneway,
    HOp::SendAgain,
    HOp::DropIter,
];

fn hops_json(h: &[HOp]) -> Value {
    Value::Array(h.iter().map(|o| json!(format!("{:?}", o))).collect())
}

fn hop_from(s: &str) -> Option<HOp> {
    HOPS.iter().cloned().find(|h| format!("{:?}", h) == s)
}

fn kind_name(e: &varlink::Error) -> String {
    let s = format!("{:?}", e.kind());
    s.split('(').next().unwrap_or("").to_string()
}

pub fn run_history(h: &[HOp]) -> Result<bool, Fail> {
    let mut fake = Fake::new();
    // model
    enum St {
        Idle,
        Streaming(usize), // replies still queued for the iterator (incl. the final)
        /// an iterator was dropped with this many of its replies still queued
        Abandoned,
    }
    let mut iter_err_first = false;
    let mut st = St::Idle;
    let mut iter: Option<crate::fake::VCall> = None; // current more() call object
    let mut iter_token: u64 = 0;
    let mut iter_left_conts: usize = 0;
    let mut last: Option<crate::fake::VCall> = None; // most recent finished call object
    let mut written = 0usize; // requests the model expects on the wire
    let mut busy_seen = false;
    for (i, op) in h.iter().enumerate() {
        let tok = 1000 + i as u64;
        let before = fake.drain().len();
        match op {
            HOp::Call | HOp::Oneway | HOp::MoreStart(_) | HOp::MoreStartErrFirst => {
                let mut c = vcall(&fake.conn, "org.x.Op", json!({"tok": tok}));
                if matches!(st, St::Abandoned) {
                    // what a call does on a connection whose stream was abandoned is not specified,
                    // except that it must never be handed a reply of that stream
                    if let HOp::Call = op {
                        let _ = fake.try_push_replies(&[json!({"parameters": {"tok": tok}})]);
                        if let Ok(v) = c.call() {
                            if v["tok"] != tok {
                                return Err(Fail::new(
                                    "history/foreign-reply-after-abandoned-stream",
                                    format!("op #{} call() after an iterator was dropped mid-stream returned {} - a reply of the abandoned stream, not its own (tok {}) (history {:?})", i, v, tok, h),
                                ));
                            }
                        }
                    }
                    return Ok(busy_seen);
                }
                let streaming = matches!(st, St::Streaming(_));
                if streaming {
                    // must fail with busy, write nothing
                    let r = match op {
                        HOp::Call => c.call().map(|_| ()),
                        HOp::Oneway => c.oneway(),
                        _ => c.more().map(|_| ()),
                    };
                    match r {
                        Err(e) if *e.kind() == varlink::ErrorKind::ConnectionBusy => busy_seen = true,
                        other => {
                            return Err(Fail::new(
                                "history/no-busy-error",
                                format!("op #{} {:?} while a `more` iteration is outstanding returned {:?} instead of a busy error (history {:?})", i, op, other.map_err(|e| kind_name(&e)), h),
                            ))
                        }
                    }
                    if fake.drain().len() != before {
                        return Err(Fail::new(
                            "history/busy-wrote-bytes",
                            format!("op #{} {:?} was rejected as busy but {} bytes were written", i, op, fake.log.len() - before),
                        ));
                    }
                    last = Some(c);
                    continue;
                }
                match op {
                    HOp::Call => {
                        fake.push_replies(&[json!({"parameters": {"tok": tok}})]);
                        match c.call() {
                            Ok(v) if v["tok"] == tok => {}
                            other => {
                                return Err(Fail::new(
                                    "history/wrong-reply",
                                    format!("op #{} call() must return its own reply (tok {}), got {:?} (history {:?})", i, tok, other.map_err(|e| kind_name(&e)), h),
                                ))
                            }
                        }
                        written += 1;
                        last = Some(c);
                    }
                    HOp::Oneway => {
                        if let Err(e) = c.oneway() {
                            return Err(Fail::new("history/oneway-failed", format!("op #{} oneway() on an idle connection failed: {}", i, kind_name(&e))));
                        }
                        written += 1;
                        last = Some(c);
                    }
                    HOp::MoreStart(_) | HOp::MoreStartErrFirst => {
                        let k = if let HOp::MoreStart(k) = op { *k as usize } else { 2 };
                        iter_err_first = matches!(op, HOp::MoreStartErrFirst);
                        let mut rs: Vec<Value> = (0..k).map(|j| json!({"continues": true, "parameters": {"tok": tok, "j": j}})).collect();
                        if iter_err_first {
                            rs[0]["error"] = json!("org.x.Oops");
                        }
                        rs.push(json!({"parameters": {"tok": tok, "j": k}}));
                        fake.push_replies(&rs);
                        if let Err(e) = c.more() {
                            return Err(Fail::new("history/more-failed", format!("op #{} more() on an idle connection failed: {}", i, kind_name(&e))));
                        }
                        written += 1;
                        st = St::Streaming(k + 1);
                        iter_token = tok;
                        iter_left_conts = k;
                        iter = Some(c);
                    }
                    _ => unreachable!(),
                }
            }
            HOp::MoreNext => {
                let Some(c) = iter.as_mut() else { continue };
                let item = c.next();
                match st {
                    St::Streaming(n) => {
                        let j = (iter_left_conts + 1) - n;
                        match item {
                            Some(Ok(v)) if v["tok"] == iter_token && v["j"] == j as u64 && !(iter_err_first && j == 0) => {}
                            Some(Err(e)) if iter_err_first && j == 0 && matches!(e.kind(), varlink::ErrorKind::VarlinkErrorReply(r) if r.error.as_deref() == Some("org.x.Oops") && r.parameters.as_ref().map(|p| p["tok"] == iter_token).unwrap_or(false)) => {}
                            other => {
                                return Err(Fail::new(
                                    "history/iterator-item",
                                    format!("op #{} next() should yield reply {} of call {} but gave {:?}", i, j, iter_token, other.map(|r| r.map_err(|e| kind_name(&e)))),
                                ))
                            }
                        }
                        st = if n == 1 { St::Idle } else { St::Streaming(n - 1) };
                        if matches!(st, St::Idle) && !fake.slots_present() {
                            return Err(Fail::new("history/slots-not-returned", format!("op #{}: final reply consumed but the connection is not usable", i)));
                        }
                    }
                    St::Abandoned => {}
                    St::Idle => {
                        if let Some(x) = item {
                            return Err(Fail::new(
                                "history/iterator-after-final",
                                format!("op #{} next() after the final reply yielded {:?}", i, x.map_err(|e| kind_name(&e))),
                            ));
                        }
                    }
                }
            }
            HOp::SendAgain => {
                let target = if iter.is_some() { iter.as_mut() } else { last.as_mut() };
                let Some(c) = target else { continue };
                match c.call() {
                    Err(e) if *e.kind() == varlink::ErrorKind::MethodCalledAlready => {}
                    other => {
                        return Err(Fail::new(
                            "history/second-send",
                            format!("op #{} a second send on the same call object returned {:?} instead of a called-already error (history {:?})", i, other.map_err(|e| kind_name(&e)), h),
                        ))
                    }
                }
                if fake.drain().len() != before {
                    return Err(Fail::new("history/second-send-wrote-bytes", format!("op #{} second send wrote {} bytes", i, fake.log.len() - before)));
                }
            }
            HOp::DropIter => {
                if iter.take().is_some() {
                    if let St::Streaming(_) = st {
                        // dropped mid-stream: the statement says nothing about what follows, except
                        // that the abandoned stream's replies go to nobody else
                        st = St::Abandoned;
                    }
                }
            }
        }
    }
    if matches!(st, St::Abandoned) {
        return Ok(busy_seen);
    }
    let reqs = fake.requests().map_err(|e| Fail::new("history/garbled-request", e))?;
    if reqs.len() != written {
        return Err(Fail::new(
            "history/request-count",
            format!("{} requests on the wire, the history sends {} (history {:?})", reqs.len(), written, h),
        ));
    }
    Ok(busy_seen)
}

fn part_b(ctx: &mut Ctx) {
    let maxlen = ctx.tier.pick(4, 5);
    let n = HOPS.len();
    let mut total = 0u64;
    for len in 1..=maxlen {
        for idx in 0..n.pow(len as u32) {
            let mut h = vec![];
            let mut x = idx;
            for _ in 0..len {
                h.push(HOPS[x % n]);
                x /= n;
            }
            total += 1;
            match pt::guard(|| run_history(&h)) {
                Ok(busy) => {
                    ctx.case(if busy { Some(hash64(&h)) } else { None });
                    ctx.class("b:enumerated-history");
                    if idx % 499 == 0 {
                        ctx.sample(|| json!({"history": hops_json(&h)}));
                    }
                }
                Err(f) => {
                    ctx.case(None);
                    ctx.violation(&f.key, &f.what, "c07b", json!({"history": hops_json(&h)}));
                }
            }
        }
    }
    ctx.section("b_exhaustive", json!({"histories": total, "max_len": maxlen, "ops": n, "exhaustive": true}));
    let strat = prop::collection::vec(0..n, 5..=12).prop_map(|ix| ix.into_iter().map(|i| HOPS[i]).collect::<Vec<_>>());
    let cases = ctx.tier.pick(32_000, 200_000);
    let r = pt::check(ctx, "c07b-random", cases, strat, |ctx, h| {
        let busy = run_history(h)?;
        ctx.case(if busy { Some(hash64(h)) } else { None });
        ctx.class("b:random-history");
        ctx.sample(|| json!({"history": hops_json(h)}));
        Ok(())
    });
    if let Some((h, f)) = r {
        ctx.violation(&f.key, &f.what, "c07b", json!({"history": hops_json(&h)}));
    }
}

// ------------------------------------------------------------------------------------------------
// (c) threads sharing one connection against a live scripted server

#[derive(Clone, Copy, Debug, PartialEq, Eq, Hash)]
pub enum TOp {
    Call,
    More(u8),
    Oneway,
    Yield,
}

struct LiveServer {
    handle: Option<std::thread::JoinHandle<Result<Vec<Value>, String>>>,
}

/// Reads NUL-terminated requests; answers {tok} (k continues replies first when `more`).
fn live_server(sock: UnixStream) -> LiveServer {
    let handle = std::thread::spawn(move || {
        let mut w = sock.try_clone().map_err(|e| e.to_string())?;
        let mut r = BufReader::new(sock);
        let mut log = vec![];
        loop {
            let mut buf = vec![];
            let n = r.read_until(0, &mut buf).map_err(|e| e.to_string())?;
            if n == 0 {
                break;
            }
            if buf.last() != Some(&0) {
                return Err(format!("truncated request at EOF: {:?}", String::from_utf8_lossy(&buf)));
            }
            buf.pop();
            let req: Value = serde_json::from_slice(&buf)
                .map_err(|e| format!("request is not intact JSON ({}): {:?}", e, String::from_utf8_lossy(&buf)))?;
            let tok = req["parameters"]["tok"].clone();
            let k = req["parameters"]["k"].as_u64().unwrap_or(0);
            let oneway = req["oneway"] == json!(true);
            let more = req["more"] == json!(true);
            log.push(req);
            if oneway {
                continue;
            }
            let mut out = vec![];
            if more {
                for j in 0..k {
                    out.extend_from_slice(json!({"continues": true, "parameters": {"tok": tok, "j": j}}).to_string().as_bytes());
                    out.push(0);
                }
            }
            out.extend_from_slice(json!({"parameters": {"tok": tok, "j": k}}).to_string().as_bytes());
            out.push(0);
            if w.write_all(&out).is_err() {
                break;
            }
        }
        Ok(log)
    });
    LiveServer { handle: Some(handle) }
}

/// Thread A's plain call is outstanding (the peer holds its reply back); thread B's call on the shared
/// connection fails at once with a busy error and writes nothing - it does not wait for A's reply.
pub fn run_busy_while_call_outstanding() -> Result<(), Fail> {
    use std::io::{BufRead, Write};
    let (client, server) = UnixStream::pair().map_err(|e| Fail::new("HARNESS/socketpair", e.to_string()))?;
    let mut c = varlink::Connection::default();
    let r: Box<dyn std::io::Read + Send + Sync> = Box::new(client.try_clone().map_err(|e| Fail::new("HARNESS/clone", e.to_string()))?);
    c.reader = Some(BufReader::new(r));
    c.writer = Some(Box::new(client));
    let conn = std::sync::Arc::new(std::sync::RwLock::new(c));
    let (release_tx, release_rx) = std::sync::mpsc::channel::<()>();
    let (arrived_tx, arrived_rx) = std::sync::mpsc::channel::<usize>();
    // the peer: reads requests, reports each arrival, answers the first one only when told to
    let peer = std::thread::spawn(move || {
        let mut w = server.try_clone().ok()?;
        let mut r = BufReader::new(server);
        let mut n = 0usize;
        loop {
            let mut buf = vec![];
            match r.read_until(0, &mut buf) {
                Ok(0) | Err(_) => break,
                Ok(_) => {}
            }
            n += 1;
            let _ = arrived_tx.send(n);
            if n == 1 {
                let _ = release_rx.recv_timeout(Duration::from_secs(10));
            }
            let req: Value = serde_json::from_slice(&buf[..buf.len().saturating_sub(1)]).unwrap_or(Value::Null);
            let mut out = json!({"parameters": {"tok": req["parameters"]["tok"]}}).to_string().into_bytes();
            out.push(0);
            if w.write_all(&out).is_err() {
                break;
            }
        }
        Some(n)
    });
    let ca = conn.clone();
    let a = std::thread::spawn(move || vcall(&ca, "org.x.A", json!({"tok": "A"})).call().map_err(|e| e.kind().clone()));
    // wait until A's request is with the peer
    if arrived_rx.recv_timeout(Duration::from_secs(5)).is_err() {
        let _ = release_tx.send(());
        return Err(Fail::new("HARNESS/a-did-not-send", "thread A's request did not arrive".to_string()));
    }
    let cb = conn.clone();
    let (done_tx, done_rx) = std::sync::mpsc::channel();
    let b = std::thread::spawn(move || {
        let r = vcall(&cb, "org.x.B", json!({"tok": "B"})).call().map_err(|e| e.kind().clone());
        let _ = done_tx.send(r);
    });
    let verdict = match done_rx.recv_timeout(Duration::from_secs(2)) {
        Ok(Err(varlink::ErrorKind::ConnectionBusy)) => Ok(()),
        Ok(other) => Err(Fail::new(
            "threads/no-busy-error",
            format!("a call from another thread while a plain call was outstanding returned {:?} instead of a busy error", other),
        )),
        Err(_) => Err(Fail::new(
            "threads/busy-call-blocks",
            "a call from another thread while a plain call was outstanding did not return within 2 s (it must fail immediately with a busy error, not wait for the other call's reply)".to_string(),
        )),
    };
    let _ = release_tx.send(());
    let ra = a.join().map_err(|_| Fail::new("threads/panic", "thread A panicked".to_string()))?;
    let _ = b.join();
    drop(conn);
    let seen = peer.join().ok().flatten().unwrap_or(0);
    verdict?;
    match ra {
        Ok(v) if v["tok"] == "A" => {}
        other => return Err(Fail::new("threads/foreign-reply", format!("thread A's call returned {:?}", other))),
    }
    if seen != 1 {
        return Err(Fail::new("threads/busy-wrote-bytes", format!("the peer received {} requests, only thread A's may reach it", seen)));
    }
    Ok(())
}

pub fn run_threads(lists: &[Vec<TOp>]) -> Result<usize, Fail> {
    let (client, server) = UnixStream::pair().expect("socketpair");
    let srv = live_server(server);
    let mut c = varlink::Connection::default();
    let rd: Box<dyn std::io::Read + Send + Sync> = Box::new(client.try_clone().expect("clone"));
    c.reader = Some(BufReader::new(rd));
    c.writer = Some(Box::new(client.try_clone().expect("clone")));
    let conn = Arc::new(RwLock::new(c));
    let busy = Arc::new(AtomicUsize::new(0));
    let sent = Arc::new(AtomicUsize::new(0));
    let fails: Arc<Mutex<Vec<Fail>>> = Arc::new(Mutex::new(vec![]));
    std::thread::scope(|s| {
        for (t, ops) in lists.iter().enumerate() {
            let conn = conn.clone();
            let busy = busy.clone();
            let sent = sent.clone();
            let fails = fails.clone();
            s.spawn(move || {
                for (i, op) in ops.iter().enumerate() {
                    let tok = (t as u64) * 1_000_000 + i as u64;
                    let is_busy = |e: &varlink::Error| *e.kind() == varlink::ErrorKind::ConnectionBusy;
                    match op {
                        TOp::Yield => std::thread::yield_now(),
                        TOp::Call => match vcall(&conn, "org.x.T", json!({"tok": tok, "k": 0})).call() {
                            Ok(v) if v["tok"] == tok => {
                                sent.fetch_add(1, Ordering::SeqCst);
                            }
                            Err(e) if is_busy(&e) => {
                                busy.fetch_add(1, Ordering::SeqCst);
                            }
                            other => fails.lock().unwrap().push(Fail::new(
                                "threads/foreign-reply",
                                format!("thread {} call tok {} got {:?}", t, tok, other.map_err(|e| kind_name(&e))),
                            )),
                        },
                        TOp::Oneway => match vcall(&conn, "org.x.T", json!({"tok": tok, "k": 0})).oneway() {
                            Ok(()) => {
                                sent.fetch_add(1, Ordering::SeqCst);
                            }
                            Err(e) if is_busy(&e) => {
                                busy.fetch_add(1, Ordering::SeqCst);
                            }
                            Err(e) => fails.lock().unwrap().push(Fail::new("threads/oneway-error", format!("thread {} oneway: {}", t, kind_name(&e)))),
                        },
                        TOp::More(k) => {
                            let mut c = vcall(&conn, "org.x.T", json!({"tok": tok, "k": *k}));
                            match c.more() {
                                Err(e) if is_busy(&e) => {
                                    busy.fetch_add(1, Ordering::SeqCst);
                                }
                                Err(e) => fails.lock().unwrap().push(Fail::new("threads/more-error", format!("thread {} more(): {}", t, kind_name(&e)))),
                                Ok(it) => {
                                    sent.fetch_add(1, Ordering::SeqCst);
                                    let mut j = 0u64;
                                    for item in it {
                                        match item {
                                            Ok(v) if v["tok"] == tok && v["j"] == j => {}
                                            other => {
                                                fails.lock().unwrap().push(Fail::new(
                                                    "threads/foreign-stream-item",
                                                    format!("thread {} stream tok {} item {} got {:?}", t, tok, j, other.map_err(|e| kind_name(&e))),
                                                ));
                                                break;
                                            }
                                        }
                                        j += 1;
                                        std::thread::yield_now();
                                    }
                                    if j != *k as u64 + 1 {
                                        fails.lock().unwrap().push(Fail::new("threads/stream-length", format!("thread {} stream tok {} yielded {} items, expected {}", t, tok, j, k + 1)));
                                    }
                                }
                            }
                        }
                    }
                }
            });
        }
    });
    if let Some(f) = fails.lock().unwrap().first().cloned() {
        return Err(f);
    }
    // afterwards: idle and usable
    {
        let g = conn.read().unwrap();
        if g.reader.is_none() || g.writer.is_none() {
            return Err(Fail::new("threads/not-idle-afterwards", "all threads finished but the connection's slots are not back"));
        }
    }
    match vcall(&conn, "org.x.T", json!({"tok": 77, "k": 0})).call() {
        Ok(v) if v["tok"] == 77 => {}
        other => {
            return Err(Fail::new("threads/unusable-afterwards", format!("a call after the round returned {:?}", other.map_err(|e| kind_name(&e)))));
        }
    }
    drop(conn);
    let _ = client.shutdown(std::net::Shutdown::Both);
    let mut srv = srv;
    let log = srv.handle.take().unwrap().join().unwrap_or_else(|_| Err("server thread panicked".into()));
    match log {
        Err(e) => Err(Fail::new("threads/garbled-wire", e)),
        Ok(log) => {
            let want = sent.load(Ordering::SeqCst) + 1;
            if log.len() != want {
                return Err(Fail::new("threads/request-count", format!("server saw {} requests, clients completed {} sends", log.len(), want)));
            }
            Ok(busy.load(Ordering::SeqCst))
        }
    }
}

fn part_c(ctx: &mut Ctx) {
    for k in 0..ctx.tier.pick(20, 300) {
        ctx.case(Some(hash64(&("busy-while-call-outstanding", k))));
        ctx.class("c:second-thread-while-a-plain-call-waits-for-its-reply");
        if let Err(f) = pt::guard(run_busy_while_call_outstanding) {
            ctx.violation(&f.key, &f.what, "c07c", json!({"busy_while_call_outstanding": true}));
            break;
        }
    }
    let top = prop_oneof![
        3 => Just(TOp::Call),
        2 => (0u8..3).prop_map(TOp::More),
        1 => Just(TOp::Oneway),
        2 => Just(TOp::Yield),
    ];
    let strat = prop::collection::vec(prop::collection::vec(top, 1..12), 2..=8);
    let cases = ctx.tier.pick(2_000, 20_000);
    let r = pt::check_with(ctx, "c07c", cases, 200, 60_000, strat, |ctx, lists| {
        let busy = run_threads(lists)?;
        ctx.case(if busy > 0 { Some(hash64(lists)) } else { None });
        ctx.class(if busy > 0 { "c:round-with-busy-rejection" } else { "c:round-without-contention" });
        ctx.sample(|| json!({"threads": lists.iter().map(|l| l.iter().map(|o| format!("{:?}", o)).collect::<Vec<_>>()).collect::<Vec<_>>()}));
        Ok(())
    });
    if let Some((lists, f)) = r {
        ctx.violation(
            &f.key,
            &f.what,
            "c07c",
            json!({"threads": lists.iter().map(|l| l.iter().map(|o| format!("{:?}", o)).collect::<Vec<_>>()).collect::<Vec<_>>()}),
        );
    }
}

// ------------------------------------------------------------------------------------------------
// (d) a read fault between a request and its reply: the late reply must go to nobody else

#[derive(Clone, Debug)]
pub struct FaultCase {
    pub prior: u8,
    /// None: plain call; Some(j): `more` stream, j items consumed before the fault
    pub more_items: Option<u8>,
    pub kind: u8,
    pub late_reply: bool,
    /// later operations: 0 call, 1 more (two items), 2 oneway
    pub later: Vec<u8>,
}

fn fault_json(c: &FaultCase) -> Value {
    json!({"read_fault": {"prior": c.prior, "more_items": c.more_items, "kind": c.kind, "late_reply": c.late_reply, "later": c.later}})
}

fn fault_from(v: &Value) -> FaultCase {
    let f = &v["read_fault"];
    FaultCase {
        prior: f["prior"].as_u64().unwrap_or(0) as u8,
        more_items: f["more_items"].as_u64().map(|x| x as u8),
        kind: f["kind"].as_u64().unwrap_or(0) as u8,
        late_reply: f["late_reply"].as_bool().unwrap_or(true),
        later: f["later"].as_array().map(|a| a.iter().map(|x| x.as_u64().unwrap_or(0) as u8).collect()).unwrap_or_default(),
    }
}

pub fn run_read_fault(c: &FaultCase) -> Result<(), Fail> {
    use std::sync::atomic::Ordering::SeqCst;
    let (mut fake, armed, kind) = Fake::with_faulty_reader();
    kind.store(c.kind as u32, SeqCst);
    for i in 0..c.prior {
        let tok = 100 + i as u64;
        fake.push_replies(&[json!({"parameters": {"tok": tok}})]);
        match vcall(&fake.conn, "org.x.Op", json!({"tok": tok})).call() {
            Ok(v) if v["tok"] == tok => {}
            other => return Err(Fail::new("fault/prior-call", format!("call before any fault: {:?}", other.map_err(|e| kind_name(&e))))),
        }
    }
    // the call that meets the fault
    let victim = 500u64;
    let mut a = vcall(&fake.conn, "org.x.Op", json!({"tok": victim}));
    let rest: Vec<Value>;
    let outcome: Result<Value, String> = match c.more_items {
        None => {
            armed.store(1, SeqCst);
            rest = vec![json!({"parameters": {"tok": victim}})];
            let r = a.call().map_err(|e| kind_name(&e));
            r
        }
        Some(j) => {
            let items: Vec<Value> = (0..j).map(|x| json!({"continues": true, "parameters": {"tok": victim, "j": x}})).collect();
            fake.push_replies(&items);
            if let Err(e) = a.more() {
                return Err(Fail::new("fault/more-failed", format!("more() on an idle connection failed: {}", kind_name(&e))));
            }
            for x in 0..j {
                match a.next() {
                    Some(Ok(v)) if v["tok"] == victim && v["j"] == x as u64 => {}
                    other => return Err(Fail::new("fault/iterator-item", format!("item {} before the fault: {:?}", x, other.map(|r| r.map_err(|e| kind_name(&e)))))),
                }
            }
            armed.store(1, SeqCst);
            rest = vec![json!({"continues": true, "parameters": {"tok": victim, "j": j}}), json!({"parameters": {"tok": victim, "j": j as u64 + 1}})];
            match a.next() {
                Some(r) => r.map_err(|e| kind_name(&e)),
                None => Err("None".into()),
            }
        }
    };
    if let Ok(v) = &outcome {
        // nothing was readable: a success can only be invented
        return Err(Fail::new("fault/success-without-reply", format!("the read of the reply failed ({:?}) yet the call returned {}", crate::fake::FAULT_KINDS[c.kind as usize % 4], v)));
    }
    armed.store(0, SeqCst);
    if c.late_reply {
        // the service answers late: these bytes belong to the victim call and to nobody else
        let _ = fake.try_push_replies(&rest);
    }
    for (i, op) in c.later.iter().enumerate() {
        let tok = 900 + i as u64;
        let mut b = vcall(&fake.conn, "org.x.Op", json!({"tok": tok}));
        let foreign = |v: &Value| v["tok"] == victim;
        match op {
            0 => {
                let _ = fake.try_push_replies(&[json!({"parameters": {"tok": tok}})]);
                if let Ok(v) = b.call() {
                    if foreign(&v) {
                        return Err(Fail::new("fault/late-reply-delivered-to-another-call", format!("call #{} after a failed read (tok {}) was handed {} - the late reply to the earlier call (case {:?})", i, tok, v, c)));
                    }
                }
            }
            1 => {
                let _ = fake.try_push_replies(&[json!({"continues": true, "parameters": {"tok": tok, "j": 0}}), json!({"parameters": {"tok": tok, "j": 1}})]);
                if b.more().is_ok() {
                    for _ in 0..4 {
                        match b.next() {
                            Some(Ok(v)) if foreign(&v) => {
                                return Err(Fail::new("fault/late-reply-delivered-to-another-call", format!("`more` call #{} after a failed read (tok {}) was handed {} - a late reply to the earlier call (case {:?})", i, tok, v, c)))
                            }
                            Some(Ok(_)) => {}
                            _ => break,
                        }
                    }
                }
            }
            _ => {
                let _ = b.oneway();
            }
        }
    }
    Ok(())
}

// ------------------------------------------------------------------------------------------------
// (e) a write fault reported after the request has reached the peer: the peer answers, and that reply
// must go to nobody else

#[derive(Clone, Debug)]
pub struct WriteFaultCase {
    pub prior: u8,
    /// 0 call, 1 more, 2 oneway
    pub victim_mode: u8,
    /// 1: flush reports the fault, 2: the write does
    pub site: u8,
    pub kind: u8,
    pub later: Vec<u8>,
}

fn wfault_json(c: &WriteFaultCase) -> Value {
    json!({"write_fault": {"prior": c.prior, "victim_mode": c.victim_mode, "site": c.site, "kind": c.kind, "later": c.later}})
}

fn wfault_from(v: &Value) -> WriteFaultCase {
    let f = &v["write_fault"];
    WriteFaultCase {
        prior: f["prior"].as_u64().unwrap_or(0) as u8,
        victim_mode: f["victim_mode"].as_u64().unwrap_or(0) as u8,
        site: f["site"].as_u64().unwrap_or(1) as u8,
        kind: f["kind"].as_u64().unwrap_or(0) as u8,
        later: f["later"].as_array().map(|a| a.iter().map(|x| x.as_u64().unwrap_or(0) as u8).collect()).unwrap_or_default(),
    }
}

pub fn run_write_fault(c: &WriteFaultCase) -> Result<(), Fail> {
    use std::sync::atomic::Ordering::SeqCst;
    let (mut fake, armed, kind) = Fake::with_faulty_writer();
    kind.store(c.kind as u32, SeqCst);
    for i in 0..c.prior {
        let tok = 100 + i as u64;
        fake.push_replies(&[json!({"parameters": {"tok": tok}})]);
        match vcall(&fake.conn, "org.x.Op", json!({"tok": tok})).call() {
            Ok(v) if v["tok"] == tok => {}
            other => return Err(Fail::new("fault/prior-call", format!("call before any fault: {:?}", other.map_err(|e| kind_name(&e))))),
        }
    }
    let victim = 500u64;
    let mut a = vcall(&fake.conn, "org.x.Op", json!({"tok": victim}));
    armed.store(c.site as u32, SeqCst);
    // the peer has the request and answers it; if the client reports the send as failed, these replies
    // belong to a call that is over
    let failed = match c.victim_mode {
        0 => {
            let _ = fake.try_push_replies(&[json!({"parameters": {"tok": victim}})]);
            a.call().is_err()
        }
        1 => {
            let _ = fake.try_push_replies(&[json!({"continues": true, "parameters": {"tok": victim, "j": 0}}), json!({"parameters": {"tok": victim, "j": 1}})]);
            match a.more() {
                Err(_) => true,
                Ok(it) => {
                    // the send was not reported as failed: the stream is the victim's own
                    for _ in it {}
                    false
                }
            }
        }
        _ => a.oneway().is_err(),
    };
    armed.store(0, SeqCst);
    if !failed {
        // the fault was absorbed (the call went through): nothing is left over, the ordinary rules apply
        return Ok(());
    }
    for (i, op) in c.later.iter().enumerate() {
        let tok = 900 + i as u64;
        let mut b = vcall(&fake.conn, "org.x.Op", json!({"tok": tok}));
        let foreign = |v: &Value| v["tok"] == victim;
        match op {
            0 => {
                let _ = fake.try_push_replies(&[json!({"parameters": {"tok": tok}})]);
                if let Ok(v) = b.call() {
                    if foreign(&v) {
                        return Err(Fail::new(
                            "fault/reply-to-failed-send-delivered-to-another-call",
                            format!("call #{} (tok {}) after a send that was reported as failed was handed {} - the reply to the earlier call (case {:?})", i, tok, v, c),
                        ));
                    }
                }
            }
            1 => {
                let _ = fake.try_push_replies(&[json!({"continues": true, "parameters": {"tok": tok, "j": 0}}), json!({"parameters": {"tok": tok, "j": 1}})]);
                if b.more().is_ok() {
                    for _ in 0..4 {
                        match b.next() {
                            Some(Ok(v)) if foreign(&v) => {
                                return Err(Fail::new(
                                    "fault/reply-to-failed-send-delivered-to-another-call",
                                    format!("`more` call #{} (tok {}) after a send that was reported as failed was handed {} - a reply to the earlier call (case {:?})", i, tok, v, c),
                                ))
                            }
                            Some(Ok(_)) => {}
                            _ => break,
                        }
                    }
                }
            }
            _ => {
                let _ = b.oneway();
            }
        }
    }
    Ok(())
}

fn part_e(ctx: &mut Ctx) {
    let mut total = 0u64;
    for prior in 0..=2u8 {
        for victim_mode in 0..3u8 {
            for site in 1..=2u8 {
                for kind in 0..4u8 {
                    for later in [vec![0u8], vec![1], vec![2, 0], vec![0, 0], vec![1, 0], vec![0, 1, 0]] {
                        let c = WriteFaultCase { prior, victim_mode, site, kind, later };
                        total += 1;
                        ctx.case(if c.victim_mode != 2 { Some(hash64(&wfault_json(&c).to_string())) } else { None });
                        ctx.class("e:write-fault-after-the-request-went-out");
                        if total % 97 == 0 {
                            ctx.sample(|| wfault_json(&c));
                        }
                        if let Err(f) = pt::guard(|| run_write_fault(&c)) {
                            ctx.violation(&f.key, &f.what, "c07e", wfault_json(&c));
                        }
                    }
                }
            }
        }
    }
    ctx.section("e_write_faults", json!({"cases": total, "exhaustive": true, "sites": ["flush", "write"], "fault_kinds": ["TimedOut", "WouldBlock", "ConnectionReset", "Other"]}));
}

fn part_d(ctx: &mut Ctx) {
    // every combination of the small dimensions
    let mut total = 0u64;
    for prior in 0..=2u8 {
        for more_items in [None, Some(0u8), Some(1), Some(3)] {
            for kind in 0..4u8 {
                for late_reply in [true, false] {
                    for later in [vec![0u8], vec![1], vec![2, 0], vec![0, 0], vec![1, 0], vec![0, 1, 0]] {
                        let c = FaultCase { prior, more_items, kind, late_reply, later };
                        total += 1;
                        ctx.case(if c.late_reply { Some(hash64(&fault_json(&c).to_string())) } else { None });
                        ctx.class("d:read-fault-between-request-and-reply");
                        if total % 97 == 0 {
                            ctx.sample(|| fault_json(&c));
                        }
                        if let Err(f) = pt::guard(|| run_read_fault(&c)) {
                            ctx.violation(&f.key, &f.what, "c07d", fault_json(&c));
                        }
                    }
                }
            }
        }
    }
    ctx.section("d_read_faults", json!({"cases": total, "exhaustive": true, "fault_kinds": ["TimedOut", "WouldBlock", "ConnectionReset", "Other"]}));
}

fn top_from(s: &str) -> Option<TOp> {
    match s {
        "Call" => Some(TOp::Call),
        "Oneway" => Some(TOp::Oneway),
        "Yield" => Some(TOp::Yield),
        _ => s.strip_prefix("More(").and_then(|r| r.strip_suffix(')')).and_then(|k| k.parse().ok()).map(TOp::More),
    }
}

fn replay(ctx: &mut Ctx, v: &Value) {
    let cj = &v["case"];
    ctx.case(None);
    ctx.force_sample(cj.clone());
    let res = if cj.get("read_fault").is_some() {
        run_read_fault(&fault_from(cj))
    } else if cj.get("write_fault").is_some() {
        run_write_fault(&wfault_from(cj))
    } else if let Some(r) = cj.get("reply") {
        let mut fake = Fake::new();
        fake.push_replies(std::slice::from_ref(r));
        let got = vcall(&fake.conn, "org.x.M", json!({"a": 1})).call();
        check_outcome("outcome", &expected_outcome(r), &got)
    } else if let Some(h) = cj.get("history").and_then(|h| h.as_array()) {
        let h: Vec<HOp> = h.iter().filter_map(|x| x.as_str().and_then(hop_from)).collect();
        run_history(&h).map(|_| ())
    } else {
        let lists: Vec<Vec<TOp>> = cj["threads"]
            .as_array()
            .map(|a| a.iter().map(|l| l.as_array().map(|x| x.iter().filter_map(|s| s.as_str().and_then(top_from)).collect()).unwrap_or_default()).collect())
            .unwrap_or_default();
        let mut r = Ok(());
        for _ in 0..50 {
            if let Err(f) = run_threads(&lists) {
                r = Err(f);
                break;
            }
        }
        r
    };
    if let Err(f) = res {
        ctx.violation(&f.key, &f.what, "c07-replay", cj.clone());
    }
}

pub fn run(args: &Args) -> ! {
    let mut ctx = Ctx::new(args, "exploration");
    ctx.rule = RULE.into();
    ctx.assumptions = vec![
        "replies with continues:true to a non-`more` call are excluded (non-conforming service)".into(),
        "for a standard error whose parameter member is ill-typed only the error kind is asserted".into(),
        "after an iterator is dropped mid-stream nothing further is asserted".into(),
        "(c) samples OS schedules; its oracle is schedule-independent".into(),
        "(d) after a failed read of a reply only two things are asserted: the call does not report success, and the late reply is handed to no other call".into(),
        "(e) after a send that reported a fault although the request bytes went out only one thing is asserted: the peer's reply to that request is handed to no other call (a client that absorbs the fault and completes the call is fine)".into(),
    ];
    if let Some(p) = &args.replay {
        let v = load_replay(p);
        replay(&mut ctx, &v);
        ctx.finish();
    }
    part_a(&mut ctx);
    ctx.bump_sample_cap(5);
    part_b(&mut ctx);
    ctx.bump_sample_cap(5);
    part_c(&mut ctx);
    part_d(&mut ctx);
    part_e(&mut ctx);
    ctx.exhaustive = Some(false);
    ctx.finish()
}

#[allow(dead_code)]
fn _unused(_: &dyn BufRead, _: Sym) {}
