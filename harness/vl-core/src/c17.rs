//! C17 — wire data types survive a JSON round trip in both directions.

use proptest::prelude::*;
use serde::de::DeserializeOwned;
use serde::Serialize;
use serde_json::{json, Map, Value};
use std::borrow::Cow;
use std::collections::HashMap;
use std::fmt::Debug;
use varlink::{
    GetInterfaceDescriptionArgs, GetInterfaceDescriptionReply, Reply, Request, ServiceInfo,
    StringHashMap, StringHashSet,
};
use vl_model::ctx::{hash64, load_replay, Args, Ctx};
use vl_model::jsongen::{json_string, json_value};
use vl_model::pt::{self, Fail};

pub const RULE: &str = "values of Request, Reply, ServiceInfo, GetInterfaceDescriptionArgs/Reply, StringHashSet and \
StringHashMap<T> (T in int, string, set, list of sets, JSON value; 0..8 keys incl. empty, non-ASCII and \
escape-requiring ones) x serialisers {to_string, to_vec, to_value} x deserialisers {from_str, from_slice, \
from_reader, from_value} (all 12 pairs); plus arbitrary valid request / reply JSON objects deserialised and \
serialised back. Oracles: de(ser(v)) == v; unset optional members absent from the output; a set is written as an \
object of empty objects; ser(de(obj)) equals obj after dropping null-valued optional members. Floats are drawn \
from those that survive serde_json's own text round trip (it is built without `float_roundtrip`); a Rust-side \
`parameters: Some(Null)` is excluded (JSON null is the absent optional). Reply error names include the four standard ones, names of other interfaces sharing their last element, and near-misses. Non-trivial: a non-empty set / map, or a \
message with both set and unset optional members; distinct by serialised value.";

fn fail(ty: &str, what: &str, detail: String) -> Fail {
    Fail::new(format!("serde/{}/{}", ty, what), detail)
}

/// All 3 x 4 serialiser/deserialiser pairs. Returns the `to_value` form.
pub fn roundtrip<T>(ty: &str, v: &T) -> Result<Value, Fail>
where
    T: Serialize + DeserializeOwned + PartialEq + Debug,
{
    let text = serde_json::to_string(v).map_err(|e| fail(ty, "to_string", e.to_string()))?;
    let bytes = serde_json::to_vec(v).map_err(|e| fail(ty, "to_vec", e.to_string()))?;
    let value = serde_json::to_value(v).map_err(|e| fail(ty, "to_value", e.to_string()))?;
    if text.as_bytes() != &bytes[..] {
        return Err(fail(ty, "to_string-vs-to_vec", format!("{} vs {}", text, String::from_utf8_lossy(&bytes))));
    }
    let via_value_text = value.to_string();
    let forms: [(&str, &str); 3] = [("to_string", &text), ("to_vec", std::str::from_utf8(&bytes).unwrap()), ("to_value", &via_value_text)];
    for (sname, s) in forms {
        let chk = |dname: &str, r: Result<T, serde_json::Error>| -> Result<(), Fail> {
            match r {
                Ok(back) if &back == v => Ok(()),
                Ok(back) => Err(fail(ty, &format!("{}->{}", sname, dname), format!("{:?} came back as {:?} (text {})", v, back, s))),
                Err(e) => Err(fail(ty, &format!("{}->{}", sname, dname), format!("{:?} serialised to {} cannot be read back: {}", v, s, e))),
            }
        };
        chk("from_str", serde_json::from_str::<T>(s))?;
        chk("from_slice", serde_json::from_slice::<T>(s.as_bytes()))?;
        chk("from_reader", serde_json::from_reader::<_, T>(s.as_bytes()))?;
        let val: Value = if sname == "to_value" { value.clone() } else { serde_json::from_str(s).map_err(|e| fail(ty, "output-not-json", e.to_string()))? };
        chk("from_value", serde_json::from_value::<T>(val))?;
    }
    Ok(value)
}

fn exact_float() -> impl Strategy<Value = f64> {
    prop_oneof![
        (-1_000_000i64..1_000_000, 0u32..12).prop_map(|(m, e)| m as f64 / (1u64 << e) as f64),
        Just(0.1),
        Just(-0.0),
        Just(1e300),
        Just(5e-324),
        Just(1.5),
        Just(123456.789),
    ]
    .prop_filter("float must survive serde_json's text round trip", |f| {
        serde_json::to_string(f).ok().and_then(|s| serde_json::from_str::<f64>(&s).ok()).map(|g| g.to_bits() == f.to_bits()).unwrap_or(false)
    })
}

/// JSON values whose floats survive serde_json's own text round trip.
fn stable_json(depth: u32) -> impl Strategy<Value = Value> {
    json_value(depth).prop_map(|v| stabilise(&v))
}

fn stabilise(v: &Value) -> Value {
    match v {
        Value::Number(n) if n.is_f64() => {
            let f = n.as_f64().unwrap();
            let back = serde_json::from_str::<f64>(&serde_json::to_string(&f).unwrap()).unwrap();
            if back.to_bits() == f.to_bits() {
                v.clone()
            } else {
                json!(0.5)
            }
        }
        Value::Array(a) => Value::Array(a.iter().map(stabilise).collect()),
        Value::Object(o) => Value::Object(o.iter().map(|(k, x)| (k.clone(), stabilise(x))).collect()),
        _ => v.clone(),
    }
}

fn opt_bool() -> impl Strategy<Value = Option<bool>> {
    prop_oneof![Just(None), Just(Some(true)), Just(Some(false))]
}

fn opt_params() -> impl Strategy<Value = Option<Value>> {
    prop_oneof![
        2 => Just(None),
        4 => stable_json(3).prop_filter("Some(Null) is not a Rust-side value", |v| !v.is_null()).prop_map(Some),
    ]
}

fn method_string() -> impl Strategy<Value = String> {
    prop_oneof![
        3 => "[a-z]{1,6}(\\.[a-z0-9-]{1,6}){1,3}\\.[A-Z][a-zA-Z0-9]{0,8}",
        1 => json_string(),
    ]
}

/// error names of replies: arbitrary, the four standard ones, and names of other interfaces that
/// share a standard error's last element (`org.varlink.resolver.InterfaceNotFound` is a real one)
const ERROR_NAMES: [&str; 12] = [
    "org.varlink.service.InterfaceNotFound",
    "org.varlink.service.InvalidParameter",
    "org.varlink.service.MethodNotFound",
    "org.varlink.service.MethodNotImplemented",
    "org.varlink.resolver.InterfaceNotFound",
    "org.example.net.InvalidParameter",
    "a.b.MethodNotFound",
    "io.systemd.Foo.MethodNotImplemented",
    "org.varlink.service.interfacenotfound",
    "org.varlink.service.InvalidParameterX",
    "InterfaceNotFound",
    "org.varlink.service.",
];

fn error_name() -> impl Strategy<Value = String> {
    prop_oneof![
        3 => method_string(),
        2 => prop::sample::select(ERROR_NAMES.to_vec()).prop_map(String::from),
    ]
}

fn keys() -> impl Strategy<Value = Vec<String>> {
    prop::collection::vec(json_string(), 0..=8)
}

fn set_of(ks: Vec<String>) -> StringHashSet {
    let mut s = StringHashSet::new();
    for k in ks {
        s.insert(k);
    }
    s
}

fn check_none_omitted(ty: &str, obj: &Value, fields: &[(&str, bool)]) -> Result<(), Fail> {
    let o = obj.as_object().ok_or_else(|| fail(ty, "not-an-object", obj.to_string()))?;
    for (k, present) in fields {
        if o.contains_key(*k) != *present {
            return Err(fail(
                ty,
                if *present { "set-member-missing" } else { "unset-member-written" },
                format!("member `{}` should be {} in {}", k, if *present { "present" } else { "omitted" }, obj),
            ));
        }
    }
    Ok(())
}

fn check_set_shape(ty: &str, v: &Value, want: &StringHashSet) -> Result<(), Fail> {
    let o = v.as_object().ok_or_else(|| fail(ty, "set-not-object", v.to_string()))?;
    if o.len() != want.len() || !o.iter().all(|(k, x)| want.contains(k) && x.as_object().map(|m| m.is_empty()).unwrap_or(false)) {
        return Err(fail(ty, "set-shape", format!("set {:?} serialised as {} (must map each element to an empty object)", want, v)));
    }
    Ok(())
}

#[derive(Clone, Debug)]
enum Case {
    Req(Option<bool>, Option<bool>, Option<bool>, String, Option<Value>),
    Rep(Option<bool>, Option<String>, Option<Value>),
    Info([String; 4], Vec<String>),
    DescArgs(String),
    DescReply(Option<String>),
    Set(Vec<String>),
    MapInt(Vec<(String, i64)>),
    MapStr(Vec<(String, String)>),
    MapSet(Vec<(String, Vec<String>)>),
    MapVecSet(Vec<(String, Vec<Vec<String>>)>),
    MapVal(Vec<(String, Value)>),
    MapFloat(Vec<(String, f64)>),
    /// JSON object that is a valid request
    ReqObj(Value),
    /// JSON object that is a valid reply
    RepObj(Value),
}

fn case_strategy() -> impl Strategy<Value = Case> {
    let flagv = || prop_oneof![Just(None), Just(Some(Value::Null)), Just(Some(json!(true))), Just(Some(json!(false)))];
    let req_obj = (method_string(), flagv(), flagv(), flagv(), prop_oneof![Just(None), stable_json(3).prop_map(Some)]).prop_map(|(m, a, b, c, p)| {
        let mut o = Map::new();
        o.insert("method".into(), json!(m));
        for (k, v) in [("more", a), ("oneway", b), ("upgrade", c)] {
            if let Some(v) = v {
                o.insert(k.into(), v);
            }
        }
        if let Some(p) = p {
            o.insert("parameters".into(), p);
        }
        Case::ReqObj(Value::Object(o))
    });
    let rep_obj = (flagv(), prop_oneof![Just(None), Just(Some(Value::Null)), error_name().prop_map(|s| Some(json!(s)))], prop_oneof![Just(None), stable_json(3).prop_map(Some)]).prop_map(|(c, e, p)| {
        let mut o = Map::new();
        if let Some(c) = c {
            o.insert("continues".into(), c);
        }
        if let Some(e) = e {
            o.insert("error".into(), e);
        }
        if let Some(p) = p {
            o.insert("parameters".into(), p);
        }
        Case::RepObj(Value::Object(o))
    });
    prop_oneof![
        4 => (opt_bool(), opt_bool(), opt_bool(), method_string(), opt_params()).prop_map(|(a, b, c, m, p)| Case::Req(a, b, c, m, p)),
        4 => (opt_bool(), prop_oneof![Just(None), error_name().prop_map(Some)], opt_params()).prop_map(|(c, e, p)| Case::Rep(c, e, p)),
        1 => ([json_string(), json_string(), json_string(), json_string()], prop::collection::vec(json_string(), 0..6)).prop_map(|(i, v)| Case::Info(i, v)),
        1 => json_string().prop_map(Case::DescArgs),
        1 => prop_oneof![Just(None), json_string().prop_map(Some)].prop_map(Case::DescReply),
        4 => keys().prop_map(Case::Set),
        1 => prop::collection::vec((json_string(), any::<i64>()), 0..=8).prop_map(Case::MapInt),
        1 => prop::collection::vec((json_string(), json_string()), 0..=8).prop_map(Case::MapStr),
        2 => prop::collection::vec((json_string(), keys()), 0..=6).prop_map(Case::MapSet),
        1 => prop::collection::vec((json_string(), prop::collection::vec(keys(), 0..3)), 0..=4).prop_map(Case::MapVecSet),
        1 => prop::collection::vec((json_string(), stable_json(2)), 0..=6).prop_map(Case::MapVal),
        1 => prop::collection::vec((json_string(), exact_float()), 0..=6).prop_map(Case::MapFloat),
        4 => req_obj,
        4 => rep_obj,
    ]
}

fn drop_null_optionals(v: &Value, optional: &[&str]) -> Value {
    let mut o = v.as_object().cloned().unwrap_or_default();
    for k in optional {
        if o.get(*k) == Some(&Value::Null) {
            o.remove(*k);
        }
    }
    Value::Object(o)
}

fn run_case(c: &Case) -> Result<(bool, &'static str), Fail> {
    match c {
        Case::Req(more, oneway, upgrade, method, params) => {
            let r = Request { more: *more, oneway: *oneway, upgrade: *upgrade, method: Cow::Owned(method.clone()), parameters: params.clone() };
            let v = roundtrip::<Request<'static>>("Request", &r)?;
            check_none_omitted("Request", &v, &[("more", more.is_some()), ("oneway", oneway.is_some()), ("upgrade", upgrade.is_some()), ("parameters", params.is_some()), ("method", true)])?;
            let set = [more.is_some(), oneway.is_some(), upgrade.is_some(), params.is_some()];
            Ok((set.iter().any(|x| *x) && set.iter().any(|x| !*x), "Request"))
        }
        Case::Rep(cont, err, params) => {
            let r = Reply { continues: *cont, error: err.clone().map(Cow::Owned), parameters: params.clone() };
            let v = roundtrip::<Reply>("Reply", &r)?;
            check_none_omitted("Reply", &v, &[("continues", cont.is_some()), ("error", err.is_some()), ("parameters", params.is_some())])?;
            let set = [cont.is_some(), err.is_some(), params.is_some()];
            Ok((set.iter().any(|x| *x) && set.iter().any(|x| !*x), "Reply"))
        }
        Case::Info(i, ifs) => {
            let s = ServiceInfo {
                vendor: Cow::Owned(i[0].clone()),
                product: Cow::Owned(i[1].clone()),
                version: Cow::Owned(i[2].clone()),
                url: Cow::Owned(i[3].clone()),
                interfaces: ifs.iter().map(|x| Cow::Owned(x.clone())).collect(),
            };
            let v = roundtrip::<ServiceInfo>("ServiceInfo", &s)?;
            let want = json!({"vendor": i[0], "product": i[1], "version": i[2], "url": i[3], "interfaces": ifs});
            if v != want {
                return Err(fail("ServiceInfo", "shape", format!("{} instead of {}", v, want)));
            }
            Ok((!ifs.is_empty(), "ServiceInfo"))
        }
        Case::DescArgs(s) => {
            let a = GetInterfaceDescriptionArgs { interface: Cow::Owned(s.clone()) };
            let v = roundtrip::<GetInterfaceDescriptionArgs<'static>>("GetInterfaceDescriptionArgs", &a)?;
            if v != json!({"interface": s}) {
                return Err(fail("GetInterfaceDescriptionArgs", "shape", v.to_string()));
            }
            Ok((false, "GetInterfaceDescriptionArgs"))
        }
        Case::DescReply(d) => {
            let a = GetInterfaceDescriptionReply { description: d.clone() };
            let v = roundtrip::<GetInterfaceDescriptionReply>("GetInterfaceDescriptionReply", &a)?;
            check_none_omitted("GetInterfaceDescriptionReply", &v, &[("description", d.is_some())])?;
            Ok((false, "GetInterfaceDescriptionReply"))
        }
        Case::Set(ks) => {
            let s = set_of(ks.clone());
            let v = roundtrip::<StringHashSet>("StringHashSet", &s)?;
            check_set_shape("StringHashSet", &v, &s)?;
            Ok((!s.is_empty(), "StringHashSet"))
        }
        Case::MapInt(kv) => {
            let m: StringHashMap<i64> = kv.iter().cloned().collect();
            let v = roundtrip::<StringHashMap<i64>>("StringHashMap<int>", &m)?;
            let want: Value = Value::Object(m.iter().map(|(k, x)| (k.clone(), json!(x))).collect());
            if v != want {
                return Err(fail("StringHashMap<int>", "shape", v.to_string()));
            }
            Ok((!m.is_empty(), "StringHashMap<int>"))
        }
        Case::MapStr(kv) => {
            let m: StringHashMap<String> = kv.iter().cloned().collect();
            roundtrip::<StringHashMap<String>>("StringHashMap<string>", &m)?;
            Ok((!m.is_empty(), "StringHashMap<string>"))
        }
        Case::MapSet(kv) => {
            let m: StringHashMap<StringHashSet> = kv.iter().map(|(k, s)| (k.clone(), set_of(s.clone()))).collect();
            let v = roundtrip::<StringHashMap<StringHashSet>>("StringHashMap<set>", &m)?;
            for (k, s) in &m {
                check_set_shape("StringHashMap<set>", &v[k], s)?;
            }
            Ok((m.values().any(|s| !s.is_empty()), "StringHashMap<set>"))
        }
        Case::MapVecSet(kv) => {
            let m: HashMap<String, Vec<StringHashSet>> = kv.iter().map(|(k, l)| (k.clone(), l.iter().map(|s| set_of(s.clone())).collect())).collect();
            roundtrip::<HashMap<String, Vec<StringHashSet>>>("StringHashMap<[]set>", &m)?;
            Ok((m.values().any(|l| l.iter().any(|s| !s.is_empty())), "StringHashMap<[]set>"))
        }
        Case::MapVal(kv) => {
            let m: StringHashMap<Value> = kv.iter().cloned().collect();
            roundtrip::<StringHashMap<Value>>("StringHashMap<object>", &m)?;
            Ok((!m.is_empty(), "StringHashMap<object>"))
        }
        Case::MapFloat(kv) => {
            let m: StringHashMap<f64> = kv.iter().cloned().collect();
            // -0.0 == 0.0 under PartialEq; fine for the equality oracle
            roundtrip::<StringHashMap<f64>>("StringHashMap<float>", &m)?;
            Ok((!m.is_empty(), "StringHashMap<float>"))
        }
        Case::ReqObj(o) => {
            let text = o.to_string();
            let want = drop_null_optionals(o, &["more", "oneway", "upgrade", "parameters"]);
            for (dn, r) in [
                ("from_str", serde_json::from_str::<Request<'static>>(&text)),
                ("from_slice", serde_json::from_slice::<Request<'static>>(text.as_bytes())),
                ("from_value", serde_json::from_value::<Request<'static>>(o.clone())),
            ] {
                let r = r.map_err(|e| fail("Request", &format!("valid-object-rejected/{}", dn), format!("{}: {}", text, e)))?;
                for (sn, back) in [("to_value", serde_json::to_value(&r).unwrap()), ("to_string", serde_json::from_str::<Value>(&serde_json::to_string(&r).unwrap()).unwrap())] {
                    if back != want {
                        return Err(fail("Request", &format!("object-roundtrip/{}->{}", dn, sn), format!("{} came back as {}", text, back)));
                    }
                }
            }
            let n_null = o.as_object().unwrap().values().filter(|v| v.is_null()).count();
            Ok((n_null > 0 || o.as_object().unwrap().len() > 1, "Request(object)"))
        }
        Case::RepObj(o) => {
            let text = o.to_string();
            let want = drop_null_optionals(o, &["continues", "error", "parameters"]);
            for (dn, r) in [
                ("from_str", serde_json::from_str::<Reply>(&text)),
                ("from_slice", serde_json::from_slice::<Reply>(text.as_bytes())),
                ("from_value", serde_json::from_value::<Reply>(o.clone())),
            ] {
                let r = r.map_err(|e| fail("Reply", &format!("valid-object-rejected/{}", dn), format!("{}: {}", text, e)))?;
                for (sn, back) in [("to_value", serde_json::to_value(&r).unwrap()), ("to_string", serde_json::from_str::<Value>(&serde_json::to_string(&r).unwrap()).unwrap())] {
                    if back != want {
                        return Err(fail("Reply", &format!("object-roundtrip/{}->{}", dn, sn), format!("{} came back as {}", text, back)));
                    }
                }
            }
            let n_null = o.as_object().unwrap().values().filter(|v| v.is_null()).count();
            Ok((n_null > 0 || o.as_object().unwrap().len() > 1, "Reply(object)"))
        }
    }
}

fn systematic(ctx: &mut Ctx) {
    // all flag combinations x parameter shapes for Request and Reply, all key subsets of a fixed
    // awkward key list for sets
    let flags = [None, Some(true), Some(false)];
    let params = [None, Some(json!(0)), Some(json!("s")), Some(json!({})), Some(json!([])), Some(json!({"a": {"b": [1, null, "x"]}})), Some(json!(false))];
    for a in flags {
        for b in flags {
            for c in flags {
                for p in &params {
                    for m in ["org.example.Method", "", "nodot", "a.b.\u{e9}"] {
                        let cs = Case::Req(a, b, c, m.to_string(), p.clone());
                        ctx.case(Some(hash64(&format!("{:?}", cs))));
                        ctx.class("systematic:Request");
                        if let Err(f) = pt::guard(|| run_case(&cs).map(|_| ())) {
                            ctx.violation(&f.key, &f.what, "c17", json!({"case": format!("{:?}", cs)}));
                        }
                    }
                }
            }
        }
    }
    for a in flags {
        let mut names: Vec<Option<String>> = vec![None, Some("org.x.E".to_string()), Some(String::new())];
        names.extend(ERROR_NAMES.iter().map(|n| Some(n.to_string())));
        for e in names {
            for p in &params {
                let cs = Case::Rep(a, e.clone(), p.clone());
                ctx.case(Some(hash64(&format!("{:?}", cs))));
                ctx.class("systematic:Reply");
                if let Err(f) = pt::guard(|| run_case(&cs).map(|_| ())) {
                    ctx.violation(&f.key, &f.what, "c17", json!({"case": format!("{:?}", cs)}));
                }
            }
        }
    }
    let awkward = ["", "a", "\u{e9}\u{4e2d}", "q\"uote", "back\\slash", "nul\u{0}", "new\nline", "\u{1F600}"];
    for mask in 0u32..(1 << awkward.len()) {
        let ks: Vec<String> = awkward.iter().enumerate().filter(|(i, _)| mask & (1 << i) != 0).map(|(_, k)| k.to_string()).collect();
        let cs = Case::Set(ks);
        ctx.case(if mask != 0 { Some(hash64(&format!("{:?}", cs))) } else { None });
        ctx.class("systematic:StringHashSet(all key subsets)");
        if let Err(f) = pt::guard(|| run_case(&cs).map(|_| ())) {
            ctx.violation(&f.key, &f.what, "c17", json!({"case": format!("{:?}", cs)}));
        }
    }
    ctx.section("systematic", json!({"request_combinations": 3 * 3 * 3 * 7 * 4, "reply_combinations": 3 * 3 * 7, "set_key_subsets": 256, "exhaustive": true}));
}

pub fn run(args: &Args) -> ! {
    let mut ctx = Ctx::new(args, "exploration");
    ctx.rule = RULE.into();
    ctx.assumptions = vec![
        "serde_json is trusted; floats are restricted to those it reads back exactly from its own output".into(),
        "JSON objects with members outside the protocol's are not 'valid requests/replies' for the second clause".into(),
    ];
    if let Some(p) = &args.replay {
        let v = load_replay(p);
        // replay files carry the Debug rendering of the case; re-run the whole systematic part and a
        // short random run with the recorded seed (cases are cheap and the run is deterministic)
        ctx.force_sample(v["case"].clone());
        systematic(&mut ctx);
        let seed = v["seed"].as_u64().unwrap_or(1);
        ctx.seed = seed;
        let n = if v["tier"] == "thorough" { 1_000_000 } else { 300_000 };
        random(&mut ctx, n);
        ctx.finish();
    }
    systematic(&mut ctx);
    let n = ctx.tier.pick(300_000, 1_000_000);
    random(&mut ctx, n);
    ctx.exhaustive = Some(false);
    ctx.finish()
}

fn random(ctx: &mut Ctx, cases: u32) {
    let r = pt::check(ctx, "c17", cases, case_strategy(), |ctx, c| {
        let (nt, class) = run_case(c)?;
        ctx.case(if nt { Some(hash64(&format!("{:?}", c))) } else { None });
        ctx.class(class);
        ctx.sample(|| json!({"case": format!("{:?}", c)}));
        Ok(())
    });
    if let Some((c, f)) = r {
        ctx.violation(&f.key, &f.what, "c17", json!({"case": format!("{:?}", c)}));
    }
}
