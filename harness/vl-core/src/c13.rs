//! C13 — concurrent connections are served independently.

use proptest::prelude::*;
use serde_json::{json, Value};
use std::sync::mpsc;
use std::time::Duration;
use vl_model::ctx::{hash64, load_replay, Args, Ctx};
use vl_model::pt::{self, Fail};
use vl_model::sock::{Peer, Scratch, Server, Wait};
use vl_tsvc::t_service;
use vl_model::wire::*;

use crate::c01::{self, style_of};

pub const RULE: &str = "rounds of 2..64 simultaneous clients on one in-process listen() server (unix path, abstract \
unix, TCP; worker limit 100), each pipelining a random C01 request sequence whose tokens carry the client's number, \
written in random segments with 0-5 ms pauses; in the same round up to 4 misbehaving peers are held open (idle \
after one call, connected-but-silent, half a message then nothing, a malformed message, 60 pipelined requests then gone without reading, thousands of introspection requests never read, a legal request nested 120 deep); \
at the end of a round the idle and the silent peers make a call of their own (in one round of eight after sitting for 250 ms). Oracle: each client's \
reply stream, read to EOF after a sentinel and half-close, satisfies the C01 reply-stream checker for its own \
requests (so a reply carrying another client's token, a missing or a surplus reply is a failure). A client that \
does not complete while the misbehaving peers are open but completes once they are closed - in two consecutive \
runs of the same round - is reported as blocked; a connection the service closes although none of its own requests \
ends a connection is reported as disturbed. After the rounds, on fresh servers: 3 simultaneous connections, 1.3-11 s \
without traffic, then again 3 simultaneous connections of which two sit idle (a pool that shrinks must not strand the third). Non-trivial: at least 2 clients whose lifetimes overlap \
(measured) and at least one misbehaving peer; distinct by round. Peers that vanish in the middle of a message, as many as the server has workers (1..3), then a newcomer: it is answered, and with every client gone listen() returns after the stop flag (each judged by repetition).";

#[derive(Clone, Debug)]
pub struct Client {
    pub syms: Vec<Sym>,
    pub style: u8,
    pub cuts: Vec<u16>,
    pub pauses: Vec<u8>,
}

#[derive(Clone, Copy, Debug, PartialEq, Eq, Hash)]
pub enum Bad {
    IdleAfterCall,
    Silent,
    HalfMessage,
    Malformed,
    /// pipelines many requests and closes without reading (the service's writes fail)
    VanishAfterRequests,
    /// pipelines thousands of introspection requests and never reads (the service's writes block)
    FloodNoRead,
    /// one legal request whose parameters are nested 120 objects deep (below the JSON decoder's limit
    /// of 128), then idle
    DeepNesting,
}

#[derive(Clone, Debug)]
pub struct Round {
    pub transport: usize,
    pub clients: Vec<Client>,
    pub bad: Vec<Bad>,
}

fn round_json(r: &Round) -> Value {
    json!({
        "transport": (["unix", "abstract", "tcp"][r.transport]),
        "clients": r.clients.iter().map(|c| json!({"requests": syms_json(&c.syms), "style": c.style, "cuts": c.cuts, "pauses_ms": c.pauses})).collect::<Vec<_>>(),
        "misbehaving": r.bad.iter().map(|b| format!("{:?}", b)).collect::<Vec<_>>(),
    })
}

fn round_from(v: &Value) -> Round {
    let transport = ["unix", "abstract", "tcp"].iter().position(|t| v["transport"] == *t).unwrap_or(0);
    let clients = v["clients"]
        .as_array()
        .map(|a| {
            a.iter()
                .map(|c| Client {
                    syms: syms_from_json(&c["requests"]),
                    style: c["style"].as_u64().unwrap_or(0) as u8,
                    cuts: c["cuts"].as_array().map(|x| x.iter().filter_map(|y| y.as_u64()).map(|y| y as u16).collect()).unwrap_or_default(),
                    pauses: c["pauses_ms"].as_array().map(|x| x.iter().filter_map(|y| y.as_u64()).map(|y| y as u8).collect()).unwrap_or_default(),
                })
                .collect()
        })
        .unwrap_or_default();
    let bad = v["misbehaving"]
        .as_array()
        .map(|a| {
            a.iter()
                .filter_map(|b| match b.as_str()? {
                    "IdleAfterCall" => Some(Bad::IdleAfterCall),
                    "Silent" => Some(Bad::Silent),
                    "HalfMessage" => Some(Bad::HalfMessage),
                    "Malformed" => Some(Bad::Malformed),
                    "VanishAfterRequests" => Some(Bad::VanishAfterRequests),
                    "FloodNoRead" => Some(Bad::FloodNoRead),
                    "DeepNesting" => Some(Bad::DeepNesting),
                    _ => None,
                })
                .collect()
        })
        .unwrap_or_default();
    Round { transport, clients, bad }
}

const LONG: Duration = Duration::from_secs(40);

struct Report {
    client: usize,
    res: Result<(), Fail>,
    start: std::time::Instant,
    end: std::time::Instant,
}

fn client_run(addr: &str, c: &Client, number: usize) -> Result<(), Fail> {
    let base = (number + 1) * 1000;
    let st = build_stream_at(&c.syms, base, |i| style_of(c.style, i));
    let where_ = "listen[concurrent]";
    let mut peer = Peer::connect(addr).map_err(|e| Fail::new(format!("{}/connect", where_), e.to_string()))?;
    let total = st.bytes.len();
    let mut cuts: Vec<usize> = c.cuts.iter().map(|x| (*x as usize * total) >> 16).filter(|x| *x > 0 && *x < total).collect();
    cuts.sort();
    cuts.dedup();
    let mut start = 0usize;
    for (i, cut) in cuts.iter().chain(std::iter::once(&total)).enumerate() {
        peer.send(&st.bytes[start..*cut]);
        start = *cut;
        let p = c.pauses.get(i).cloned().unwrap_or(0) % 6;
        if p > 0 {
            std::thread::sleep(Duration::from_millis(p as u64));
        }
    }
    let want = st.exps.iter().filter(|e| !e.oneway).count();
    let mut eof = false;
    match peer.wait_finals(want, LONG) {
        Wait::Reached => {}
        Wait::Eof => eof = true,
        Wait::Stalled => return Err(Fail::new("HARNESS/client-gave-up", "client waited 40 s".to_string())),
    }
    let tok = format!("sentinel-{}", number);
    let mut seen = false;
    if !eof {
        let req = json!({"method": "org.verif.test.Echo", "parameters": {"token": tok, "n": 1}});
        peer.send(&encode(&req, Style::Compact));
        match peer.wait_piece(|v| v["parameters"]["token"] == tok.as_str(), LONG) {
            Wait::Reached => seen = true,
            Wait::Eof => {}
            Wait::Stalled => return Err(Fail::new("HARNESS/client-gave-up", "client waited 40 s for its sentinel".to_string())),
        }
    }
    peer.half_close();
    let _ = peer.wait_eof(Duration::from_secs(10));
    let bytes = peer.finish();
    let mut replies = split_replies(where_, &bytes)?;
    if !seen && !(st.syms.iter().any(|x| x.closes()) || st.exps.iter().any(|e| e.may_close_instead)) {
        // C01 lets a service close whenever it likes; here a connection that did nothing to deserve it
        // and is closed under its owner's feet has been disturbed by somebody else
        return Err(Fail::new(
            format!("{}/closed-without-cause", where_),
            format!("client #{} of the round: the service closed the connection after {} replies although none of the client's requests ends a connection", number, replies.len()),
        ));
    }
    let end = if seen {
        match replies.last() {
            Some(l) if l["parameters"]["token"] == tok.as_str() => {
                replies.pop();
            }
            _ => return Err(Fail::new(format!("{}/bytes-after-sentinel", where_), "replies after the last request's reply".to_string())),
        }
        End::Open
    } else {
        End::Closed
    };
    check_replies(where_, &st.syms, &st.exps, &replies, end).map(|_| ()).map_err(|mut f| {
        f.what = format!("client #{} of the round: {}", number, f.what);
        f
    })
}

pub enum BadHandle {
    Peer(Peer, Bad, std::time::Instant),
    Raw(vl_model::sock::Conn),
}

fn open_bad(addr: &str, b: Bad, n: usize) -> Option<BadHandle> {
    use std::io::Write;
    match b {
        Bad::VanishAfterRequests => {
            let mut c = vl_model::sock::Conn::connect(addr).ok()?;
            let mut all = vec![];
            for i in 0..60 {
                let req = json!({"method": "org.verif.test.Echo", "parameters": {"token": format!("vanish-{}-{}", n, i), "n": i}});
                all.extend(encode(&req, Style::Compact));
            }
            let _ = c.write_all(&all);
            let _ = c.shutdown(std::net::Shutdown::Both);
            None // gone already
        }
        Bad::FloodNoRead => {
            let mut c = vl_model::sock::Conn::connect(addr).ok()?;
            match &c {
                vl_model::sock::Conn::Unix(s) => {
                    let _ = s.set_nonblocking(true);
                }
                vl_model::sock::Conn::Tcp(s) => {
                    let _ = s.set_nonblocking(true);
                }
            }
            let one = encode(&json!({"method": "org.varlink.service.GetInterfaceDescription", "parameters": {"interface": "org.verif.test"}}), Style::Compact);
            let mut chunk = vec![];
            for _ in 0..200 {
                chunk.extend_from_slice(&one);
            }
            // write until the socket refuses more (the service is then blocked writing replies)
            let t0 = std::time::Instant::now();
            let mut stalled_since: Option<std::time::Instant> = None;
            let mut sent = 0usize;
            while sent < 60 * chunk.len() && t0.elapsed() < Duration::from_secs(3) {
                match c.write(&chunk) {
                    Ok(k) if k > 0 => {
                        sent += k;
                        stalled_since = None;
                    }
                    _ => {
                        let s0 = *stalled_since.get_or_insert_with(std::time::Instant::now);
                        if s0.elapsed() > Duration::from_millis(150) {
                            break;
                        }
                        std::thread::sleep(Duration::from_millis(2));
                    }
                }
            }
            Some(BadHandle::Raw(c))
        }
        _ => {
            let mut p = Peer::connect(addr).ok()?;
            match b {
                Bad::IdleAfterCall => {
                    let req = json!({"method": "org.verif.test.Echo", "parameters": {"token": format!("idle-{}", n), "n": 0}});
                    p.send(&encode(&req, Style::Compact));
                    let _ = p.wait_finals(1, Duration::from_secs(5));
                }
                Bad::HalfMessage => p.send(b"{\"method\":\"org.verif.test.Echo\",\"parameters\":{\"token\":\"ha"),
                Bad::Malformed => p.send(b"{\"method\":42}\0"),
                Bad::DeepNesting => {
                    let mut x = String::new();
                    for _ in 0..120 {
                        x.push_str("{\"a\":");
                    }
                    x.push('1');
                    for _ in 0..120 {
                        x.push('}');
                    }
                    p.send(format!("{{\"method\":\"org.verif.test.Echo\",\"parameters\":{{\"token\":\"deep-{}\",\"n\":1,\"x\":{}}}}}\0", n, x).as_bytes());
                    let _ = p.wait_finals(1, Duration::from_secs(5));
                }
                _ => {}
            }
            Some(BadHandle::Peer(p, b, std::time::Instant::now()))
        }
    }
}

#[derive(Debug, PartialEq)]
pub enum RoundOutcome {
    Ok { overlapping: bool },
    /// some client only completed after the misbehaving peers were closed
    BlockedUntilBadClosed(usize),
    Hung,
}

pub fn run_round(addrs: &[String; 3], r: &Round) -> Result<RoundOutcome, Fail> {
    let addr = addrs[r.transport].clone();
    let mut bad: Vec<BadHandle> = r.bad.iter().enumerate().filter_map(|(i, b)| open_bad(&addr, *b, i)).collect();
    let (tx, rx) = mpsc::channel::<Report>();
    let mut handles = vec![];
    for (i, c) in r.clients.iter().enumerate() {
        let tx = tx.clone();
        let c = c.clone();
        let addr = addr.clone();
        handles.push(std::thread::spawn(move || {
            let start = std::time::Instant::now();
            let res = std::panic::catch_unwind(std::panic::AssertUnwindSafe(|| client_run(&addr, &c, i)))
                .unwrap_or_else(|_| Err(Fail::new("HARNESS/client-panicked", "client thread panicked".to_string())));
            let _ = tx.send(Report { client: i, res, start, end: std::time::Instant::now() });
        }));
    }
    drop(tx);
    let mut reports: Vec<Report> = vec![];
    let n = r.clients.len();
    let deadline = std::time::Instant::now() + Duration::from_secs(8);
    while reports.len() < n {
        let left = deadline.saturating_duration_since(std::time::Instant::now());
        match rx.recv_timeout(left) {
            Ok(rep) => reports.push(rep),
            Err(_) => break,
        }
    }
    let done_while_bad_open = reports.len();
    let mut outcome = None;
    if done_while_bad_open < n {
        // close the misbehaving peers and see whether the rest completes now
        bad.clear();
        let deadline = std::time::Instant::now() + Duration::from_secs(8);
        while reports.len() < n {
            let left = deadline.saturating_duration_since(std::time::Instant::now());
            match rx.recv_timeout(left) {
                Ok(rep) => reports.push(rep),
                Err(_) => break,
            }
        }
        outcome = Some(if reports.len() == n && !r.bad.is_empty() { RoundOutcome::BlockedUntilBadClosed(n - done_while_bad_open) } else { RoundOutcome::Hung });
    }
    // the idle and the silent peers are connections too: after sitting there they make a call and get
    // their own reply (in one round out of eight they first sit for at least 250 ms)
    if outcome.is_none() && reports.iter().all(|r| r.res.is_ok()) {
        let linger = hash64(&round_json(r).to_string()) % 8 == 0;
        for (k, b) in bad.iter_mut().enumerate() {
            let BadHandle::Peer(p, kind, since) = b else { continue };
            if !matches!(kind, Bad::IdleAfterCall | Bad::Silent) {
                continue;
            }
            if linger {
                let need = Duration::from_millis(250);
                if since.elapsed() < need {
                    std::thread::sleep(need - since.elapsed());
                }
            }
            let tok = format!("idle-follow-up-{}", k);
            p.send(&encode(&json!({"method": "org.verif.test.Echo", "parameters": {"token": tok, "n": 5}}), Style::Compact));
            match p.wait_piece(|v| v["parameters"]["token"] == tok.as_str(), LONG) {
                Wait::Reached => {}
                Wait::Eof => {
                    return Err(Fail::new(
                        "listen[concurrent]/idle-connection-closed",
                        format!("a peer that had been sitting idle for {} ms ({:?}) sent a request and found its connection closed by the service", since.elapsed().as_millis(), kind),
                    ))
                }
                Wait::Stalled => return Ok(RoundOutcome::Hung),
            }
        }
    }
    drop(bad);
    if reports.len() == n {
        for h in handles {
            let _ = h.join();
        }
    }
    // first failure by client number
    reports.sort_by_key(|r| r.client);
    for rep in &reports {
        if let Err(f) = &rep.res {
            return Err(f.clone());
        }
    }
    if let Some(o) = outcome {
        return Ok(o);
    }
    let overlapping = reports.iter().enumerate().any(|(i, a)| reports.iter().skip(i + 1).any(|b| a.start < b.end && b.start < a.end));
    Ok(RoundOutcome::Ok { overlapping })
}

fn round_strategy(max_clients: usize) -> impl Strategy<Value = Round> {
    let client = (c01::seq_strategy(alphabet(), 1, 10), prop::collection::vec(any::<u16>(), 0..6), prop::collection::vec(0u8..6, 0..7))
        .prop_map(|((syms, _d, style), cuts, pauses)| Client { syms, style, cuts, pauses });
    let bad = prop::sample::select(vec![Bad::IdleAfterCall, Bad::Silent, Bad::HalfMessage, Bad::Malformed, Bad::VanishAfterRequests, Bad::FloodNoRead, Bad::DeepNesting]);
    (0usize..3, prop::collection::vec(client, 2..=max_clients), prop::collection::vec(bad, 0..=4)).prop_map(|(transport, clients, bad)| Round { transport, clients, bad })
}

struct Servers {
    _scratch: Scratch,
    addrs: [String; 3],
    servers: Vec<Server>,
}

fn start_servers(seed: u64) -> Servers {
    let scratch = Scratch::new("c13");
    let a0 = scratch.unix_addr("c13.sock");
    let a1 = format!("unix:@vl-c13-{}-{}", std::process::id(), seed);
    let mut port = 0u16;
    for k in 0..200u64 {
        let p = 21000 + ((seed * 104729 + k * 31) % 20000) as u16;
        if std::net::TcpListener::bind(("127.0.0.1", p)).is_ok() {
            port = p;
            break;
        }
    }
    let a2 = format!("tcp:127.0.0.1:{}", port);
    let servers = vec![
        Server::start(t_service().0, &a0, 1, 100, 0),
        Server::start(t_service().0, &a1, 1, 100, 0),
        Server::start(t_service().0, &a2, 1, 100, 0),
    ];
    Servers { _scratch: scratch, addrs: [a0, a1, a2], servers }
}

fn replay(ctx: &mut Ctx, v: &Value) {
    let r = round_from(&v["case"]);
    ctx.case(None);
    ctx.force_sample(v["case"].clone());
    let s = start_servers(ctx.seed + 77);
    let mut res = Ok(());
    if let Some(per) = v["case"]["hammer"].as_u64() {
        for k in 0..10 {
            if let Err(f) = hammer(&s.addrs[k % 3], per as usize) {
                res = Err(f);
                break;
            }
        }
    } else if let Some(m) = v["case"]["gone_peers"].as_u64() {
        for _ in 0..3 {
            if let Err(f) = gone_peers(m as usize) {
                res = Err(f);
                break;
            }
        }
    } else if let Some(k) = v["case"]["burst_hold"].as_u64() {
        for _ in 0..20 {
            if let Err(f) = burst_hold(k as usize) {
                res = Err(f);
                break;
            }
        }
    } else if let Some(q) = v["case"]["quiet_ms"].as_u64() {
        let t = v["case"]["transport"].as_u64().unwrap_or(0) as usize % 3;
        let _ = t;
        for _ in 0..2 {
            if let Err(f) = quiet_then_idle(Duration::from_millis(q)) {
                res = Err(f);
                break;
            }
        }
    } else {
    for _ in 0..20 {
        match run_round(&s.addrs, &r) {
            Ok(RoundOutcome::BlockedUntilBadClosed(k)) => {
                if let Ok(RoundOutcome::BlockedUntilBadClosed(_)) = run_round(&s.addrs, &r) {
                    res = Err(Fail::new("listen/blocked-by-other-connection", format!("{} client(s) completed only after the misbehaving peers were closed (twice)", k)));
                    break;
                }
            }
            Ok(_) => {}
            Err(f) => {
                res = Err(f);
                break;
            }
        }
    }
    }
    if let Err(f) = res {
        ctx.violation(&f.key, &f.what, "c13-replay", v["case"].clone());
    }
    for sv in s.servers {
        let _ = sv.stop();
    }
}

/// A pool that has grown, then seen nothing for a while, must still serve as many connections at
/// once as it did before. Every attempt uses a fresh server (1 initial worker, limit 100): three
/// simultaneous connections, `quiet` without traffic, three simultaneous connections again of which
/// two sit idle. Which worker waits at the queue during the quiet time depends on the schedule, so up
/// to five attempts are made; two attempts in which the newcomer is served only once the idle peers
/// are closed make a violation. Returns Ok(false) when an attempt stalled without that pattern.
fn quiet_then_idle(quiet: Duration) -> Result<bool, Fail> {
    let simple = |k: usize| Client { syms: vec![Sym { kind: Kind::Echo, flag: Flag::None }; 1 + k % 3], style: 0, cuts: vec![], pauses: vec![] };
    let mut blocked = 0;
    for attempt in 0..5 {
        let scratch = Scratch::new("c13q");
        let a = scratch.unix_addr("q.sock");
        let addrs = [a.clone(), a.clone(), a.clone()];
        let server = Server::start(t_service().0, &a, 1, 100, 0);
        // one connection stays open from start to end: it occupies the initial worker, so that during
        // the quiet time only workers that were added on demand wait at the queue
        let holder = open_bad(&a, Bad::IdleAfterCall, 99);
        let round = Round { transport: 0, clients: vec![simple(attempt)], bad: vec![Bad::IdleAfterCall, Bad::IdleAfterCall] };
        let first = run_round(&addrs, &round)?;
        if !matches!(first, RoundOutcome::Ok { .. }) {
            drop(holder);
            let _ = server.stop();
            return Ok(false);
        }
        std::thread::sleep(quiet);
        let out = run_round(&addrs, &round);
        drop(holder);
        let _ = server.stop();
        match out? {
            RoundOutcome::Ok { .. } => {
                if attempt >= 2 && blocked == 0 {
                    return Ok(true);
                }
            }
            RoundOutcome::BlockedUntilBadClosed(_) => {
                blocked += 1;
                if blocked >= 2 {
                    return Err(Fail::new(
                        "listen/blocked-by-other-connection",
                        format!(
                            "fresh server, 3 simultaneous connections, {} ms without traffic, then 3 simultaneous connections again: the third was served only once the two idle ones were closed (in 2 of {} attempts)",
                            quiet.as_millis(),
                            attempt + 1
                        ),
                    ));
                }
            }
            RoundOutcome::Hung => return Ok(false),
        }
    }
    Ok(blocked == 0)
}

/// Eight clients at once, each pipelining `per` requests to its own mix of interfaces (the service
/// interface, org.verif.test, org.verif, org.verif.Test): every reply is the answer to its request.
fn hammer(addr: &str, per: usize) -> Result<bool, Fail> {
    let mut hs = vec![];
    for c in 0..8usize {
        let addr = addr.to_string();
        hs.push(std::thread::spawn(move || -> Result<bool, Fail> {
            let mut p = Peer::connect(&addr).map_err(|e| Fail::new("HARNESS/connect", e.to_string()))?;
            let methods: [&str; 4] = ["org.varlink.service.GetInfo", "org.verif.test.Echo", "org.verif.Echo", "org.verif.Test.Echo"];
            let mut all = vec![];
            let mut want = vec![];
            for i in 0..per {
                let m = methods[(i * (c + 1) + c) % 4];
                let tok = format!("h{}-{}", c, i);
                let req = if m.ends_with("GetInfo") { json!({"method": m}) } else { json!({"method": m, "parameters": {"token": tok, "n": i}}) };
                all.extend(encode(&req, Style::Compact));
                want.push((m, tok));
            }
            for chunk in all.chunks(32 * 1024) {
                p.send(chunk);
            }
            if !matches!(p.wait_finals(per, Duration::from_secs(30)), Wait::Reached) {
                return Ok(false);
            }
            let replies = split_replies("listen[concurrent]", &p.received())?;
            for (i, (m, tok)) in want.iter().enumerate() {
                let r = &replies[i];
                let ok = if m.ends_with("GetInfo") { r["parameters"]["vendor"].is_string() && r.get("error").map(|e| e.is_null()).unwrap_or(true) } else { r["parameters"]["token"] == tok.as_str() };
                if !ok {
                    return Err(Fail::new(
                        "listen[concurrent]/wrong-reply-under-load",
                        format!("client {} of 8 (each pipelining {} requests to several interfaces): request #{} `{}` was answered with {}", c, per, i, m, r.to_string().chars().take(200).collect::<String>()),
                    ));
                }
            }
            Ok(true)
        }));
    }
    let mut all_ok = true;
    for h in hs {
        match h.join() {
            Ok(Ok(true)) => {}
            Ok(Ok(false)) => all_ok = false,
            Ok(Err(f)) => return Err(f),
            Err(_) => return Err(Fail::new("HARNESS/client-panicked", "hammer client panicked".to_string())),
        }
    }
    Ok(all_ok)
}

/// `k` connections opened back to back on a fresh server (1 initial worker, limit 100), each sending
/// one request at once and staying open: every one of them is answered. Returns the numbers of the
/// connections without an answer after 5 s.
fn burst_hold_round(k: usize) -> Vec<usize> {
    let scratch = Scratch::new("c13b");
    let a = scratch.unix_addr("b.sock");
    let server = Server::start(t_service().0, &a, 1, 100, 0);
    let mut peers: Vec<Peer> = vec![];
    for i in 0..k {
        if let Ok(mut p) = Peer::connect(&a) {
            p.send(&encode(&json!({"method": "org.verif.test.Echo", "parameters": {"token": format!("burst-{}", i), "n": i}}), Style::Compact));
            peers.push(p);
        }
    }
    let deadline = std::time::Instant::now() + Duration::from_secs(5);
    let mut unanswered = vec![];
    for (i, p) in peers.iter().enumerate() {
        let left = deadline.saturating_duration_since(std::time::Instant::now()).max(Duration::from_millis(50));
        if !matches!(p.wait_finals(1, left), Wait::Reached) {
            unanswered.push(i);
        }
    }
    drop(peers);
    let _ = server.stop();
    unanswered
}

/// Ok(true): all served; Ok(false): one unexplained stall; Err: the pattern repeated.
fn burst_hold(k: usize) -> Result<bool, Fail> {
    let first = burst_hold_round(k);
    if first.is_empty() {
        return Ok(true);
    }
    for _ in 0..3 {
        let again = burst_hold_round(k);
        if !again.is_empty() {
            return Err(Fail::new(
                "listen/blocked-by-other-connection",
                format!(
                    "{} connections opened back to back on a fresh server (worker limit 100), each sending one request and staying open: connections {:?} (and in a repetition {:?}) got no answer within 5 s while the others sat idle",
                    k, first, again
                ),
            ));
        }
    }
    Ok(false)
}

/// Stop a server without staking the run on it: a worker that never returns would make listen() wait for
/// ever. Returns None when listen() had not returned after `patience` (its thread is left behind).
fn stop_bounded(server: Server, patience: Duration) -> Option<Result<(), String>> {
    let (tx, rx) = std::sync::mpsc::channel();
    std::thread::spawn(move || {
        let _ = tx.send(server.stop());
    });
    rx.recv_timeout(patience).ok()
}

/// `max` peers each send the beginning of a message and disappear; then a newcomer calls. Nothing is
/// alive beside the newcomer, so it is served. Returns (answered, listen() returned after the stop flag).
fn gone_peers_round(max: usize) -> (bool, bool) {
    use std::io::Write;
    let scratch = Scratch::new("c13g");
    let a = scratch.unix_addr("g.sock");
    let server = Server::start(t_service().0, &a, 1, max, 0);
    let path = a.trim_start_matches("unix:").to_string();
    let prefixes: [&[u8]; 4] = [
        b"{\"method\":\"org.verif.test.Echo\",\"parameters\":{\"token\":\"gone",
        b"{\"method\":\"org.varlink.service.GetInfo\"}",
        b"{",
        b" \t\r\n",
    ];
    for k in 0..max {
        if let Ok(mut c) = std::os::unix::net::UnixStream::connect(&path) {
            let _ = c.write_all(prefixes[k % prefixes.len()]);
            let _ = c.flush();
            std::thread::sleep(Duration::from_millis(20));
            drop(c);
        }
    }
    std::thread::sleep(Duration::from_millis(150));
    let mut answered = false;
    if let Ok(mut p) = Peer::connect(&a) {
        p.send(&encode(&json!({"method": "org.verif.test.Echo", "parameters": {"token": "newcomer", "n": 1}}), Style::Compact));
        answered = matches!(p.wait_finals(1, Duration::from_secs(5)), Wait::Reached);
    }
    let returned = stop_bounded(server, Duration::from_secs(8)).is_some();
    (answered, returned)
}

/// Ok(true): served; Ok(false): one unexplained stall; Err: the pattern repeated.
fn gone_peers(max: usize) -> Result<bool, Fail> {
    let (a1, r1) = gone_peers_round(max);
    if a1 && r1 {
        return Ok(true);
    }
    for _ in 0..3 {
        let (a2, r2) = gone_peers_round(max);
        if !a1 && !a2 {
            return Err(Fail::new(
                "listen/blocked-by-other-connection",
                format!("server with at most {} workers: {} peers sent the beginning of a message and disconnected; a newcomer 150 ms later got no answer within 5 s (twice) although no other connection was alive", max, max),
            ));
        }
        if !r1 && !r2 {
            return Err(Fail::new(
                "listen/worker-kept-by-a-connection-that-is-gone",
                format!("server with at most {} workers: {} peers sent the beginning of a message and disconnected; with every client gone and the stop flag set listen() had not returned after 8 s (twice): a worker is still occupied by a connection that no longer exists", max, max),
            ));
        }
    }
    Ok(false)
}

pub fn run(args: &Args) -> ! {
    // the servers run inside this process: a hostile input that takes the process down must be
    // attributed to its round, so the rounds run in a journaling child
    if !vl_model::isolate::is_child() && args.replay.is_none() {
        vl_model::isolate::supervise(args, "exploration", RULE, "listen/process-death", "c13-round");
    }
    let mut ctx = Ctx::new(args, "exploration");
    ctx.rule = RULE.into();
    ctx.assumptions = vec![
        "OS schedules are sampled by randomised segmentation and pauses; the reply-stream oracle is schedule-independent".into(),
        "`blocked` needs the pattern (stuck for 8 s while misbehaving peers are open, done within 8 s after they are closed) twice in a row; any other stall is inconclusive".into(),
    ];
    if let Some(p) = &args.replay {
        let v = load_replay(p);
        replay(&mut ctx, &v);
        ctx.finish();
    }
    if let Some(cj) = vl_model::isolate::one_case() {
        replay(&mut ctx, &json!({"case": cj}));
        std::process::exit(if ctx.failed() { 1 } else { 0 });
    }
    let journal = std::cell::RefCell::new(vl_model::isolate::Journal::open(0));
    let s = start_servers(ctx.seed);
    let addrs = s.addrs.clone();
    let hung = std::cell::Cell::new(0u32);
    let cases = ctx.tier.pick(400, 6_000);
    let maxc = ctx.tier.pick(24, 64);
    let r = pt::check_with(&mut ctx, "c13", cases, 60, 120_000, round_strategy(maxc), |ctx, round| {
        journal.borrow_mut().note(&round_json(round));
        match run_round(&addrs, round)? {
            RoundOutcome::Ok { overlapping } => {
                ctx.case(if overlapping && !round.bad.is_empty() { Some(hash64(&round_json(round).to_string())) } else { None });
                ctx.class(["round:unix", "round:abstract", "round:tcp"][round.transport]);
                ctx.class_n("clients", round.clients.len() as u64);
                ctx.sample(|| round_json(round));
                Ok(())
            }
            RoundOutcome::BlockedUntilBadClosed(k) => match run_round(&addrs, round)? {
                RoundOutcome::BlockedUntilBadClosed(_) => Err(Fail::new(
                    "listen/blocked-by-other-connection",
                    format!("{} client(s) completed only after the misbehaving peers were closed, in two consecutive runs of the round", k),
                )),
                _ => {
                    hung.set(hung.get() + 1);
                    Ok(())
                }
            },
            RoundOutcome::Hung => {
                hung.set(hung.get() + 1);
                Ok(())
            }
        }
    });
    if let Some((round, f)) = r {
        ctx.violation(&f.key, &f.what, "c13-round", round_json(&round));
    }
    // many requests in flight on several connections to several interfaces at once
    for k in 0..ctx.tier.pick(3usize, 40) {
        if ctx.failed() {
            break;
        }
        journal.borrow_mut().note(&json!({"hammer": 2000}));
        ctx.class("eight-clients-pipelining-2000-requests-each");
        match hammer(&addrs[k % 3], 2000) {
            Ok(true) => ctx.case(Some(hash64(&("hammer", k)))),
            Ok(false) => {
                ctx.case(None);
                hung.set(hung.get() + 1);
            }
            Err(f) => {
                ctx.case(None);
                ctx.violation(&f.key, &f.what, "c13-hammer", json!({"hammer": 2000, "transport": k % 3}));
            }
        }
    }
    // peers that vanish in the middle of a message, as many as there are workers; then a newcomer
    for (r, max) in [1usize, 2, 3, 2].iter().cycle().take(ctx.tier.pick(4, 40)).enumerate() {
        if ctx.failed() {
            break;
        }
        ctx.class("peers-gone-mid-message-then-a-newcomer");
        journal.borrow_mut().note(&json!({"gone_peers": max}));
        match gone_peers(*max) {
            Ok(true) => ctx.case(Some(hash64(&("gone", r, max)))),
            Ok(false) => {
                ctx.case(None);
                hung.set(hung.get() + 1);
            }
            Err(f) => {
                ctx.case(None);
                ctx.violation(&f.key, &f.what, "c13-gone", json!({"gone_peers": max}));
            }
        }
    }
    // bursts of connections that all stay open
    let bursts = ctx.tier.pick(20, 400);
    for r in 0..bursts {
        if ctx.failed() {
            break;
        }
        let k = [3usize, 5, 8, 16][r % 4];
        ctx.class("burst-of-held-connections");
        journal.borrow_mut().note(&json!({"burst_hold": k}));
        match burst_hold(k) {
            Ok(true) => ctx.case(Some(hash64(&("burst", r, k)))),
            Ok(false) => {
                ctx.case(None);
                hung.set(hung.get() + 1);
            }
            Err(f) => {
                ctx.case(None);
                ctx.violation(&f.key, &f.what, "c13-burst", json!({"burst_hold": k}));
            }
        }
    }
    // quiet periods: whatever the pool does with workers it no longer needs must not cost a newcomer
    let quiets: Vec<u64> = ctx.tier.pick(vec![1300, 2200], vec![300, 1300, 2200, 3500, 6000, 11000]);
    for (k, q) in quiets.iter().enumerate() {
        if ctx.failed() {
            break;
        }
        ctx.class("quiet-period-then-idle-peers");
        journal.borrow_mut().note(&json!({"quiet_ms": q, "transport": 0}));
        match quiet_then_idle(Duration::from_millis(*q)) {
            Ok(true) => ctx.case(Some(hash64(&("quiet", k, q)))),
            Ok(false) => {
                ctx.case(None);
                hung.set(hung.get() + 1);
            }
            Err(f) => {
                ctx.case(None);
                ctx.violation(&f.key, &f.what, "c13-quiet", json!({"quiet_ms": q, "transport": k % 3}));
            }
        }
    }
    if hung.get() > 0 {
        ctx.inconclusive(&format!("{} rounds stalled without the blocked-until-closed pattern", hung.get()));
    }
    for sv in s.servers {
        let stopped = match stop_bounded(sv, Duration::from_secs(15)) {
            Some(r) => r,
            None => {
                if !ctx.failed() {
                    ctx.inconclusive("listen() had not returned 15 s after the stop flag with every client gone");
                }
                continue;
            }
        };
        if let Err(e) = stopped {
            if e.contains("panicked") {
                ctx.violation("listen/worker-panic", "the listen() thread pool panicked", "c13-round", json!({"note": "pool join failed"}));
            }
        }
    }
    ctx.exhaustive = Some(false);
    ctx.finish()
}
