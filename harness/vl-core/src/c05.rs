//! C05 — `continues` only answers `more`; a `more` iteration ends at the final reply.

use proptest::prelude::*;
use serde_json::{json, Value};
use std::io::BufRead;
use std::sync::Mutex;
use varlink::{CallTrait, Interface};
use vl_model::ctx::{hash64, load_replay, Args, Ctx};
use vl_model::jsongen::json_value;
use vl_model::pt::{self, Fail};
use vl_model::wire::*;

use crate::c07::{check_outcome, expected_outcome, final_reply_strategy};
use crate::fake::{vcall, Fake};

pub const RULE: &str = "server: every script of length <= 4 over {set_continues(true), set_continues(false), \
reply, reply_error} (341 scripts) x request flags {none, more, oneway, more+oneway} interpreted inside a \
hand-written Interface::call, and random scripts up to length 10 with arbitrary reply values; oracle: a \
reference interpreter of the statement (each reply action either writes exactly one reply carrying \
continues:true iff the flag is set, or - flag set without `more` - fails with an error and writes nothing). \
client: scripted fake server sends k in 0..32 `continues` replies with arbitrary parameters, then a result or \
an error (standard or custom), then serves further calls; more() must yield exactly those k values, then the \
final outcome, then end; both connection slots are back and the next call gets its own reply. Client streams also contain error replies carrying continues:true (yielded as error items, the stream goes on). Non-trivial: \
server script contains a reply while continues is set and the request has no `more`; client stream ends in an \
error, has k = 0, or is followed by another call; distinct by (script, flags) / (k, final, follow-up). The end of a stream is also taken while another thread holds a read guard on the shared connection (k in {0,1,3} x final result / error): once that thread has let go the connection must be free.";

#[derive(Clone, Debug, PartialEq)]
pub enum Act {
    Cont(bool),
    Reply(Value),
    ReplyErr(String, Value),
}

fn act_json(a: &Act) -> Value {
    match a {
        Act::Cont(b) => json!({"set_continues": b}),
        Act::Reply(v) => json!({"reply": v}),
        Act::ReplyErr(n, v) => json!({"reply_error": n, "parameters": v}),
    }
}

fn act_from(v: &Value) -> Option<Act> {
    if let Some(b) = v.get("set_continues").and_then(|b| b.as_bool()) {
        return Some(Act::Cont(b));
    }
    if let Some(n) = v.get("reply_error").and_then(|n| n.as_str()) {
        return Some(Act::ReplyErr(n.to_string(), v["parameters"].clone()));
    }
    v.get("reply").map(|r| Act::Reply(r.clone()))
}

struct Scripted {
    /// stop at the first reply call that fails and hand its error to the service, as an
    /// implementation written with `?` does
    propagate: bool,
    script: Mutex<Vec<Act>>,
    /// per action: Some(true) = reply call returned Ok, Some(false) = returned Err, None = not a reply
    results: Mutex<Vec<Option<Result<(), String>>>>,
}

impl Interface for Scripted {
    fn get_description(&self) -> &'static str {
        "interface org.script\nmethod Run() -> ()\n"
    }
    fn get_name(&self) -> &'static str {
        "org.script"
    }
    fn call_upgraded(&self, _c: &mut varlink::Call, _r: &mut dyn BufRead) -> varlink::Result<Vec<u8>> {
        Ok(Vec::new())
    }
    fn call(&self, call: &mut varlink::Call) -> varlink::Result<()> {
        let script = self.script.lock().unwrap().clone();
        let mut results = vec![];
        let mut first_err = None;
        for a in &script {
            match a {
                Act::Cont(b) => {
                    call.set_continues(*b);
                    results.push(None);
                }
                Act::Reply(_) | Act::ReplyErr(..) => {
                    let r = match a {
                        Act::Reply(v) => call.reply_struct(varlink::Reply::parameters(Some(v.clone()))),
                        Act::ReplyErr(n, v) => call.reply_struct(varlink::Reply::error(n.clone(), Some(v.clone()))),
                        _ => unreachable!(),
                    };
                    results.push(Some(r.as_ref().map(|_| ()).map_err(|e| format!("{:?}", e.kind()))));
                    if self.propagate {
                        if let Err(e) = r {
                            first_err = Some(e);
                            break;
                        }
                    }
                }
            }
        }
        *self.results.lock().unwrap() = results;
        match first_err {
            Some(e) => Err(e),
            None => Ok(()),
        }
    }
}

fn script_json(script: &[Act], more: bool, oneway: bool) -> Value {
    json!({"script": script.iter().map(act_json).collect::<Vec<_>>(), "more": more, "oneway": oneway})
}

fn script_nontrivial(script: &[Act], more: bool) -> bool {
    if more {
        return false;
    }
    let mut cont = false;
    for a in script {
        match a {
            Act::Cont(b) => cont = *b,
            _ => {
                if cont {
                    return true;
                }
            }
        }
    }
    false
}

pub fn run_script(script: &[Act], more: bool, oneway: bool) -> Result<(), Fail> {
    run_script_spelled(script, more, oneway, false)
}

/// `spell_false`: flags that are not set are written as an explicit `false` instead of being absent
pub fn run_script_spelled(script: &[Act], more: bool, oneway: bool, spell_false: bool) -> Result<(), Fail> {
    let iface = Scripted {
        propagate: false,
        script: Mutex::new(script.to_vec()),
        results: Mutex::new(vec![]),
    };
    // keep a handle on the results through a leaked reference-free trick: run, then read back
    let iface = std::sync::Arc::new(iface);
    struct Fwd(std::sync::Arc<Scripted>);
    impl Interface for Fwd {
        fn get_description(&self) -> &'static str {
            self.0.get_description()
        }
        fn get_name(&self) -> &'static str {
            self.0.get_name()
        }
        fn call_upgraded(&self, c: &mut varlink::Call, r: &mut dyn BufRead) -> varlink::Result<Vec<u8>> {
            self.0.call_upgraded(c, r)
        }
        fn call(&self, call: &mut varlink::Call) -> varlink::Result<()> {
            self.0.call(call)
        }
    }
    let service = varlink::VarlinkService::new("v", "p", "1", "u", vec![Box::new(Fwd(iface.clone()))]);
    let mut req = json!({"method": "org.script.Run", "parameters": {}});
    if more {
        req["more"] = json!(true);
    } else if spell_false {
        req["more"] = json!(false);
    }
    if oneway {
        req["oneway"] = json!(true);
    } else if spell_false {
        req["oneway"] = json!(false);
    }
    if spell_false {
        req["upgrade"] = json!(false);
    }
    let bytes = encode(&req, Style::Compact);
    let run = run_chunks(&service, &[&bytes]);
    if let Some(p) = &run.panicked {
        return Err(Fail::new("continues/panic", format!("panicked: {}", p)));
    }
    if let Some(e) = &run.err {
        return Err(Fail::new("continues/handle-error", format!("handle() returned {} although the implementation returned Ok", e)));
    }
    let replies = split_replies("continues", &run.out)?;
    let results = iface.results.lock().unwrap().clone();

    // reference interpreter of the statement
    let mut cont = false;
    let mut want_wire: Vec<Value> = vec![];
    let mut want_res: Vec<Option<bool>> = vec![];
    for a in script {
        match a {
            Act::Cont(b) => {
                cont = *b;
                want_res.push(None);
            }
            Act::Reply(_) | Act::ReplyErr(..) => {
                if cont && !more {
                    want_res.push(Some(false));
                } else {
                    want_res.push(Some(true));
                    if !oneway {
                        let mut r = serde_json::Map::new();
                        match a {
                            Act::Reply(v) => {
                                r.insert("parameters".into(), v.clone());
                            }
                            Act::ReplyErr(n, v) => {
                                r.insert("error".into(), json!(n));
                                r.insert("parameters".into(), v.clone());
                            }
                            _ => {}
                        }
                        if cont {
                            r.insert("continues".into(), json!(true));
                        }
                        want_wire.push(Value::Object(r));
                    }
                }
            }
        }
    }
    // global clause first: no continues:true on the wire without `more`
    if !more {
        if let Some(r) = replies.iter().find(|r| r.get("continues") == Some(&Value::Bool(true))) {
            return Err(Fail::new(
                "continues/on-wire-without-more",
                format!("a reply carrying continues:true was written for a request without `more`: {}", r),
            ));
        }
    }
    for (i, (got, want)) in results.iter().zip(want_res.iter()).enumerate() {
        match (got, want) {
            (None, None) => {}
            (Some(Ok(())), Some(true)) => {}
            (Some(Err(e)), Some(false)) => {
                if e != "CallContinuesMismatch" {
                    return Err(Fail::new(
                        "continues/wrong-error",
                        format!("action {} failed with {} instead of the continues-mismatch error", i, e),
                    ));
                }
            }
            (g, w) => {
                return Err(Fail::new(
                    if *w == Some(false) { "continues/gate-missing" } else { "continues/reply-failed" },
                    format!("action {} ({}) returned {:?}, the statement requires {}", i, act_json(&script[i]), g,
                        if *w == Some(false) { "an error (continues set, request has no `more`)" } else { "success" }),
                ));
            }
        }
    }
    let norm = |v: &Value| -> Value {
        let mut m = v.as_object().cloned().unwrap_or_default();
        if matches!(m.get("continues"), Some(Value::Bool(false)) | Some(Value::Null)) {
            m.remove("continues");
        }
        if m.get("error") == Some(&Value::Null) {
            m.remove("error");
        }
        Value::Object(m)
    };
    // compare through serde_json's own text round trip of the expected values (float spelling)
    let want_wire: Vec<Value> = want_wire
        .iter()
        .map(|w| serde_json::from_str(&serde_json::to_string(w).unwrap()).unwrap())
        .collect();
    let got: Vec<Value> = replies.iter().map(norm).collect();
    if got != want_wire {
        return Err(Fail::new(
            "continues/wire-differs",
            format!("wire replies {} differ from what the script must produce {}", Value::Array(got), Value::Array(want_wire)),
        ));
    }
    Ok(())
}

/// The implementation hands the error of a refused reply to the service (as code written with `?`
/// does) and a further request is already buffered behind this one. Whatever the service then does,
/// the refused reply stays off the wire and the request does not end up with two final replies.
pub fn run_script_propagating(script: &[Act], more: bool, oneway: bool) -> Result<(), Fail> {
    let iface = Scripted { propagate: true, script: Mutex::new(script.to_vec()), results: Mutex::new(vec![]) };
    let service = varlink::VarlinkService::new("v", "p", "1", "u", vec![Box::new(iface)]);
    let mut req = json!({"method": "org.script.Run", "parameters": {}});
    if more {
        req["more"] = json!(true);
    }
    if oneway {
        req["oneway"] = json!(true);
    }
    let mut bytes = encode(&req, Style::Compact);
    bytes.extend(encode(&json!({"method": "org.varlink.service.GetInfo"}), Style::Compact));
    let run = run_chunks(&service, &[&bytes]);
    if let Some(p) = &run.panicked {
        return Err(Fail::new("continues/panic", format!("panicked: {}", p)));
    }
    let mut replies = split_replies("continues", &run.out)?;
    if let Some(last) = replies.last() {
        if last["parameters"]["interfaces"].is_array() && last["parameters"]["vendor"].is_string() {
            replies.pop(); // the buffered GetInfo was answered
        }
    }
    if !more {
        if let Some(r) = replies.iter().find(|r| r.get("continues") == Some(&Value::Bool(true))) {
            return Err(Fail::new("continues/on-wire-without-more", format!("a reply carrying continues:true was written for a request without `more`: {}", r)));
        }
    }
    if oneway && !replies.is_empty() {
        return Err(Fail::new("continues/reply-to-oneway", format!("a oneway request was answered: {}", Value::Array(replies))));
    }
    if oneway {
        return Ok(());
    }
    // what the script's successful reply calls put on the wire, up to the first refused one
    let mut cont = false;
    let mut want: Vec<Value> = vec![];
    for a in script {
        match a {
            Act::Cont(b) => cont = *b,
            Act::Reply(_) | Act::ReplyErr(..) => {
                if cont && !more {
                    break;
                }
                let mut r = serde_json::Map::new();
                match a {
                    Act::Reply(v) => {
                        r.insert("parameters".into(), v.clone());
                    }
                    Act::ReplyErr(n, v) => {
                        r.insert("error".into(), json!(n));
                        r.insert("parameters".into(), v.clone());
                    }
                    _ => {}
                }
                if cont {
                    r.insert("continues".into(), json!(true));
                }
                want.push(serde_json::from_str(&Value::Object(r).to_string()).unwrap());
            }
        }
    }
    let norm = |v: &Value| -> Value {
        let mut m = v.as_object().cloned().unwrap_or_default();
        if matches!(m.get("continues"), Some(Value::Bool(false)) | Some(Value::Null)) {
            m.remove("continues");
        }
        if m.get("error") == Some(&Value::Null) {
            m.remove("error");
        }
        Value::Object(m)
    };
    let got: Vec<Value> = replies.iter().map(norm).collect();
    if got.len() < want.len() || got[..want.len()] != want[..] {
        return Err(Fail::new(
            "continues/wire-differs",
            format!("wire replies {} do not start with what the script's accepted reply calls produce {}", Value::Array(got), Value::Array(want)),
        ));
    }
    let extra = &got[want.len()..];
    let had_final = want.iter().any(|r| r.get("continues") != Some(&Value::Bool(true)));
    let tolerable = extra.is_empty() || (!had_final && extra.len() == 1 && extra[0].get("error").map(|e| e.is_string()).unwrap_or(false));
    if !tolerable {
        return Err(Fail::new(
            "continues/reply-after-refused-reply",
            format!(
                "after the refused reply the wire carries {} beyond the accepted replies {} (the request {}): a refused reply leaves nothing on the wire, also not by way of the service",
                Value::Array(extra.to_vec()),
                Value::Array(want.clone()),
                if had_final { "already had its final reply" } else { "may get one error reply at most" }
            ),
        ));
    }
    Ok(())
}

fn all_scripts(maxlen: usize) -> Vec<Vec<Act>> {
    let acts = |step: usize| -> Vec<Act> {
        vec![
            Act::Cont(true),
            Act::Cont(false),
            Act::Reply(json!({"i": step})),
            Act::ReplyErr("org.script.Oops".into(), json!({"i": step})),
        ]
    };
    let mut out: Vec<Vec<Act>> = vec![vec![]];
    let mut frontier: Vec<Vec<Act>> = vec![vec![]];
    for step in 0..maxlen {
        let mut next = vec![];
        for s in &frontier {
            for a in acts(step) {
                let mut t = s.clone();
                t.push(a);
                next.push(t);
            }
        }
        out.extend(next.iter().cloned());
        frontier = next;
    }
    out
}

fn server_half(ctx: &mut Ctx) {
    let maxlen = ctx.tier.pick(4, 6);
    let scripts = all_scripts(maxlen);
    let n = scripts.len();
    for s in &scripts {
        for (more, oneway) in [(false, false), (true, false), (false, true), (true, true)] {
            ctx.case(if script_nontrivial(s, more) { Some(hash64(&(format!("{:?}", s), more, oneway))) } else { None });
            ctx.class("server:enumerated-script");
            ctx.sample(|| script_json(s, more, oneway));
            for spell_false in [false, true] {
                if spell_false {
                    ctx.case(if script_nontrivial(s, more) { Some(hash64(&(format!("{:?}", s), more, oneway, true))) } else { None });
                }
                if let Err(f) = pt::guard(|| run_script_spelled(s, more, oneway, spell_false)) {
                    let mut j = script_json(s, more, oneway);
                    j["unset_flags_spelled_false"] = json!(spell_false);
                    ctx.violation(&f.key, &f.what, "c05-server", j);
                }
            }
        }
    }
    for s in &scripts {
        for (more, oneway) in [(false, false), (true, false), (false, true), (true, true)] {
            ctx.case(if script_nontrivial(s, more) { Some(hash64(&(format!("{:?}", s), more, oneway, "propagating"))) } else { None });
            ctx.class("server:enumerated-script(error handed to the service, request buffered behind)");
            if let Err(f) = pt::guard(|| run_script_propagating(s, more, oneway)) {
                let mut j = script_json(s, more, oneway);
                j["propagating"] = json!(true);
                ctx.violation(&f.key, &f.what, "c05-server", j);
            }
        }
    }
    ctx.section("server_scripts_exhaustive", json!({"scripts": n, "max_len": maxlen, "flag_combinations": 4, "exhaustive": true}));
    let act = prop_oneof![
        2 => any::<bool>().prop_map(Act::Cont),
        3 => json_value(2).prop_map(Act::Reply),
        1 => ("[a-z]{1,4}\\.[A-Z][a-z]{0,4}", json_value(2)).prop_map(|(n, v)| Act::ReplyErr(n, v)),
    ];
    let strat = (prop::collection::vec(act, 0..=10), any::<bool>(), prop::bool::weighted(0.2), any::<bool>());
    let cases = ctx.tier.pick(80_000, 300_000);
    let r = pt::check(ctx, "c05-server-random", cases, strat, |ctx, (s, more, oneway, spell)| {
        ctx.case(if script_nontrivial(s, *more) { Some(hash64(&(format!("{:?}", s), more, oneway, spell))) } else { None });
        ctx.class("server:random-script");
        ctx.sample(|| script_json(s, *more, *oneway));
        run_script_spelled(s, *more, *oneway, *spell)
    });
    if let Some(((s, more, oneway, spell), f)) = r {
        let mut j = script_json(&s, more, oneway);
        j["unset_flags_spelled_false"] = json!(spell);
        ctx.violation(&f.key, &f.what, "c05-server", j);
    }
}

// ------------------------------------------------------------------------------------------------

#[derive(Clone, Debug)]
pub struct ClientCase {
    pub conts: Vec<Value>,
    /// indexes of continues replies that are *error* replies carrying `continues: true` (legal: the
    /// crate's own server writes them for set_continues(true) + reply_error); the stream goes on
    pub cont_errors: Vec<usize>,
    pub fin: Value,
    pub follow: Vec<Value>,
}

fn client_json(c: &ClientCase) -> Value {
    json!({"continues_params": c.conts, "continues_that_are_errors": c.cont_errors, "final": c.fin, "follow_up_finals": c.follow})
}

fn cont_reply(c: &ClientCase, i: usize) -> Value {
    if c.cont_errors.contains(&i) {
        json!({"continues": true, "error": "org.x.StreamHiccup", "parameters": c.conts[i]})
    } else {
        json!({"continues": true, "parameters": c.conts[i]})
    }
}

pub fn run_client(c: &ClientCase) -> Result<(), Fail> {
    let mut fake = Fake::new();
    let mut wire: Vec<Value> = (0..c.conts.len()).map(|i| cont_reply(c, i)).collect();
    wire.push(c.fin.clone());
    fake.push_replies(&wire);
    let mut call = vcall(&fake.conn, "org.x.Stream", json!({"token": "s"}));
    let it = match call.more() {
        Ok(it) => it,
        Err(e) => return Err(Fail::new("client-more/send-failed", format!("more() failed: {:?}", e.kind()))),
    };
    let mut got = vec![];
    for r in it.by_ref() {
        got.push(r);
        if got.len() > c.conts.len() + 4 {
            break;
        }
    }
    if got.len() != c.conts.len() + 1 {
        return Err(Fail::new(
            if got.len() <= c.conts.len() { "client-more/ended-early" } else { "client-more/did-not-end" },
            format!("service sent {} continues replies and a final one; the iterator yielded {} items", c.conts.len(), got.len()),
        ));
    }
    for (i, p) in c.conts.iter().enumerate() {
        if c.cont_errors.contains(&i) {
            check_outcome("client-more/error-item-with-continues", &expected_outcome(&cont_reply(c, i)), &got[i])?;
            continue;
        }
        let want: Value = serde_json::from_str(&p.to_string()).unwrap();
        let want = if want.is_null() { json!({}) } else { want };
        match &got[i] {
            Ok(v) if *v == want => {}
            other => {
                return Err(Fail::new(
                    "client-more/wrong-item",
                    format!("item {} should be Ok({}) but is {:?}", i, want, other.as_ref().map_err(|e| e.kind().clone())),
                ))
            }
        }
    }
    let last = got.pop().unwrap();
    check_outcome("client-more/final", &expected_outcome(&c.fin), &last)?;
    if it.next().is_some() {
        return Err(Fail::new("client-more/item-after-final", "the iterator yielded another item after the final reply"));
    }
    if !fake.slots_present() {
        return Err(Fail::new("client-more/slots-not-returned", "after the final reply the connection's reader/writer are not back"));
    }
    // follow-up calls get their own replies
    for (j, f) in c.follow.iter().enumerate() {
        fake.push_replies(std::slice::from_ref(f));
        let r = vcall(&fake.conn, "org.x.Next", json!({"j": j})).call();
        check_outcome("client-more/follow-up", &expected_outcome(f), &r)?;
    }
    let reqs = fake.requests().map_err(|e| Fail::new("client-more/garbled-request", e))?;
    if reqs.len() != 1 + c.follow.len() || reqs[0]["more"] != json!(true) || reqs[0]["method"] != "org.x.Stream" {
        return Err(Fail::new(
            "client-more/requests-written",
            format!("expected one `more` request and {} follow-ups on the wire, found {}", c.follow.len(), Value::Array(reqs)),
        ));
    }
    Ok(())
}

/// The end of a stream while another thread looks at the shared connection (it holds a read guard on the
/// `Arc<RwLock<Connection>>` for `hold_ms`): the iteration still ends after the final reply, and once the
/// other thread has let go the connection is free for the next call.
pub fn run_client_contended(k: usize, fin_err: bool, hold_ms: u64) -> Result<(), Fail> {
    let mut fake = Fake::new();
    let mut wire: Vec<Value> = (0..k).map(|i| json!({"continues": true, "parameters": {"i": i}})).collect();
    let fin = if fin_err { json!({"error": "org.x.Broken", "parameters": {"i": k}}) } else { json!({"parameters": {"i": k}}) };
    wire.push(fin.clone());
    fake.push_replies(&wire);
    let mut call = vcall(&fake.conn, "org.x.Stream", json!({"token": "s"}));
    let it = match call.more() {
        Ok(it) => it,
        Err(e) => return Err(Fail::new("client-more/send-failed", format!("more() failed: {:?}", e.kind()))),
    };
    for i in 0..k {
        match it.next() {
            Some(Ok(v)) if v["i"] == json!(i) => {}
            other => return Err(Fail::new("client-more/wrong-item", format!("item {} is {:?}", i, other.map(|r| r.map_err(|e| e.kind().clone()))))),
        }
    }
    let conn = fake.conn.clone();
    let (tx, rx) = std::sync::mpsc::channel::<()>();
    let holder = std::thread::spawn(move || {
        let guard = conn.read().unwrap();
        let _ = tx.send(());
        std::thread::sleep(std::time::Duration::from_millis(hold_ms));
        drop(guard);
    });
    let _ = rx.recv();
    let last = it.next();
    let end = it.next();
    let _ = holder.join();
    match last {
        Some(r) => check_outcome("client-more/final", &expected_outcome(&fin), &r)?,
        None => return Err(Fail::new("client-more/ended-early", "the iterator ended before the final reply")),
    }
    if end.is_some() {
        return Err(Fail::new("client-more/item-after-final", "the iterator yielded another item after the final reply"));
    }
    // one more poll of the finished iterator is harmless and must not be needed
    if !fake.slots_present() {
        return Err(Fail::new(
            "client-more/slots-not-returned",
            format!("another thread held a read guard on the connection for {} ms while the final reply was consumed; it has let go, the iteration is over, yet the connection's reader/writer are not back", hold_ms),
        ));
    }
    let f = json!({"parameters": {"after": k}});
    fake.push_replies(std::slice::from_ref(&f));
    let r = vcall(&fake.conn, "org.x.Next", json!({"j": 0})).call();
    check_outcome("client-more/follow-up", &expected_outcome(&f), &r)
}

/// Like run_client, with the scripted replies written by a thread (they do not fit a socket buffer).
pub fn run_client_big(c: &ClientCase) -> Result<(), Fail> {
    use std::io::Write;
    let mut fake = Fake::new();
    let mut bytes = vec![];
    for i in 0..c.conts.len() {
        bytes.extend(serde_json::to_vec(&cont_reply(c, i)).unwrap());
        bytes.push(0);
    }
    bytes.extend(serde_json::to_vec(&c.fin).unwrap());
    bytes.push(0);
    let mut w = fake.server.try_clone().map_err(|e| Fail::new("HARNESS/clone", e.to_string()))?;
    let writer = std::thread::spawn(move || {
        let _ = w.set_nonblocking(false);
        let _ = w.write_all(&bytes);
    });
    let mut call = vcall(&fake.conn, "org.x.Stream", json!({"token": "s"}));
    let it = call.more().map_err(|e| Fail::new("client-more/send-failed", format!("more() failed: {:?}", e.kind())))?;
    let mut n = 0usize;
    let mut bad = None;
    for (i, r) in it.by_ref().enumerate() {
        match r {
            Ok(v) if v["i"] == json!(i) => n += 1,
            other => {
                bad = Some(format!("item {} is {:?}", i, other.map(|v| v["i"].clone()).map_err(|e| e.kind().clone())));
                break;
            }
        }
        if n > c.conts.len() + 1 {
            break;
        }
    }
    // unblock the writer whatever happened
    if bad.is_some() || n != c.conts.len() + 1 {
        let _ = fake.server.shutdown(std::net::Shutdown::Both);
    }
    let _ = writer.join();
    if let Some(b) = bad {
        return Err(Fail::new("client-more/wrong-item", format!("stream of {} replies: {}", c.conts.len() + 1, b)));
    }
    if n != c.conts.len() + 1 {
        return Err(Fail::new("client-more/ended-early", format!("service sent {} continues replies and a final one; the iterator yielded {} items", c.conts.len(), n)));
    }
    if !fake.slots_present() {
        return Err(Fail::new("client-more/slots-not-returned", "after the final reply of a long stream the connection's reader/writer are not back"));
    }
    for (j, f) in c.follow.iter().enumerate() {
        fake.push_replies(std::slice::from_ref(f));
        let r = vcall(&fake.conn, "org.x.Next", json!({"j": j})).call();
        check_outcome("client-more/follow-up", &expected_outcome(f), &r)?;
    }
    Ok(())
}

fn client_half(ctx: &mut Ctx) {
    // every k in 0..=32 with a plain success final, exhaustively; then random
    for k in 0..=32usize {
        let c = ClientCase {
            conts: (0..k).map(|i| json!({"i": i})).collect(),
            cont_errors: if k % 3 == 2 { vec![k / 2] } else { vec![] },
            fin: json!({"parameters": {"i": k}}),
            follow: vec![json!({"parameters": {"after": k}})],
        };
        ctx.case(Some(hash64(&("k", k))));
        ctx.class("client:k-sweep");
        if let Err(f) = pt::guard(|| run_client(&c)) {
            ctx.violation(&f.key, &f.what, "c05-client", client_json(&c));
        }
    }
    // long streams: more than 1 MiB in total, made of many small replies / of a dozen large ones
    for (k, size) in [(20_000usize, 40usize), (12, 100_000)] {
        let blob = "x".repeat(size);
        let c = ClientCase {
            conts: (0..k).map(|i| json!({"i": i, "blob": blob})).collect(),
            cont_errors: vec![],
            fin: json!({"parameters": {"i": k}}),
            follow: vec![json!({"parameters": {"after": k}})],
        };
        ctx.case(Some(hash64(&("long-stream", k, size))));
        ctx.class("client:long-stream(> 1 MiB in total)");
        if let Err(f) = pt::guard(|| run_client_big(&c)) {
            ctx.violation(&f.key, &f.what, "c05-client", json!({"long_stream_replies": k, "blob_bytes": size}));
        }
    }
    // the end of a stream while another thread holds a read guard on the shared connection
    for k in [0usize, 1, 3] {
        for fin_err in [false, true] {
            ctx.case(Some(hash64(&("contended", k, fin_err))));
            ctx.class("client:stream-ends-while-another-thread-holds-a-read-guard");
            if let Err(f) = pt::guard(|| run_client_contended(k, fin_err, 40)) {
                ctx.violation(&f.key, &f.what, "c05-client", json!({"contended": {"continues": k, "final_is_error": fin_err, "hold_ms": 40}}));
            }
        }
    }
    let strat = (
        prop::collection::vec(json_value(2), 0..=32),
        prop::collection::vec(any::<prop::sample::Index>(), 0..3),
        final_reply_strategy(),
        prop::collection::vec(final_reply_strategy(), 0..3),
    )
        .prop_map(|(conts, errs, fin, follow)| {
            let mut cont_errors: Vec<usize> = if conts.is_empty() { vec![] } else { errs.iter().map(|i| i.index(conts.len())).collect() };
            cont_errors.sort();
            cont_errors.dedup();
            ClientCase { conts, cont_errors, fin, follow }
        });
    let cases = ctx.tier.pick(24_000, 100_000);
    let r = pt::check(ctx, "c05-client-random", cases, strat, |ctx, c| {
        let is_err = c.fin.get("error").map(|e| !e.is_null()).unwrap_or(false);
        let nt = is_err || c.conts.is_empty() || !c.follow.is_empty();
        ctx.case(if nt { Some(hash64(&client_json(c).to_string())) } else { None });
        ctx.class(if is_err { "client:stream-ends-in-error" } else { "client:stream-ends-in-result" });
        ctx.sample(|| client_json(c));
        run_client(c)
    });
    if let Some((c, f)) = r {
        ctx.violation(&f.key, &f.what, "c05-client", client_json(&c));
    }
}

fn replay(ctx: &mut Ctx, v: &Value) {
    let cj = &v["case"];
    ctx.case(None);
    ctx.force_sample(cj.clone());
    let res = if let Some(s) = cj.get("script").and_then(|s| s.as_array()) {
        let script: Vec<Act> = s.iter().filter_map(act_from).collect();
        if cj["propagating"] == json!(true) {
            run_script_propagating(&script, cj["more"].as_bool().unwrap_or(false), cj["oneway"].as_bool().unwrap_or(false))
        } else {
            run_script_spelled(&script, cj["more"].as_bool().unwrap_or(false), cj["oneway"].as_bool().unwrap_or(false), cj["unset_flags_spelled_false"].as_bool().unwrap_or(false))
        }
    } else if let Some(c) = cj.get("contended") {
        run_client_contended(c["continues"].as_u64().unwrap_or(0) as usize, c["final_is_error"].as_bool().unwrap_or(false), c["hold_ms"].as_u64().unwrap_or(40))
    } else {
        let arr = |x: &Value| x.as_array().cloned().unwrap_or_default();
        run_client(&ClientCase {
            conts: arr(&cj["continues_params"]),
            cont_errors: arr(&cj["continues_that_are_errors"]).iter().filter_map(|x| x.as_u64()).map(|x| x as usize).collect(),
            fin: cj["final"].clone(),
            follow: arr(&cj["follow_up_finals"]),
        })
    };
    if let Err(f) = res {
        ctx.violation(&f.key, &f.what, "c05-replay", cj.clone());
    }
}

pub fn run(args: &Args) -> ! {
    let mut ctx = Ctx::new(args, "exploration");
    ctx.rule = RULE.into();
    ctx.assumptions = vec![
        "an explicit continues:false / null on a final reply is treated like an absent member".into(),
        "client outcomes are judged by the reply -> outcome mapping of C07".into(),
    ];
    if let Some(p) = &args.replay {
        let v = load_replay(p);
        replay(&mut ctx, &v);
        ctx.finish();
    }
    server_half(&mut ctx);
    ctx.bump_sample_cap(6);
    client_half(&mut ctx);
    ctx.exhaustive = Some(false);
    ctx.finish()
}
