//! C16 — all transports and address forms behave identically.

use proptest::prelude::*;
use serde_json::{json, Value};
use std::path::PathBuf;
use std::sync::Arc;
use std::time::Duration;
use vl_model::ctx::{hash64, load_replay, Args, Ctx};
use vl_model::pt::{self, Fail};
use vl_model::sock::{Peer, Scratch, Server};
use vl_tsvc::t_service;
use vl_model::wire::*;

use crate::c01::{self, SockOutcome};

pub const RULE: &str = "(A) request sequences of C01 x transport in {unix path, unix path;mode=0660, unix:@abstract, \
tcp:127.0.0.1:port, tcp:localhost:port (where the name resolves to 127.0.0.1), service spawned by Connection::with_activate, stdio of a command spawned by \
Connection::with_bridge, a service started by the harness like a service manager would (descriptor 3 + LISTEN_*, \
default listen configuration) with a blocking and with a non-blocking inherited listener}: every transport's reply stream satisfies the reference model and equals (GetInfo's \
interface list compared as a set) the stream of the in-memory handler for the same requests at the same \
pipelining depth. (B) spawning constructors run in fresh helper processes whose descriptor table is varied (0..3 \
placeholder descriptors, so the listening socket is / is not already descriptor 3): the activated service dumps \
its environment and descriptor table: fd 3 is a listening socket without close-on-exec, LISTEN_FDS=1, \
LISTEN_FDNAMES=varlink, LISTEN_PID = its own pid, VARLINK_ADDRESS = the address it is reachable on; the \
constructor returns and a call through the connection succeeds. (C) Listener::new in a helper process over the \
matrix LISTEN_FDS {absent,0,1,3,junk} x LISTEN_PID {absent,own,other,junk} x LISTEN_FDNAMES {absent, varlink, \
a:varlink:b, a:b} x address {unix, tcp, bogus}: activation is honoured only when LISTEN_PID names the process \
(then descriptor 3, or 3 + index of `varlink`). (D) address strings from a scheme/garbage generator: every scheme \
other than tcp:/unix: is rejected with InvalidAddress by varlink_connect and Listener::new alike. Non-trivial: \
(A) a sequence of >= 2 requests over a non-unix-path transport; (B) every configuration; (C) a row with LISTEN_FDS \
set; (D) a string containing a colon; distinct by case.";

fn svc_bin() -> PathBuf {
    let exe = std::env::current_exe().expect("current_exe");
    exe.parent().unwrap().join("vl-svc")
}

fn normalise(replies: &[Value]) -> Vec<Value> {
    replies
        .iter()
        .map(|r| {
            let mut r = r.clone();
            if let Some(a) = r.pointer_mut("/parameters/interfaces").and_then(|x| x.as_array_mut()) {
                if a.len() > 1 {
                    a[1..].sort_by_key(|x| x.as_str().unwrap_or("").to_string());
                }
            }
            r
        })
        .collect()
}

fn mem_replies(svc: &varlink::VarlinkService, syms: &[Sym], depth: usize, style: u8) -> Vec<Value> {
    let st = build_stream(syms, |i| c01::style_of(style, i));
    let mut chunks: Vec<&[u8]> = vec![];
    let mut start = 0usize;
    let mut k = 0usize;
    while k < st.ends.len() {
        let e = st.ends[(k + depth - 1).min(st.ends.len() - 1)];
        chunks.push(&st.bytes[start..e]);
        start = e;
        k += depth;
    }
    let run = run_chunks(svc, &chunks);
    split_replies("handle", &run.out).unwrap_or_default()
}

pub struct Transports {
    /// spawning constructors that part (B) found broken are not used in-process
    pub skip: Vec<String>,
    _scratch: Scratch,
    servers: Vec<(String, String, Server)>, // (name, connect address, server)
    activated: Option<(Arc<std::sync::RwLock<varlink::Connection>>, String)>,
    activated_uses: usize,
    /// services the harness itself starts the way a service manager does (descriptor 3 + LISTEN_*), with
    /// the default listen configuration (no idle timeout): one with a blocking, one with a non-blocking
    /// inherited listening socket
    own: Vec<OwnActivated>,
}

pub struct OwnActivated {
    name: String,
    addr: String,
    child: std::process::Child,
}

impl Drop for OwnActivated {
    fn drop(&mut self) {
        unsafe {
            libc::kill(-(self.child.id() as i32), libc::SIGKILL);
        }
        let _ = self.child.kill();
        let _ = self.child.wait();
    }
}

fn spawn_own_activated(dir: &std::path::Path, tag: &str, nonblocking: bool) -> std::io::Result<OwnActivated> {
    use std::os::unix::io::AsRawFd;
    use std::os::unix::process::CommandExt;
    let path = dir.join(format!("own-{}.sock", tag));
    let listener = std::os::unix::net::UnixListener::bind(&path)?;
    listener.set_nonblocking(nonblocking)?;
    let lfd = listener.as_raw_fd();
    let mut cmd = std::process::Command::new("sh");
    cmd.arg("-c").arg("export LISTEN_PID=$$; exec \"$0\" activated").arg(svc_bin());
    cmd.env("LISTEN_FDS", "1")
        .env("LISTEN_FDNAMES", "varlink")
        .env("VARLINK_ADDRESS", format!("unix:{}", path.display()))
        .env("VL_IDLE", "0")
        .env_remove("VL_DUMP")
        .stdin(std::process::Stdio::null())
        .stdout(std::process::Stdio::null());
    cmd.process_group(0);
    unsafe {
        cmd.pre_exec(move || {
            if lfd == 3 {
                if libc::fcntl(3, libc::F_SETFD, 0) < 0 {
                    return Err(std::io::Error::last_os_error());
                }
            } else if libc::dup2(lfd, 3) < 0 {
                return Err(std::io::Error::last_os_error());
            }
            Ok(())
        });
    }
    let child = cmd.spawn()?;
    drop(listener);
    Ok(OwnActivated {
        name: format!("activated-by-harness({}-listener,no-idle-timeout)", if nonblocking { "nonblocking" } else { "blocking" }),
        addr: format!("unix:{}", path.display()),
        child,
    })
}

fn free_tcp_port(seed: u64, n: u64) -> u16 {
    // seed-derived range with retry on AddrInUse
    for k in 0..200u64 {
        let p = 20000 + ((seed * 7919 + n * 131 + k * 17) % 30000) as u16;
        if std::net::TcpListener::bind(("127.0.0.1", p)).is_ok() {
            return p;
        }
    }
    0
}

impl Transports {
    fn start(seed: u64) -> Transports {
        let scratch = Scratch::new("c16");
        let mut servers = vec![];
        // a socket file left behind by an instance that was killed is in the way of every filesystem
        // address, with or without `;` parameters: the service replaces it
        for name in ["plain.sock", "mode.sock", "params.sock"] {
            let _stale = std::os::unix::net::UnixListener::bind(scratch.path.join(name));
        }
        let a = scratch.unix_addr("plain.sock");
        servers.push(("unix-path".to_string(), a.clone(), Server::start(t_service().0, &a, 1, 32, 0)));
        let a = format!("{};mode=0660", scratch.unix_addr("mode.sock"));
        servers.push(("unix-path;mode".to_string(), a.clone(), Server::start(t_service().0, &a, 1, 32, 0)));
        // several `;` parameters, on a path and on an abstract name
        let a = format!("{};mode=0600;owner=me;x", scratch.unix_addr("params.sock"));
        servers.push(("unix-path;several-parameters".to_string(), a.clone(), Server::start(t_service().0, &a, 1, 32, 0)));
        let a = format!("unix:@vl-c16p-{}-{};mode=0600;x=y", std::process::id(), seed);
        servers.push(("unix-abstract;several-parameters".to_string(), a.clone(), Server::start(t_service().0, &a, 1, 32, 0)));
        let a = format!("unix:@vl-c16-{}-{}", std::process::id(), seed);
        servers.push(("unix-abstract".to_string(), a.clone(), Server::start(t_service().0, &a, 1, 32, 0)));
        let port = free_tcp_port(seed, 1);
        let a = format!("tcp:127.0.0.1:{}", port);
        servers.push(("tcp".to_string(), a.clone(), Server::start(t_service().0, &a, 1, 32, 0)));
        // a host name instead of an address literal: client and server both resolve it
        {
            use std::net::ToSocketAddrs;
            if ("localhost", 1u16).to_socket_addrs().map(|mut a| a.any(|x| x.ip() == std::net::Ipv4Addr::LOCALHOST)).unwrap_or(false) {
                let port = free_tcp_port(seed, 2);
                let a = format!("tcp:localhost:{}", port);
                servers.push(("tcp-hostname".to_string(), a.clone(), Server::start(t_service().0, &a, 1, 32, 0)));
            }
        }
        let mut own = vec![];
        for (tag, nb) in [("b", false), ("nb", true)] {
            if let Ok(o) = spawn_own_activated(&scratch.path, tag, nb) {
                own.push(o);
            }
        }
        Transports { skip: vec![], _scratch: scratch, servers, activated: None, activated_uses: 0, own }
    }

    fn activated_addr(&mut self) -> Result<String, Fail> {
        if self.activated.is_none() || self.activated_uses > 200 {
            self.activated = None;
            std::env::set_var("VL_IDLE", "30");
            let conn = varlink::Connection::with_activate(&format!("{} activated", svc_bin().display()))
                .map_err(|e| Fail::new("transport/with_activate-failed", format!("{:?}", e.kind())))?;
            let addr = conn.read().unwrap().address();
            self.activated = Some((conn, addr));
            self.activated_uses = 0;
        }
        self.activated_uses += 1;
        Ok(self.activated.as_ref().unwrap().1.clone())
    }

    fn stop(self) {
        for (_, _, s) in self.servers {
            let _ = s.stop();
        }
    }
}

/// The bridge command is a shell command line: plain, with an environment prefix, behind a builtin.
fn bridge_command(k: usize) -> String {
    let bin = svc_bin();
    match k % 4 {
        0 => format!("{} stdio", bin.display()),
        1 => format!("VL_UNUSED=1 {} stdio", bin.display()),
        2 => format!("cd / && {} stdio", bin.display()),
        _ => format!("umask 077; {} stdio", bin.display()),
    }
}

fn bridge_peer() -> Result<Peer, Fail> {
    static K: std::sync::atomic::AtomicUsize = std::sync::atomic::AtomicUsize::new(0);
    let cmd = bridge_command(K.fetch_add(1, std::sync::atomic::Ordering::Relaxed));
    let conn = varlink::Connection::with_bridge(&cmd)
        .map_err(|e| Fail::new("transport/with_bridge-failed", format!("{:?} (command {:?})", e.kind(), cmd)))?;
    let (reader, writer, fd) = {
        let mut g = conn.write().unwrap();
        let fd = g.stream.as_ref().map(|s| s.as_raw_fd()).unwrap_or(-1);
        (g.reader.take(), g.writer.take(), fd)
    };
    let (Some(reader), Some(writer)) = (reader, writer) else {
        return Err(Fail::new("transport/with_bridge-no-halves", "connection built by with_bridge has no reader/writer".to_string()));
    };
    // keep the connection (child handle, stream) alive as long as the peer lives
    let keep = conn.clone();
    Ok(Peer::from_parts(
        Box::new(reader),
        Box::new(writer),
        Box::new(move |how| {
            let _ = &keep;
            let h = match how {
                std::net::Shutdown::Write => libc::SHUT_WR,
                std::net::Shutdown::Read => libc::SHUT_RD,
                std::net::Shutdown::Both => libc::SHUT_RDWR,
            };
            if fd >= 0 {
                unsafe {
                    libc::shutdown(fd, h);
                }
            }
            if how == std::net::Shutdown::Both {
                // the command ends when its stdin is closed; reap it
                let ch = keep.write().unwrap().child.take();
                if let Some(mut ch) = ch {
                    let _ = ch.wait();
                }
            }
        }),
    ))
}

/// Connect with the library's own address parsing (varlink_connect), then talk raw bytes.
fn connect_via_library(addr: &str, where_: &str) -> Result<Peer, Fail> {
    let (mut stream, _) = varlink::varlink_connect(addr)
        .map_err(|e| Fail::new(format!("{}/varlink_connect-failed", where_), format!("varlink_connect({:?}): {:?}", addr, e.kind())))?;
    let (r, w) = stream
        .split()
        .map_err(|e| Fail::new(format!("{}/split-failed", where_), format!("{:?}", e.kind())))?;
    let fd = stream.as_raw_fd();
    let keep = std::sync::Mutex::new(Some(stream));
    Ok(Peer::from_parts(
        Box::new(r),
        Box::new(w),
        Box::new(move |how| {
            let h = match how {
                std::net::Shutdown::Write => libc::SHUT_WR,
                std::net::Shutdown::Read => libc::SHUT_RD,
                std::net::Shutdown::Both => libc::SHUT_RDWR,
            };
            unsafe {
                libc::shutdown(fd, h);
            }
            if how == std::net::Shutdown::Both {
                keep.lock().unwrap().take();
            }
        }),
    ))
}

pub fn run_case_a(tr: &mut Transports, svc: &varlink::VarlinkService, syms: &[Sym], depth: usize, style: u8, only: Option<&str>) -> Result<u32, Fail> {
    let want = normalise(&mem_replies(svc, syms, depth, style));
    let mut hung = 0;
    let mut names: Vec<(String, Option<String>)> = tr.servers.iter().map(|(n, a, _)| (n.clone(), Some(a.clone()))).collect();
    for o in &tr.own {
        names.push((o.name.clone(), Some(o.addr.clone())));
    }
    names.push(("with_activate".into(), None));
    names.push(("with_bridge".into(), None));
    for (name, addr) in names {
        if let Some(o) = only {
            if o != name {
                continue;
            }
        }
        if tr.skip.contains(&name) {
            continue;
        }
        let where_ = format!("transport[{}]", name);
        let peer = match name.as_str() {
            "with_activate" => {
                let a = tr.activated_addr()?;
                match Peer::connect(&a) {
                    Ok(p) => p,
                    Err(_) => {
                        // the activated service may have idled out; spawn a fresh one once
                        tr.activated = None;
                        let a = tr.activated_addr()?;
                        Peer::connect(&a).map_err(|e| Fail::new(format!("{}/connect", where_), e.to_string()))?
                    }
                }
            }
            "with_bridge" => bridge_peer()?,
            _ => connect_via_library(addr.as_ref().unwrap(), &where_)?,
        };
        let (out, replies) = c01::run_peer(peer, syms, depth, style, &where_, true)?;
        match out {
            SockOutcome::Hung => hung += 1,
            SockOutcome::Checked(_) => {
                let got = normalise(&replies);
                if got != want {
                    let at = got.iter().zip(want.iter()).position(|(a, b)| a != b).unwrap_or(got.len().min(want.len()));
                    return Err(Fail::new(
                        format!("{}/differs-from-in-memory", where_),
                        format!(
                            "reply #{} differs: transport gave {} ({} replies), the in-memory handler {} ({} replies)",
                            at,
                            got.get(at).unwrap_or(&Value::Null),
                            got.len(),
                            want.get(at).unwrap_or(&Value::Null),
                            want.len()
                        ),
                    ));
                }
            }
        }
    }
    Ok(hung)
}

/// One connection per transport: a call, 350 ms of silence (several accept-poll intervals), another
/// call. Every transport answers both.
fn pause_between_calls(tr: &Transports) -> Result<(), Fail> {
    for (name, addr, _) in &tr.servers {
        let where_ = format!("transport[{}]", name);
        let mut p = connect_via_library(addr, &where_)?;
        for (k, pause) in [(0usize, 350u64), (1, 0)] {
            let tok = format!("pause-{}", k);
            p.send(&encode(&json!({"method": "org.verif.test.Echo", "parameters": {"token": tok, "n": k}}), Style::Compact));
            match p.wait_piece(|v| v["parameters"]["token"] == tok.as_str(), Duration::from_secs(10)) {
                vl_model::sock::Wait::Reached => {}
                vl_model::sock::Wait::Eof => {
                    return Err(Fail::new(
                        format!("{}/idle-connection-closed", where_),
                        format!("call #{} on a connection that had been silent for 350 ms: the service had closed the connection (the other transports answer)", k),
                    ))
                }
                vl_model::sock::Wait::Stalled => return Ok(()),
            }
            std::thread::sleep(Duration::from_millis(pause));
        }
    }
    Ok(())
}

fn part_a(ctx: &mut Ctx, cases: u32, skip: Vec<String>) {
    let mut tr = Transports::start(ctx.seed);
    ctx.case(Some(hash64(&"pause-between-calls")));
    ctx.class("A:pause-between-two-calls(every transport)");
    if let Err(f) = pt::guard(|| pause_between_calls(&tr)) {
        ctx.violation(&f.key, &f.what, "c16-a", json!({"pause_between_calls_ms": 350}));
    }
    for s in &skip {
        ctx.exclude(&format!("A:transport-skipped-because-(B)-failed:{}", s));
    }
    tr.skip = skip;
    let (svc, _p) = t_service();
    let tr_cell = std::cell::RefCell::new(&mut tr);
    let hung = std::cell::Cell::new(0u32);
    let strat = c01::seq_strategy(alphabet(), 1, 10);
    let r = pt::check_with(ctx, "c16a", cases, 100, 60_000, strat, |ctx, (syms, depth, style)| {
        ctx.case(if syms.len() >= 2 { Some(hash64(&(syms, depth))) } else { None });
        ctx.class("A:sequence-over-10-transports");
        ctx.sample(|| c01::case_json(syms, *depth, *style, "all"));
        let h = run_case_a(&mut tr_cell.borrow_mut(), &svc, syms, *depth, *style, None)?;
        hung.set(hung.get() + h);
        Ok(())
    });
    if let Some(((syms, depth, style), f)) = r {
        ctx.violation(&f.key, &f.what, "c16-a", c01::case_json(&syms, depth, style, "all"));
    }
    if hung.get() > 0 {
        ctx.inconclusive(&format!("{} transport runs hung", hung.get()));
    }
    drop(tr_cell);
    tr.stop();
}

// ------------------------------------------------------------------------------------------------
// (B) spawning constructors in fresh processes

fn helper(args: &[&str], envs: &[(&str, &str)], limit: Duration) -> Result<Option<(bool, String)>, Fail> {
    let mut cmd = std::process::Command::new(svc_bin());
    cmd.args(args).stdout(std::process::Stdio::piped()).stderr(std::process::Stdio::piped());
    for (k, v) in envs {
        cmd.env(k, v);
    }
    {
        use std::os::unix::process::CommandExt;
        cmd.process_group(0);
    }
    let mut child = cmd.spawn().map_err(|e| Fail::new("HARNESS/spawn-helper", e.to_string()))?;
    let start = std::time::Instant::now();
    loop {
        match child.try_wait() {
            Ok(Some(st)) => {
                let mut out = String::new();
                use std::io::Read;
                if let Some(mut o) = child.stdout.take() {
                    let _ = o.read_to_string(&mut out);
                }
                return Ok(Some((st.success(), out)));
            }
            Ok(None) => {
                if start.elapsed() > limit {
                    // the helper and whatever it forked
                    unsafe {
                        libc::kill(-(child.id() as i32), libc::SIGKILL);
                    }
                    let _ = child.kill();
                    let _ = child.wait();
                    return Ok(None);
                }
                std::thread::sleep(Duration::from_millis(5));
            }
            Err(e) => return Err(Fail::new("HARNESS/wait-helper", e.to_string())),
        }
    }
}

/// A service that is gone before it accepted anything behaves like a dead service on any transport:
/// the client gets an error (at construction or at the first call), it does not wait for ever.
pub fn run_case_dead(kind: &str, cmd: &str) -> Result<(), Fail> {
    let mode = if kind == "activate" { "activate-client" } else { "bridge-client" };
    let mut res = None;
    for _attempt in 0..2 {
        res = helper(&[mode, "0", cmd], &[("VL_IDLE", "1")], Duration::from_secs(15))?;
        if res.is_some() {
            break;
        }
    }
    let Some((_ok, out)) = res else {
        return Err(Fail::new(
            format!("spawn/{}-dead-service-hangs", kind),
            format!("Connection::with_{}({:?}) - a command that ends without serving - followed by one call did not come back within 15 s, twice (a dead service yields an error on every other transport)", kind, cmd),
        ));
    };
    let v: Value = serde_json::from_str(out.trim()).unwrap_or(Value::Null);
    if v["call_ok"] == json!(true) {
        return Err(Fail::new(format!("spawn/{}-dead-service-answers", kind), format!("command {:?} serves nothing, yet the call succeeded: {}", cmd, out.trim())));
    }
    Ok(())
}

pub fn run_case_b(kind: &str, placeholders: usize, dir: &std::path::Path) -> Result<(), Fail> {
    let dump = dir.join(format!("dump-{}-{}.json", kind, placeholders));
    let _ = std::fs::remove_file(&dump);
    let cmd = format!("{} {}", svc_bin().display(), if kind == "activate" { "activated" } else { "stdio" });
    let mode = if kind == "activate" { "activate-client" } else { "bridge-client" };
    let ph = placeholders.to_string();
    let mut res = None;
    // a hang must reproduce before it is reported
    for _attempt in 0..2 {
        res = helper(&[mode, &ph, &cmd], &[("VL_DUMP", dump.to_str().unwrap()), ("VL_IDLE", "1")], Duration::from_secs(20))?;
        if res.is_some() {
            break;
        }
    }
    let Some((ok, out)) = res else {
        return Err(Fail::new(
            format!("spawn/{}-does-not-return", kind),
            format!("a process calling Connection::with_{}() with {} placeholder descriptors did not finish within 20 s, twice", kind, placeholders),
        ));
    };
    let v: Value = serde_json::from_str(out.trim()).unwrap_or(Value::Null);
    if !ok || v["constructed"] != json!(true) || v["call_ok"] != json!(true) {
        return Err(Fail::new(
            format!("spawn/{}-call-failed", kind),
            format!("with_{}() client with {} placeholder descriptors: exit ok={}, report {}", kind, placeholders, ok, out.trim()),
        ));
    }
    if v["vendor"] != vl_model::svc::VENDOR {
        return Err(Fail::new(format!("spawn/{}-wrong-service", kind), format!("GetInfo through the connection returned {}", v)));
    }
    if kind == "activate" {
        let d: Value = std::fs::read_to_string(&dump).ok().and_then(|s| serde_json::from_str(&s).ok()).unwrap_or(Value::Null);
        let pid = d["pid"].as_u64().unwrap_or(0).to_string();
        let checks: Vec<(&str, bool)> = vec![
            ("descriptor 3 is a listening socket", d["fd3"]["socket"] == json!(true) && d["fd3"]["listening"] == json!(true)),
            ("LISTEN_FDS=1", d["LISTEN_FDS"] == "1"),
            ("LISTEN_FDNAMES=varlink", d["LISTEN_FDNAMES"] == "varlink"),
            ("LISTEN_PID is the service's own pid", d["LISTEN_PID"] == pid.as_str()),
            ("VARLINK_ADDRESS is the address the client connects to", d["VARLINK_ADDRESS"] == v["address"] && d["VARLINK_ADDRESS"].is_string()),
        ];
        for (what, ok) in checks {
            if !ok {
                return Err(Fail::new(
                    format!("spawn/activation-environment/{}", what.split(' ').next().unwrap_or("")),
                    format!("socket-activated service (listener was descriptor {} in the client): `{}` does not hold; the service saw {}", v["first_free_fd"], what, d),
                ));
            }
        }
    }
    Ok(())
}

// ------------------------------------------------------------------------------------------------
// (C) activation matrix

pub fn run_case_c(fds: &str, pid: &str, names: &str, addr_kind: &str, dir: &std::path::Path, n: usize) -> Result<bool, Fail> {
    let addr = match addr_kind {
        "unix" => format!("unix:{}/mx-{}.sock", dir.display(), n),
        "tcp" => "tcp:127.0.0.1:0".to_string(),
        _ => "bogus:whatever".to_string(),
    };
    let Some((_, out)) = helper(&["listener-matrix", fds, pid, names, &addr], &[("VL_TMP", dir.to_str().unwrap())], Duration::from_secs(20))? else {
        return Err(Fail::new("HARNESS/matrix-helper-hung", format!("{} {} {} {}", fds, pid, names, addr)));
    };
    let v: Value = serde_json::from_str(out.trim()).map_err(|_| Fail::new("HARNESS/matrix-helper-output", out.clone()))?;
    let nfds: Option<usize> = fds.parse().ok().filter(|n| *n >= 1);
    let own = pid == "own";
    let activated = v["activated"] == json!(true);
    let row = format!("LISTEN_FDS={} LISTEN_PID={} LISTEN_FDNAMES={} address={}", fds, pid, names, addr);
    if !own && activated {
        return Err(Fail::new(
            "activation/honoured-for-foreign-pid",
            format!("{}: LISTEN_PID does not name the process but the listener took an inherited descriptor: {}", row, v),
        ));
    }
    if nfds.is_none() && activated {
        return Err(Fail::new("activation/honoured-without-fds", format!("{}: {}", row, v)));
    }
    if own {
        let expect_fd: Option<i64> = match nfds {
            Some(1) => Some(3),
            Some(_) => names.split(':').position(|x| x == "varlink").filter(|_| names != "-").map(|i| 3 + i as i64),
            None => None,
        };
        if let Some(fd) = expect_fd {
            if addr_kind == "bogus" {
                if v["kind"] != "InvalidAddress" {
                    return Err(Fail::new("activation/bogus-scheme-accepted", format!("{}: {}", row, v)));
                }
            } else if !(activated && v["fd"] == json!(fd)) {
                return Err(Fail::new(
                    "activation/not-honoured",
                    format!("{}: the listener should use inherited descriptor {} but reports {}", row, fd, v),
                ));
            }
            return Ok(true);
        }
    }
    if !activated {
        // plain bind
        match addr_kind {
            "bogus" => {
                if v["kind"] != "InvalidAddress" {
                    return Err(Fail::new("address/bogus-scheme-accepted-by-listener", format!("{}: {}", row, v)));
                }
            }
            _ => {
                if v["ok"] != json!(true) {
                    return Err(Fail::new("HARNESS/plain-bind-failed", format!("{}: {}", row, v)));
                }
            }
        }
    }
    Ok(nfds.is_some())
}

// ------------------------------------------------------------------------------------------------
// (D) address strings

fn garbage_address() -> impl Strategy<Value = String> {
    prop_oneof![
        prop::sample::select(vec![
            "", ":", "tcp", "unix", "unixx:/x", "UNIX:/x", "Tcp:127.0.0.1:1", "udp:127.0.0.1:1", "tcp;127.0.0.1:1", " unix:/x", "unix :/x",
            "exec:foo", "ssh://host", "device:/dev/x", "unix", "@abstract", "/run/x.sock", "127.0.0.1:1234", "tcp.127.0.0.1:1", "bridge",
        ])
        .prop_map(|s| s.to_string()),
        ("[a-zA-Z]{0,6}", "[:;/@]{0,2}", "[ -~]{0,12}").prop_map(|(a, b, c)| format!("{}{}{}", a, b, c)),
        prop::collection::vec(any::<char>(), 0..10).prop_map(|v| v.into_iter().collect()),
    ]
    .prop_filter("valid schemes are not garbage", |s| !s.starts_with("tcp:") && !s.starts_with("unix:"))
}

pub fn run_case_d(s: &str) -> Result<(), Fail> {
    match varlink::varlink_connect(s) {
        Err(e) if *e.kind() == varlink::ErrorKind::InvalidAddress => {}
        Err(e) => return Err(Fail::new("address/client-wrong-error", format!("varlink_connect({:?}) failed with {:?} instead of an invalid-address error", s, e.kind()))),
        Ok(_) => return Err(Fail::new("address/client-accepted", format!("varlink_connect({:?}) succeeded", s))),
    }
    match varlink::Listener::new(s) {
        Err(e) if *e.kind() == varlink::ErrorKind::InvalidAddress => {}
        Err(e) => return Err(Fail::new("address/server-wrong-error", format!("Listener::new({:?}) failed with {:?} instead of an invalid-address error", s, e.kind()))),
        Ok(_) => return Err(Fail::new("address/server-accepted", format!("Listener::new({:?}) succeeded", s))),
    }
    Ok(())
}

fn replay(ctx: &mut Ctx, v: &Value) {
    let cj = &v["case"];
    ctx.case(None);
    ctx.force_sample(cj.clone());
    let scratch = Scratch::new("c16r");
    let res = if let Some(k) = cj.get("spawn").and_then(|k| k.as_str()) {
        if let Some(cmd) = cj["dead_command"].as_str() {
            run_case_dead(k, cmd)
        } else {
            run_case_b(k, cj["placeholders"].as_u64().unwrap_or(0) as usize, &scratch.path)
        }
    } else if let Some(row) = cj.get("matrix").and_then(|m| m.as_array()) {
        let g = |i: usize| row.get(i).and_then(|x| x.as_str()).unwrap_or("-").to_string();
        run_case_c(&g(0), &g(1), &g(2), &g(3), &scratch.path, 0).map(|_| ())
    } else if let Some(a) = cj.get("address").and_then(|a| a.as_str()) {
        run_case_d(a)
    } else {
        let syms = syms_from_json(&cj["requests"]);
        let depth = cj["depth"].as_u64().unwrap_or(1) as usize;
        let style = cj["style"].as_u64().unwrap_or(0) as u8;
        let mut tr = Transports::start(ctx.seed + 1000);
        let (svc, _p) = t_service();
        let r = run_case_a(&mut tr, &svc, &syms, depth, style, None).map(|_| ());
        tr.stop();
        r
    };
    if let Err(f) = res {
        ctx.violation(&f.key, &f.what, "c16-replay", cj.clone());
    }
}

pub fn run(args: &Args) -> ! {
    let mut ctx = Ctx::new(args, "exploration");
    ctx.rule = RULE.into();
    ctx.assumptions = vec![
        "the harness binaries are built with debug assertions on (the profile in which std aborts on a doubly owned descriptor); the release-profile double-close race is not searched".into(),
        "a spawning constructor that does not return within 20 s in a fresh process, twice, is reported as a violation (normal duration: milliseconds)".into(),
        "for valid schemes with unreachable targets nothing is asserted".into(),
    ];
    if let Some(p) = &args.replay {
        let v = load_replay(p);
        replay(&mut ctx, &v);
        ctx.finish();
    }
    if !svc_bin().exists() {
        ctx.inconclusive("helper binary vl-svc not built");
        ctx.finish();
    }
    // (B)
    let mut skip: Vec<String> = vec![];
    let scratch = Scratch::new("c16b");
    for kind in ["activate", "bridge"] {
        for ph in 0..=3usize {
            ctx.case(Some(hash64(&(kind, ph))));
            ctx.class(&format!("B:with_{}", kind));
            ctx.force_sample(json!({"spawn": kind, "placeholders": ph}));
            if let Err(f) = pt::guard(|| run_case_b(kind, ph, &scratch.path)) {
                ctx.violation(&f.key, &f.what, "c16-b", json!({"spawn": kind, "placeholders": ph}));
                let t = format!("with_{}", kind);
                if !skip.contains(&t) {
                    skip.push(t);
                }
                if f.key.ends_with("does-not-return") {
                    break; // every further configuration would cost another 2 x 20 s
                }
            }
        }
    }
    for (kind, cmd) in [("activate", "exit 3"), ("activate", "/nonexistent/program --serve"), ("activate", "true"), ("bridge", "exit 3"), ("bridge", "/nonexistent/program")] {
        ctx.case(Some(hash64(&(kind, cmd, "dead"))));
        ctx.class(&format!("B:with_{}(command that serves nothing)", kind));
        if let Err(f) = pt::guard(|| run_case_dead(kind, cmd)) {
            ctx.violation(&f.key, &f.what, "c16-b", json!({"spawn": kind, "dead_command": cmd}));
        }
    }
    // (C)
    let mut n = 0usize;
    for fds in ["-", "0", "1", "3", "x1"] {
        for pid in ["-", "own", "other", "junk"] {
            for names in ["-", "varlink", "a:varlink:b", "a:b"] {
                for ak in ["unix", "tcp", "bogus"] {
                    n += 1;
                    match pt::guard(|| run_case_c(fds, pid, names, ak, &scratch.path, n)) {
                        Ok(nt) => {
                            ctx.case(if nt { Some(hash64(&(fds, pid, names, ak))) } else { None });
                            ctx.class("C:activation-matrix-row");
                            if n % 37 == 0 {
                                ctx.force_sample(json!({"matrix": [fds, pid, names, ak]}));
                            }
                        }
                        Err(f) => {
                            ctx.case(None);
                            ctx.violation(&f.key, &f.what, "c16-c", json!({"matrix": [fds, pid, names, ak]}));
                        }
                    }
                }
            }
        }
    }
    ctx.section("activation_matrix", json!({"rows": n, "exhaustive": true}));
    // (D)
    let cases = ctx.tier.pick(3_000, 60_000);
    let r = pt::check(&mut ctx, "c16d", cases, garbage_address(), |ctx, s| {
        ctx.case(if s.contains(':') { Some(hash64(s)) } else { None });
        ctx.class("D:garbage-address");
        ctx.sample(|| json!({"address": s}));
        run_case_d(s)
    });
    if let Some((s, f)) = r {
        ctx.violation(&f.key, &f.what, "c16-d", json!({"address": s}));
    }
    // (A)
    ctx.bump_sample_cap(5);
    let cases = ctx.tier.pick(120, 2_500);
    part_a(&mut ctx, cases, skip);
    ctx.exhaustive = Some(false);
    ctx.finish()
}
