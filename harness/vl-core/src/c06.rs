//! C06 — malformed or hostile input is contained.
//!
//! The in-memory part runs in a child process that journals every case before executing it, so
//! that an abort (stack overflow, double panic) is attributed to the case that caused it.

use proptest::prelude::*;
use serde_json::{json, Value};
use std::collections::HashMap;
use std::time::Duration;
use vl_model::classify::{classify, Class};
use vl_model::ctx::{hash64, load_replay, ncpu, parallel, Acc, Args, Ctx, Tier};
use vl_model::pt::{self, Fail};
use vl_model::sock::{Peer, Scratch, Server, Wait};
use vl_tsvc::t_service;
use vl_model::wire::*;

use crate::c02::{hex, unhex};

pub const RULE: &str = "corpus of valid request streams (C01/C02 alphabet without Upgrade, 1-6 messages, three JSON \
spellings) x faults enumerated systematically: every truncation point; per byte position x {flip bit (2 bits quick, \
8 thorough), delete, duplicate, insert NUL, insert 0xFF, insert C0 80, insert a lone-surrogate escape}; per JSON \
value position x {replace by null/true/0/1.5/string/[]/{}}, drop member; nesting 1, 2, 64, 119, 126-130, 137, 1000, \
10000 of arrays/objects inside parameters and at top level; empty message, whitespace-only message, 16 MiB messages; \
random byte strings. Each piece of the mutated stream is classified independently (malformed / well-formed / \
unspecified). Oracle: untouched well-formed pieces before the fault are answered exactly per the reference model; \
the first malformed piece gets no reply, handle() returns Err and nothing is written afterwards; mutated but \
well-formed pieces get at most one well-shaped final reply or a close; no panic, no abort. Through listen(): a \
healthy connection issues tagged calls before, during and after each faulty connection and a fresh connection \
afterwards; all are answered; the faulty connection is closed by the service; no worker panics. After the fault the peer's own writes must be refused (the connection is closed, not just silent). Non-trivial: the \
mutated stream contains a piece classified malformed; distinct by (operator, message kind, position class, \
malformed reason, stream).";

fn corpus() -> Vec<(Vec<Sym>, u8)> {
    let k = |kind, flag| Sym { kind, flag };
    use Flag::*;
    use Kind::*;
    let mut v: Vec<(Vec<Sym>, u8)> = vec![
        (vec![k(GetInfo, None)], 0),
        (vec![k(Echo, None)], 0),
        (vec![k(Echo, None)], 1),
        (vec![k(Echo, More)], 2),
        (vec![k(Echo, Oneway)], 0),
        (vec![k(DescKnown, None)], 0),
        (vec![k(Stream2, More)], 0),
        (vec![k(Fail, None)], 0),
        (vec![k(EchoVariant, None), k(GetInfo, None)], 0),
        (vec![k(Echo, None), k(Echo, None), k(Echo, None)], 0),
        (vec![k(GetInfo, None), k(Stream2, More), k(Echo, None)], 3),
        (vec![k(Echo, Oneway), k(Fail, None), k(DescBuiltin, None)], 0),
        (vec![k(UnknownIface, None), k(UnknownMethodGen, None), k(NoDot, None), k(Echo, None)], 0),
        (vec![k(DescUnknown, None), k(DescNoParams, None), k(UnknownMethodBuiltin, None), k(Echo, None)], 2),
        (vec![k(NoParams, None), k(Echo, None)], 0),
        (vec![k(Stream0, More), k(Stream0, None), k(EchoVariant, Oneway), k(EchoVariant, None)], 1),
        (vec![k(Big(0), None), k(Echo, None)], 0),
    ];
    // a few longer mixed ones
    let alpha: Vec<Sym> = alphabet().into_iter().filter(|s| !crate::c01::closes(s)).collect();
    let mut x = 7u32;
    for i in 0..7 {
        let mut s = vec![];
        for _ in 0..(3 + i % 4) {
            x = x.wrapping_mul(1103515245).wrapping_add(12345);
            s.push(alpha[(x >> 16) as usize % alpha.len()]);
        }
        v.push((s, (i % 4) as u8));
    }
    v
}

#[derive(Clone, Debug)]
pub struct Mutated {
    pub op: String,
    pub bytes: Vec<u8>,
    /// kind of the message that was hit (for the distinctness key)
    pub hit: String,
    pub posclass: &'static str,
}

fn posclass(b: u8, in_first: bool) -> &'static str {
    match b {
        0 => "nul",
        b'"' => "quote",
        b'{' | b'}' | b'[' | b']' => "bracket",
        b':' | b',' => "separator",
        b'0'..=b'9' | b'-' => "digit",
        b' ' | b'\n' | b'\t' | b'\r' => "blank",
        b'\\' => "escape",
        _ => {
            if in_first {
                "text(first message)"
            } else {
                "text(later message)"
            }
        }
    }
}

/// Systematic byte-level mutations of one stream.
fn byte_mutations(st: &Stream, bits: &[u8], f: &mut dyn FnMut(Mutated) -> bool) {
    let n = st.bytes.len();
    let msg_of = |pos: usize| st.ends.iter().position(|e| pos < *e).unwrap_or(st.ends.len() - 1);
    for pos in 0..n {
        let m = msg_of(pos);
        let hit = st.syms[m].name();
        let pc = posclass(st.bytes[pos], m == 0);
        let mk = |op: String, bytes: Vec<u8>| Mutated { op, bytes, hit: hit.clone(), posclass: pc };
        for &b in bits {
            let mut v = st.bytes.clone();
            v[pos] ^= 1 << b;
            if !f(mk(format!("flip-bit-{}@{}", b, pos), v)) {
                return;
            }
        }
        let mut v = st.bytes.clone();
        v.remove(pos);
        if !f(mk(format!("delete@{}", pos), v)) {
            return;
        }
        let mut v = st.bytes.clone();
        v.insert(pos, st.bytes[pos]);
        if !f(mk(format!("duplicate@{}", pos), v)) {
            return;
        }
        for (name, ins) in [
            ("insert-nul", &b"\0"[..]),
            ("insert-ff", &b"\xff"[..]),
            ("insert-c080", &b"\xc0\x80"[..]),
            ("insert-lone-surrogate", &b"\\ud800"[..]),
        ] {
            let mut v = st.bytes[..pos].to_vec();
            v.extend_from_slice(ins);
            v.extend_from_slice(&st.bytes[pos..]);
            if !f(mk(format!("{}@{}", name, pos), v)) {
                return;
            }
        }
        // truncation (then EOF)
        if !f(mk(format!("truncate@{}", pos), st.bytes[..pos].to_vec())) {
            return;
        }
    }
}

fn json_paths(v: &Value, cur: &mut Vec<String>, out: &mut Vec<Vec<String>>) {
    out.push(cur.clone());
    match v {
        Value::Object(o) => {
            for (k, x) in o {
                cur.push(k.clone());
                json_paths(x, cur, out);
                cur.pop();
            }
        }
        Value::Array(a) => {
            for (i, x) in a.iter().enumerate() {
                cur.push(i.to_string());
                json_paths(x, cur, out);
                cur.pop();
            }
        }
        _ => {}
    }
}

fn set_path(v: &mut Value, path: &[String], new: Option<Value>) {
    if path.is_empty() {
        if let Some(n) = new {
            *v = n;
        }
        return;
    }
    let (last, init) = path.split_last().unwrap();
    let mut cur = v;
    for p in init {
        cur = match cur {
            Value::Object(o) => o.get_mut(p).unwrap(),
            Value::Array(a) => a.get_mut(p.parse::<usize>().unwrap()).unwrap(),
            _ => return,
        };
    }
    match (cur, new) {
        (Value::Object(o), Some(n)) => {
            o.insert(last.clone(), n);
        }
        (Value::Object(o), None) => {
            o.remove(last);
        }
        (Value::Array(a), Some(n)) => a[last.parse::<usize>().unwrap()] = n,
        (Value::Array(a), None) => {
            a.remove(last.parse::<usize>().unwrap());
        }
        _ => {}
    }
}

fn nest(open: &str, close: &str, depth: usize, core: &str) -> String {
    let mut s = String::with_capacity(depth * 2 + core.len());
    for _ in 0..depth {
        s.push_str(open);
    }
    s.push_str(core);
    for _ in 0..depth {
        s.push_str(close);
    }
    s
}

/// Structural mutations: replace every JSON value position of every message by every other JSON
/// type, drop every member, nest deeply.
fn structural_mutations(syms: &[Sym], style: u8, f: &mut dyn FnMut(Mutated) -> bool) {
    let reqs: Vec<Value> = syms.iter().enumerate().map(|(i, s)| request(*s, i)).collect();
    let enc = |reqs: &[Vec<u8>]| -> Vec<u8> { reqs.concat() };
    let plain: Vec<Vec<u8>> = reqs.iter().enumerate().map(|(i, r)| encode(r, crate::c01::style_of(style, i))).collect();
    for (mi, r) in reqs.iter().enumerate() {
        let mut paths = vec![];
        json_paths(r, &mut vec![], &mut paths);
        for p in &paths {
            let repls: Vec<(&str, Option<Value>)> = vec![
                ("null", Some(Value::Null)),
                ("true", Some(json!(true))),
                ("int", Some(json!(0))),
                ("float", Some(json!(1.5))),
                ("string", Some(json!("s"))),
                ("array", Some(json!([]))),
                ("array1", Some(json!(["org.verif.test.Echo"]))),
                ("object", Some(json!({}))),
                ("drop", None),
            ];
            for (name, nv) in repls {
                if p.is_empty() && nv.is_none() {
                    continue;
                }
                let mut m = r.clone();
                set_path(&mut m, p, nv);
                if &m == r {
                    continue;
                }
                let mut all = plain.clone();
                all[mi] = encode(&m, Style::Compact);
                let ok = f(Mutated {
                    op: format!("retype:{}@msg{}/{}", name, mi, p.join("/")),
                    bytes: enc(&all),
                    hit: syms[mi].name(),
                    posclass: if p.is_empty() { "top-level" } else if p[0] == "parameters" { "inside parameters" } else { "protocol member" },
                });
                if !ok {
                    return;
                }
            }
        }
        // nesting
        for depth in [1usize, 2, 64, 119, 126, 127, 128, 129, 130, 137, 1000, 10000] {
            for (nm, open, close, core) in [
                ("array", "[", "]", "1"),
                ("object", "{\"a\":", "}", "1"),
                ("mixed", "[{\"a\":", "}]", "null"),
            ] {
                let nested = nest(open, close, depth, core);
                let msg = format!("{{\"method\":{},\"parameters\":{{\"token\":\"t\",\"n\":1,\"x\":{}}}}}\0", r["method"], nested);
                let mut all = plain.clone();
                all[mi] = msg.into_bytes();
                if !f(Mutated { op: format!("nest-{}-{}@msg{}/parameters", nm, depth, mi), bytes: enc(&all), hit: syms[mi].name(), posclass: "inside parameters" }) {
                    return;
                }
                let top = format!("{}\0", nest(open, close, depth, "{\"method\":\"org.varlink.service.GetInfo\"}"));
                let mut all = plain.clone();
                all[mi] = top.into_bytes();
                if !f(Mutated { op: format!("nest-{}-{}@msg{}/top", nm, depth, mi), bytes: enc(&all), hit: syms[mi].name(), posclass: "top-level" }) {
                    return;
                }
            }
        }
        // empty / blank messages in place of this one
        for (nm, b) in [("empty", &b"\0"[..]), ("blank", &b" \t\r\n\0"[..]), ("bare-string", &b"\"org.varlink.service.GetInfo\"\0"[..]), ("number", &b"42\0"[..]), ("bom", &b"\xef\xbb\xbf{\"method\":\"org.varlink.service.GetInfo\"}\0"[..])] {
            let mut all = plain.clone();
            all[mi] = b.to_vec();
            if !f(Mutated { op: format!("replace-by-{}@msg{}", nm, mi), bytes: enc(&all), hit: syms[mi].name(), posclass: "top-level" }) {
                return;
            }
        }
        // an extra member the protocol does not define, carrying valid and invalid UTF-8 (found by the
        // c06_handle fuzz target: serde_json skips such values without validating them; D16)
        for (nm, extra) in [
            ("unknown-member-utf8", &b",\"zz\":{\"k\":\"\xc3\xa9\"}"[..]),
            ("unknown-member-bad-utf8-value", &b",\"zz\":\"\x86\""[..]),
            ("unknown-member-bad-utf8-key", &b",\"zz\":{\"k\xff\":1}"[..]),
            ("unknown-member-truncated-utf8", &b",\"zz\":[\"\xe2\x82\"]"[..]),
            ("unknown-member-surrogate", &b",\"zz\":\"\xed\xa0\x80\""[..]),
            ("unknown-member-overlong", &b",\"zz\":\"\xc0\xaf\""[..]),
            ("unknown-member-number-out-of-range", &b",\"zz\":222222222e2222232222"[..]),
            ("unknown-member-lone-surrogate", &b",\"zz\":\"\\ud800\""[..]),
        ] {
            let mut one = plain[mi].clone();
            let Some(at) = one.iter().rposition(|b| *b == b'}') else { continue };
            one.splice(at..at, extra.iter().copied());
            let mut all = plain.clone();
            all[mi] = one;
            if !f(Mutated { op: format!("{}@msg{}", nm, mi), bytes: enc(&all), hit: syms[mi].name(), posclass: "protocol member" }) {
                return;
            }
        }
    }
}

pub use vl_model::oracles::{check_bytes, judge};

fn originals_of(st: &Stream) -> HashMap<Vec<u8>, (Sym, usize)> {
    let mut m = HashMap::new();
    let mut s0 = 0;
    for (i, e) in st.ends.iter().enumerate() {
        m.insert(st.bytes[s0..*e].to_vec(), (st.syms[i], i));
        s0 = *e;
    }
    m
}

fn mutated_json(syms: &[Sym], style: u8, m: &Mutated) -> Value {
    let big = m.bytes.len() > 4096;
    json!({
        "requests": syms_json(syms), "style": style, "op": m.op,
        "bytes_hex": if big { Value::Null } else { json!(hex(&m.bytes)) },
        "bytes_len": m.bytes.len(),
    })
}

use vl_model::isolate::{self, Journal};

fn systematic(ctx: &mut Ctx) {
    let corp = corpus();
    let bits: Vec<u8> = if ctx.tier == Tier::Quick { vec![0, 5] } else { (0..8).collect() };
    let corp = &corp;
    let bits = &bits;
    let accs = parallel(ncpu().min(corp.len()), |w, nw| {
        let (svc, _p) = t_service();
        let mut acc = Acc::default();
        let mut journal = Journal::open(w);
        let mut ci = w;
        while ci < corp.len() {
            let (syms, style) = &corp[ci];
            let st = build_stream(syms, |i| crate::c01::style_of(*style, i));
            let originals = originals_of(&st);
            let mut n = 0u64;
            let mut run_one = |m: Mutated| -> bool {
                n += 1;
                if m.bytes.len() <= 4096 {
                    journal.note(&mutated_json(syms, *style, &m));
                } else {
                    journal.note(&json!({"requests": syms_json(syms), "style": style, "op": m.op, "regenerate": true}));
                }
                match check_bytes(&svc, &originals, &m.bytes, "handle") {
                    Ok(v) => {
                        let opclass = m.op.split('@').next().unwrap_or("").to_string();
                        let opclass = if let Some(r) = opclass.strip_prefix("flip-bit-") { let _ = r; "flip-bit".to_string() } else { opclass };
                        let nt = v.malformed.map(|why| hash64(&(ci, &opclass, &m.hit, m.posclass, why, m.bytes.len())));
                        acc.case(nt);
                        acc.class(match (v.malformed, v.unspecified) {
                            (Some(_), _) => "mutant:malformed",
                            (None, true) => "mutant:unspecified(no alignment asserted)",
                            (None, false) => "mutant:still-well-formed",
                        });
                        if n % 4001 == 1 {
                            acc.sample(|| mutated_json(syms, *style, &m));
                        }
                        true
                    }
                    Err(f) => {
                        acc.case(None);
                        acc.fail((ci as u64) << 32 | n, &f.key, &f.what, mutated_json(syms, *style, &m));
                        false
                    }
                }
            };
            // the unmutated stream itself
            run_one(Mutated { op: "none".into(), bytes: st.bytes.clone(), hit: "-".into(), posclass: "-" });
            byte_mutations(&st, bits, &mut run_one);
            structural_mutations(syms, *style, &mut run_one);
            ci += nw;
        }
        acc
    });
    ctx.merge(accs, "c06-mem");
    ctx.section("systematic", json!({"corpus_streams": corp.len(), "bits_flipped_per_position": bits.len()}));
}

fn oversized(ctx: &mut Ctx) {
    let (svc, _p) = t_service();
    let mut journal = Journal::open(100);
    let none = HashMap::new();
    let mb16 = 16 * 1024 * 1024;
    let mut cases: Vec<(&str, Vec<u8>)> = vec![];
    // valid 16 MiB Big message
    let mut blob = String::with_capacity(mb16);
    while blob.len() < mb16 {
        blob.push_str("0123456789abcdef");
    }
    cases.push(("16MiB-valid-Big", format!("{{\"method\":\"org.verif.test.Big\",\"parameters\":{{\"blob\":\"{}\"}}}}\0", blob).into_bytes()));
    cases.push(("16MiB-no-nul", blob.clone().into_bytes()));
    cases.push(("16MiB-garbage-then-valid", {
        let mut v = blob.clone().into_bytes();
        v.push(0);
        v.extend_from_slice(b"{\"method\":\"org.varlink.service.GetInfo\"}\0");
        v
    }));
    cases.push(("16MiB-of-0xff", vec![0xff; mb16]));
    cases.push(("1MiB-of-nul", vec![0; 1 << 20]));
    cases.push(("unterminated-string-16MiB", format!("{{\"method\":\"{}", blob).into_bytes()));
    for (name, bytes) in cases {
        journal.note(&json!({"op": name, "regenerate": true}));
        match pt::guard(|| check_bytes(&svc, &none, &bytes, "handle")) {
            Ok(v) => {
                ctx.case(v.malformed.map(|w| hash64(&(name, w))));
                ctx.class("oversized");
            }
            Err(f) => {
                ctx.case(None);
                ctx.violation(&f.key, &f.what, "c06-mem", json!({"op": name, "regenerate": true}));
            }
        }
    }
}

fn random_bytes(ctx: &mut Ctx, cases: u32) {
    let (svc, _p) = t_service();
    let none: HashMap<Vec<u8>, (Sym, usize)> = HashMap::new();
    let journal = std::cell::RefCell::new(Journal::open(200));
    // random bytes biased towards JSON punctuation, plus valid messages spliced with noise
    let tok = prop_oneof![
        6 => any::<u8>().prop_map(|b| vec![b]),
        3 => Just(b"{\"method\":\"".to_vec()),
        2 => Just(b"org.varlink.service.GetInfo".to_vec()),
        2 => Just(b"org.verif.test.Echo".to_vec()),
        2 => Just(b"\",\"parameters\":{".to_vec()),
        2 => Just(b"\"token\":\"t\",\"n\":1}".to_vec()),
        2 => Just(b"}".to_vec()),
        3 => Just(vec![0u8]),
        1 => Just(b"\"more\":true,".to_vec()),
        1 => Just(b"\"oneway\":true,".to_vec()),
        1 => Just(b"[[[[".to_vec()),
        1 => Just(b"\\u0000".to_vec()),
        1 => Just(b"{\"method\":\"org.varlink.service.GetInfo\"}\0".to_vec()),
    ];
    let strat = prop::collection::vec(tok, 0..40).prop_map(|v| v.concat());
    let r = pt::check(ctx, "c06-random-bytes", cases, strat, |ctx, bytes| {
        journal.borrow_mut().note(&json!({"op": "random-bytes", "bytes_hex": hex(bytes)}));
        let v = check_bytes(&svc, &none, bytes, "handle")?;
        ctx.case(v.malformed.map(|w| hash64(&(w, bytes))));
        ctx.class(match (v.malformed, v.unspecified) {
            (Some(_), _) => "random:malformed",
            (None, true) => "random:unspecified",
            (None, false) => "random:well-formed-or-incomplete",
        });
        ctx.sample(|| json!({"op": "random-bytes", "bytes_hex": hex(bytes)}));
        Ok(())
    });
    if let Some((bytes, f)) = r {
        ctx.violation(&f.key, &f.what, "c06-mem", json!({"op": "random-bytes", "bytes_hex": hex(&bytes)}));
    }
}

// ------------------------------------------------------------------------------------------------
// listen(): healthy neighbours beside a faulty connection

const PATIENCE: Duration = Duration::from_secs(10);

fn healthy_call(p: &mut Peer, tag: &str, n_finals: usize) -> Result<bool, Fail> {
    let req = json!({"method": "org.verif.test.Echo", "parameters": {"token": tag, "n": 7}});
    p.send(&encode(&req, Style::Compact));
    match p.wait_finals(n_finals, PATIENCE) {
        Wait::Reached => {}
        Wait::Eof => {
            return Err(Fail::new("listen/neighbour-closed", format!("the healthy connection was closed by the service (call {})", tag)));
        }
        Wait::Stalled => return Ok(false),
    }
    let got = p.received();
    let replies = split_replies("listen/neighbour", &got)?;
    match replies.get(n_finals - 1) {
        Some(r) if r["parameters"]["token"] == tag && r.get("error").is_none() => Ok(true),
        other => Err(Fail::new(
            "listen/neighbour-wrong-reply",
            format!("healthy connection call {} got {:?}", tag, other),
        )),
    }
}

/// Returns Ok(false) when something stalled (inconclusive).
pub fn run_listen_case(addr: &str, originals: &HashMap<Vec<u8>, (Sym, usize)>, bytes: &[u8], id: u64) -> Result<bool, Fail> {
    let mut h = Peer::connect(addr).map_err(|e| Fail::new("listen/connect", e.to_string()))?;
    if !healthy_call(&mut h, &format!("before-{}", id), 1)? {
        return Ok(false);
    }
    let mut f = Peer::connect(addr).map_err(|e| Fail::new("listen/connect", e.to_string()))?;
    // send the faulty stream in two parts with the healthy call in between
    let mid = bytes.len() / 2;
    f.send(&bytes[..mid]);
    if !healthy_call(&mut h, &format!("during-{}", id), 2)? {
        return Ok(false);
    }
    f.send(&bytes[mid..]);
    // does the stream contain a malformed piece? then the service must close the connection itself
    let last_nul = bytes.iter().rposition(|b| *b == 0).map(|p| p + 1).unwrap_or(0);
    let mut has_complete_malformed = false;
    if last_nul > 0 {
        for piece in bytes[..last_nul - 1].split(|b| *b == 0) {
            match classify(piece) {
                Class::Malformed(_) => {
                    has_complete_malformed = true;
                    break;
                }
                Class::Unspecified(_) => break,
                _ => {}
            }
        }
    }
    let sentinel = json!({"method": "org.verif.test.Echo", "parameters": {"token": "sentinel-after-fault", "n": 0}});
    let is_sentinel = |v: &Value| v["parameters"]["token"] == "sentinel-after-fault";
    let mut open_to_end = false;
    if has_complete_malformed {
        match f.wait_eof(Duration::from_secs(3)) {
            Wait::Eof => {
                // end-of-stream on our side is not yet "closed": the service must have let go of the
                // connection altogether (a worker that only stops sending and keeps reading stays
                // occupied for as long as the hostile peer likes)
                if !f.write_refused(Duration::from_secs(2)) {
                    return Err(Fail::new(
                        "listen/malformed-half-closed",
                        "after a malformed message the service ended its sending direction but keeps the connection open for reading (writes are still accepted 2 s later)".to_string(),
                    ));
                }
            }
            _ => {
                // still open: is it still being served?
                f.send(&encode(&sentinel, Style::Compact));
                match f.wait_piece(is_sentinel, PATIENCE) {
                    Wait::Reached => {
                        return Err(Fail::new(
                            "listen/malformed-not-closed",
                            "the connection that sent a malformed message is still served afterwards (a later request was answered)".to_string(),
                        ));
                    }
                    Wait::Eof => {}
                    Wait::Stalled => return Ok(false),
                }
            }
        }
    } else {
        if last_nul == bytes.len() {
            // the stream ends on a message boundary: a sentinel tells whether the service kept
            // the connection open to the end
            f.send(&encode(&sentinel, Style::Compact));
            match f.wait_piece(is_sentinel, PATIENCE) {
                Wait::Reached => open_to_end = true,
                Wait::Eof => {}
                Wait::Stalled => return Ok(false),
            }
        }
        f.half_close();
        if matches!(f.wait_eof(PATIENCE), Wait::Stalled) {
            return Ok(false);
        }
    }
    let mut got = f.finish();
    if open_to_end {
        // strip the sentinel's reply (last piece)
        let cut = got[..got.len().saturating_sub(1)].iter().rposition(|b| *b == 0).map(|p| p + 1).unwrap_or(0);
        got.truncate(cut);
    }
    judge(originals, bytes, &got, !open_to_end, None, "listen")?;
    if !healthy_call(&mut h, &format!("after-{}", id), 3)? {
        return Ok(false);
    }
    let mut fresh = Peer::connect(addr).map_err(|e| Fail::new("listen/connect-after-fault", format!("a new connection after the faulty one failed: {}", e)))?;
    if !healthy_call(&mut fresh, &format!("fresh-{}", id), 1)? {
        return Ok(false);
    }
    Ok(true)
}

fn listen_part(ctx: &mut Ctx, cases: u32) {
    let scratch = Scratch::new("c06");
    let addr = scratch.unix_addr("c06.sock");
    let (svc, _p) = t_service();
    let server = Server::start(svc, &addr, 1, 16, 0);
    let corp = corpus();
    // collect a deterministic sample of the systematic mutants, spread over operators
    let mut pool: Vec<(usize, Mutated)> = vec![];
    for (ci, (syms, style)) in corp.iter().enumerate() {
        let st = build_stream(syms, |i| crate::c01::style_of(*style, i));
        let mut k = 0u64;
        let mut take = |m: Mutated| -> bool {
            k += 1;
            if m.bytes.len() < 200_000 && (k % 53 == (ci as u64 % 53)) {
                pool.push((ci, m));
            }
            true
        };
        byte_mutations(&st, &[0, 5], &mut take);
        structural_mutations(syms, *style, &mut take);
    }
    let n = pool.len();
    let journal = std::cell::RefCell::new(Journal::open(300));
    let stalls = std::cell::Cell::new(0u32);
    let strat = (0..n).prop_map(|i| i);
    let pool = &pool;
    let corp = &corp;
    let r = pt::check_with(ctx, "c06-listen", cases, 50, 60_000, strat, |ctx, i| {
        if stalls.get() >= 3 {
            // the server stopped answering healthy connections; further cases only burn time
            ctx.exclude("listen:skipped-after-repeated-stalls");
            return Ok(());
        }
        let (ci, m) = &pool[*i];
        let (syms, style) = &corp[*ci];
        let st = build_stream(syms, |j| crate::c01::style_of(*style, j));
        let originals = originals_of(&st);
        let malformed = {
            let last_nul = m.bytes.iter().rposition(|b| *b == 0).map(|p| p + 1).unwrap_or(0);
            last_nul > 0 && m.bytes[..last_nul - 1].split(|b| *b == 0).any(|p| matches!(classify(p), Class::Malformed(_)))
        };
        ctx.case(if malformed { Some(hash64(&(ci, &m.op))) } else { None });
        ctx.class(if malformed { "listen:faulty-connection(malformed)" } else { "listen:faulty-connection(other)" });
        ctx.sample(|| mutated_json(syms, *style, m));
        {
            // a hostile input may take the whole process down (the pool's threads are ours too)
            let mut j = mutated_json(syms, *style, m);
            j["transport"] = json!("unix");
            if m.bytes.len() > 4096 {
                j["regenerate"] = json!(true);
            }
            journal.borrow_mut().note(&j);
        }
        if !run_listen_case(&addr, &originals, &m.bytes, *i as u64)? {
            stalls.set(stalls.get() + 1);
        }
        Ok(())
    });
    if let Some((i, f)) = r {
        let (ci, m) = &pool[i];
        let (syms, style) = &corp[*ci];
        let mut j = mutated_json(syms, *style, m);
        j["transport"] = json!("unix");
        ctx.violation(&f.key, &f.what, "c06-listen", j);
    }
    if stalls.get() > 0 {
        ctx.inconclusive(&format!("{} listen() cases stalled (no verdict drawn from timing)", stalls.get()));
    }
    match server.stop() {
        Ok(()) => {}
        Err(e) if e.contains("panicked") => {
            ctx.violation("listen/worker-panic", "the listen() thread pool panicked (a worker thread died while serving hostile input)", "c06-listen", json!({"note": "see stderr log of the run"}));
        }
        Err(_) => {}
    }
}

// ------------------------------------------------------------------------------------------------

fn regenerate(cj: &Value) -> Option<Vec<u8>> {
    // rebuild the bytes of a systematic case from its operator name
    let syms = syms_from_json(&cj["requests"]);
    let style = cj["style"].as_u64().unwrap_or(0) as u8;
    let op = cj["op"].as_str()?.to_string();
    let mut found = None;
    if !syms.is_empty() {
        let st = build_stream(&syms, |i| crate::c01::style_of(style, i));
        let mut look = |m: Mutated| -> bool {
            if m.op == op {
                found = Some(m.bytes);
                false
            } else {
                true
            }
        };
        byte_mutations(&st, &[0, 1, 2, 3, 4, 5, 6, 7], &mut look);
        if found.is_none() {
            let mut look2 = |m: Mutated| -> bool {
                if m.op == op {
                    found = Some(m.bytes);
                    false
                } else {
                    true
                }
            };
            structural_mutations(&syms, style, &mut look2);
        }
    }
    found
}

fn replay_case(ctx: &mut Ctx, cj: &Value) {
    ctx.case(None);
    let syms = syms_from_json(&cj["requests"]);
    let style = cj["style"].as_u64().unwrap_or(0) as u8;
    let st = build_stream(&syms, |i| crate::c01::style_of(style, i));
    let originals = originals_of(&st);
    let bytes = match cj["bytes_hex"].as_str() {
        Some(h) => unhex(h),
        None => match regenerate(cj) {
            Some(b) => b,
            None => {
                // oversized cases are re-created by running that part again
                oversized(ctx);
                return;
            }
        },
    };
    let res = if cj["transport"] == "unix" {
        let scratch = Scratch::new("c06r");
        let addr = scratch.unix_addr("c06.sock");
        let (svc, _p) = t_service();
        let server = Server::start(svc, &addr, 1, 16, 0);
        let r = run_listen_case(&addr, &originals, &bytes, 0).map(|_| ());
        let _ = server.stop();
        r
    } else {
        let (svc, _p) = t_service();
        pt::guard(|| check_bytes(&svc, &originals, &bytes, "handle").map(|_| ()))
    };
    if let Err(f) = res {
        ctx.violation(&f.key, &f.what, "c06-replay", cj.clone());
    }
}

fn child_main(args: &Args) -> ! {
    let mut ctx = Ctx::new(args, "fault_enumeration");
    ctx.rule = RULE.into();
    ctx.assumptions = vec![
        "serde_json is a trusted dependency: the classifier uses it to decide whether a piece is JSON; what is tested is what handle()/listen() do with the verdict".into(),
        "unspecified pieces (top-level array, duplicate members, nesting within 8 of serde_json's limit) end the alignment check of that stream".into(),
        "stalls over sockets are inconclusive; a panicking worker thread is detected when the server is stopped".into(),
    ];
    if let Some(p) = &args.replay {
        let v = load_replay(p);
        ctx.force_sample(v["case"].clone());
        replay_case(&mut ctx, &v["case"]);
        ctx.finish();
    }
    if let Some(cj) = isolate::one_case() {
        // confirmation run of a journaled case (parent decides from our exit status)
        replay_case(&mut ctx, &cj);
        std::process::exit(if ctx.failed() { 1 } else { 0 });
    }
    systematic(&mut ctx);
    ctx.bump_sample_cap(4);
    oversized(&mut ctx);
    let n = ctx.tier.pick(160_000, 1_000_000);
    random_bytes(&mut ctx, n);
    ctx.bump_sample_cap(4);
    let n = ctx.tier.pick(1_000, 5_000);
    listen_part(&mut ctx, n);
    if ctx.tier == Tier::Thorough && !ctx.failed() {
        let mut seeds: Vec<Vec<u8>> = vec![];
        for (syms, style) in corpus() {
            seeds.push(build_stream(&syms, |i| crate::c01::style_of(style, i)).bytes);
        }
        if let Some(bytes) = vl_model::fuzz::campaign(&mut ctx, "c06_handle", 1_000_000, &seeds, 4096) {
            let (svc, _p) = t_service();
            let none = HashMap::new();
            match pt::guard(|| check_bytes(&svc, &none, &bytes, "handle").map(|_| ())) {
                Err(f) => {
                    ctx.violation(&f.key, &f.what, "c06-mem", json!({"op": "libfuzzer", "bytes_hex": hex(&bytes), "bytes_len": bytes.len(), "requests": [], "style": 0}));
                }
                Ok(()) => ctx.inconclusive("libFuzzer reported a crash that the oracle does not reproduce in-process"),
            }
        }
    }
    ctx.exhaustive = Some(false);
    ctx.finish()
}

pub fn run(args: &Args) -> ! {
    if isolate::is_child() {
        child_main(args);
    }
    isolate::supervise(args, "fault_enumeration", RULE, "handle/process-abort", "c06-mem")
}
