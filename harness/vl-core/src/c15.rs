//! C15 — the listen loop stops when and only when it should, and drains cleanly.

use proptest::prelude::*;
use serde_json::{json, Value};
use std::sync::atomic::{AtomicBool, Ordering};
use std::sync::{mpsc, Arc};
use std::time::{Duration, Instant};
use vl_model::ctx::{hash64, load_replay, Args, Ctx};
use vl_model::pt::{self, Fail};
use vl_model::sock::{Peer, Scratch};
use vl_tsvc::t_service;
use vl_model::wire::*;

pub const RULE: &str = "scenarios = configuration {idle_timeout 0/1/2 s} x {no stop flag, flag set at a planned time \
before / while / after connections} x {(1,1), (1,4), (2,100) workers} x connection plans on a 50 ms grid (none; one \
arriving just before the deadline; one living across several deadlines with a late joiner; one closing at the \
deadline; a 2000-reply streaming call in flight when the flag is set; several overlapping ones), a fixed family \
plus proptest-generated plans, run in parallel with private sockets. Oracle on a monotonic clock with one-sided \
bounds: Timeout only with idle_timeout > 0 and no earlier than last connect + idle_timeout - 20 ms; Ok only with \
the flag set, not before it was set; listen() returns no earlier than the client-side close of every connection \
that received at least one reply; every such connection's reply stream is complete per the reply-stream checker; \
the socket path is gone afterwards; generous upper bounds (flag -> return within 2.1 s when nothing is in flight, \
last close -> return within idle_timeout + 2 s) must be missed twice in a row to count. A connection that connected 150 ms or more before the flag was set (saturated-pool scenarios included) is served before listen() returns. Non-trivial: a scenario \
with at least one connection alive at a deadline or at the time the flag is set; distinct by scenario. A timeout error returned more than 30 ms after the stop flag was set (three runs in a row) means a set flag was passed over; fixed scenarios raise the flag inside the last poll interval before the idle deadline, and saturate the pool with one more connection queued that then lives across idle deadlines.";

#[derive(Clone, Debug)]
pub struct ConnPlan {
    pub open_ms: u64,
    pub close_ms: u64,
    /// number of Echo calls made right after connecting
    pub calls: usize,
    /// additionally start a streaming call with this many continues replies at this time
    pub stream_at_ms: Option<u64>,
}

#[derive(Clone, Debug)]
pub struct Scn {
    pub idle: u64,
    pub flag_ms: Option<u64>,
    pub workers: (usize, usize),
    pub conns: Vec<ConnPlan>,
    /// connections that must be served although they arrive after the stop flag was set: they
    /// arrive inside the poll interval in which the flag is set (pinned by connection 0's accept),
    /// i.e. before the loop can have looked at the flag
    pub must_serve: Vec<usize>,
    /// a stop flag is configured (the loop polls every 100 ms) but never set
    pub flag_never_set: bool,
}

fn scn_json(s: &Scn) -> Value {
    json!({"idle_timeout": s.idle, "flag_set_at_ms": s.flag_ms, "workers": [s.workers.0, s.workers.1],
        "must_serve": s.must_serve, "stop_flag_configured_but_never_set": s.flag_never_set, "connections": s.conns.iter().map(|c| json!({"open_ms": c.open_ms, "close_ms": c.close_ms, "calls": c.calls, "stream_at_ms": c.stream_at_ms})).collect::<Vec<_>>()})
}

fn scn_from(v: &Value) -> Scn {
    Scn {
        idle: v["idle_timeout"].as_u64().unwrap_or(0),
        flag_ms: v["flag_set_at_ms"].as_u64(),
        workers: (v["workers"][0].as_u64().unwrap_or(1) as usize, v["workers"][1].as_u64().unwrap_or(4) as usize),
        flag_never_set: v["stop_flag_configured_but_never_set"].as_bool().unwrap_or(false),
        must_serve: v["must_serve"].as_array().map(|a| a.iter().filter_map(|x| x.as_u64()).map(|x| x as usize).collect()).unwrap_or_default(),
        conns: v["connections"]
            .as_array()
            .map(|a| {
                a.iter()
                    .map(|c| ConnPlan {
                        open_ms: c["open_ms"].as_u64().unwrap_or(0),
                        close_ms: c["close_ms"].as_u64().unwrap_or(0),
                        calls: c["calls"].as_u64().unwrap_or(0) as usize,
                        stream_at_ms: c["stream_at_ms"].as_u64(),
                    })
                    .collect()
            })
            .unwrap_or_default(),
    }
}

struct ConnObs {
    /// taken after connect() returned: the connection existed no later than this
    connect: Option<Instant>,
    /// taken before connect() was called: the server cannot have accepted earlier than this (under load
    /// the two can be far apart; one-sided rules use the side that keeps them sound)
    connect_lo: Option<Instant>,
    close: Instant,
    bytes: Vec<u8>,
    plan: ConnPlan,
    number: usize,
}

const STREAM_K: i64 = 2000;

fn conn_thread(addr: String, t0: Instant, plan: ConnPlan, number: usize) -> ConnObs {
    let open_at = t0 + Duration::from_millis(plan.open_ms);
    let now = Instant::now();
    if open_at > now {
        std::thread::sleep(open_at - now);
    }
    let connect_lo = Instant::now();
    let mut peer = match Peer::connect(&addr) {
        Ok(p) => p,
        Err(_) => return ConnObs { connect: None, connect_lo: None, close: Instant::now(), bytes: vec![], plan, number },
    };
    let connect = Instant::now();
    let base = (number + 1) * 1000;
    let mut sent_finals = 0usize;
    for i in 0..plan.calls {
        let req = request(Sym { kind: Kind::Echo, flag: Flag::None }, base + i);
        peer.send(&encode(&req, Style::Compact));
        sent_finals += 1;
    }
    let _ = peer.wait_finals(sent_finals, Duration::from_secs(5));
    if let Some(at) = plan.stream_at_ms {
        let when = t0 + Duration::from_millis(at);
        let now = Instant::now();
        if when > now {
            std::thread::sleep(when - now);
        }
        let req = json!({"method": "org.verif.test.Stream", "more": true, "parameters": {"token": format!("s{}", number), "k": STREAM_K}});
        peer.send(&encode(&req, Style::Compact));
        sent_finals += 1;
        let _ = peer.wait_finals(sent_finals, Duration::from_secs(10));
    }
    let close_at = t0 + Duration::from_millis(plan.close_ms);
    let now = Instant::now();
    if close_at > now {
        std::thread::sleep(close_at - now);
    }
    let close = Instant::now();
    peer.half_close();
    let _ = peer.wait_eof(Duration::from_secs(10));
    let bytes = peer.finish();
    ConnObs { connect: Some(connect), connect_lo: Some(connect_lo), close, bytes, plan, number }
}

#[derive(Debug)]
pub enum ScnOutcome {
    Ok,
    /// an upper ("promptly") bound was missed; not a verdict unless it repeats
    Late(String),
    /// a connection that arrived while another one was still being served (no stop flag yet)
    /// got no reply; not a verdict unless it repeats
    Unserved(String),
    /// a timeout error although the stop flag had been set well before listen() returned (needs confirmation)
    TimeoutDespiteFlag(String),
}

pub fn run_scenario(s: &Scn, tag: &str) -> Result<ScnOutcome, Fail> {
    let scratch = Scratch::new(tag);
    let path = scratch.path.join("l.sock");
    let addr = format!("unix:{}", path.display());
    let stop = Arc::new(AtomicBool::new(false));
    let cfg = varlink::ListenConfig {
        initial_worker_threads: s.workers.0,
        max_worker_threads: s.workers.1,
        idle_timeout: s.idle,
        stop_listening: if s.flag_never_set { Some(stop.clone()) } else { s.flag_ms.map(|_| stop.clone()) },
    };
    let (rtx, rrx) = mpsc::channel();
    let a2 = addr.clone();
    let t_listen = Instant::now();
    std::thread::spawn(move || {
        let (svc, _p) = t_service();
        let r = std::panic::catch_unwind(std::panic::AssertUnwindSafe(|| varlink::listen(svc, &a2, &cfg)));
        let _ = rtx.send((Instant::now(), r.map(|x| x.map_err(|e| e.kind().clone()))));
    });
    // wait for the socket to exist (bound before the accept loop starts); no probe connection
    let wait0 = Instant::now();
    while !path.exists() && wait0.elapsed() < Duration::from_secs(5) {
        std::thread::sleep(Duration::from_millis(1));
    }
    let t0 = Instant::now();
    let mut handles = vec![];
    for (i, c) in s.conns.iter().enumerate() {
        let (a, c) = (addr.clone(), c.clone());
        handles.push(std::thread::spawn(move || conn_thread(a, t0, c, i)));
    }
    let mut t_flag = None;
    let mut t_flag_done: Option<Instant> = None;
    if let Some(ms) = s.flag_ms {
        let when = t0 + Duration::from_millis(ms);
        let now = Instant::now();
        if when > now {
            std::thread::sleep(when - now);
        }
        t_flag = Some(Instant::now());
        stop.store(true, Ordering::SeqCst);
        t_flag_done = Some(Instant::now());
    }
    let obs: Vec<ConnObs> = handles.into_iter().map(|h| h.join().expect("conn thread")).collect();
    let last_close = obs.iter().filter(|o| o.connect.is_some()).map(|o| o.close).max();
    // how long may listen() still take?
    let must_return = s.idle > 0 || s.flag_ms.is_some();
    let patience = Duration::from_secs(s.idle + 6);
    let ret = rrx.recv_timeout(patience);
    let (t_ret, result) = match ret {
        Ok((t, Ok(r))) => (t, r),
        Ok((_, Err(_))) => {
            return Err(Fail::new("listen/panicked", format!("varlink::listen panicked in scenario {}", scn_json(s))));
        }
        Err(_) => {
            if !must_return {
                // idle_timeout 0 without a flag: listen() is not supposed to return
                for o in &obs {
                    check_conn(o, s)?;
                }
                return Ok(ScnOutcome::Ok);
            }
            return Ok(ScnOutcome::Late(format!("listen() had not returned {} s after the last planned event", s.idle + 6)));
        }
    };
    let ms = |a: Instant, b: Instant| -> i64 {
        if a >= b {
            (a - b).as_millis() as i64
        } else {
            -((b - a).as_millis() as i64)
        }
    };
    let mut timeout_despite_flag: Option<String> = None;
    match &result {
        Err(varlink::ErrorKind::Timeout) => {
            if s.idle == 0 {
                return Err(Fail::new("listen/timeout-without-idle-timeout", "listen() returned a timeout error although idle_timeout is 0".to_string()));
            }
            // only connections proven accepted (they received a reply) reset the countdown for sure
            let last_connect = obs.iter().filter(|o| !o.bytes.is_empty()).filter_map(|o| o.connect_lo).max().unwrap_or(t_listen).max(t_listen);
            let need = last_connect + Duration::from_millis(s.idle * 1000) - Duration::from_millis(20);
            if t_ret < need {
                return Err(Fail::new(
                    "listen/timeout-too-early",
                    format!("timeout returned {} ms after the last new connection, idle_timeout is {} s", ms(t_ret, last_connect), s.idle),
                ));
            }
            // the loop looks at the flag on every poll tick and a timeout is only decided on such a tick with
            // nothing in service, so listen() returns right after that look: a timeout error more than 30 ms
            // after the flag was set means a set flag was passed over (the time is taken in the listen thread)
            if let Some(tf) = t_flag_done {
                if std::env::var_os("VL_TIMING").is_some() {
                    eprintln!("timeout with flag: t_ret - t_flag = {} ms, t_flag - t_listen = {} ms", ms(t_ret, tf), ms(tf, t_listen));
                }
                if t_ret > tf + Duration::from_millis(30) {
                    timeout_despite_flag = Some(format!("listen() returned a timeout error {} ms after the stop flag had been set (idle_timeout {} s)", ms(t_ret, tf), s.idle));
                }
            }
        }
        Ok(()) => match t_flag {
            None => return Err(Fail::new("listen/ok-without-flag", "listen() returned Ok although no stop flag was set".to_string())),
            Some(tf) => {
                if t_ret < tf {
                    return Err(Fail::new("listen/ok-before-flag", format!("listen() returned Ok {} ms before the stop flag was set", ms(tf, t_ret))));
                }
            }
        },
        Err(k) => {
            return Err(Fail::new("listen/unexpected-error", format!("listen() returned {:?}", k)));
        }
    }
    for o in &obs {
        let served = !o.bytes.is_empty();
        if served && t_ret < o.close {
            return Err(Fail::new(
                "listen/returned-while-serving",
                format!("listen() returned {} ms before connection #{} (which had received replies) was closed by its client", ms(o.close, t_ret), o.number),
            ));
        }
        check_conn(o, s)?;
    }
    // a late joiner while another connection is demonstrably being served must be served too
    for j in &obs {
        let Some(tj) = j.connect else { continue };
        if j.plan.calls == 0 || !j.bytes.is_empty() {
            continue;
        }
        let flag_before = t_flag.map(|tf| tf < tj + Duration::from_millis(300)).unwrap_or(false);
        let overlapping = obs.iter().filter(|a| a.number != j.number && a.connect.map(|c| c < j.close && tj < a.close).unwrap_or(false)).count();
        let alive_other = obs.iter().any(|a| a.number != j.number && !a.bytes.is_empty() && a.connect.map(|c| c < tj).unwrap_or(false) && a.close > tj + Duration::from_millis(300));
        if alive_other && !flag_before && overlapping < s.workers.1 {
            return Ok(ScnOutcome::Unserved(format!(
                "connection #{} connected while another connection was being served (and stayed so for > 300 ms), no stop flag was set, yet it got no reply within 5 s",
                j.number
            )));
        }
    }
    // a connection that connected well before the flag was set had been accepted (the loop accepts at
    // once while it runs) - however long it then waited for a worker, it is served before listen() returns
    if let Some(tf) = t_flag {
        for j in &obs {
            let Some(tj) = j.connect else { continue };
            if j.plan.calls == 0 || !j.bytes.is_empty() {
                continue;
            }
            if tj + Duration::from_millis(150) < tf {
                return Ok(ScnOutcome::Unserved(format!(
                    "connection #{} connected {} ms before the stop flag was set (so it had been accepted), waited for a worker, and got no reply: listen() returned without serving it",
                    j.number,
                    ms(tf, tj)
                )));
            }
        }
    }
    // "stops accepting shortly after the flag is set": a client that connected 400 ms or more after the flag
    // (four poll intervals) and was served nevertheless was accepted long after it (judged by repetition)
    if let Some(tf) = t_flag {
        for j in &obs {
            let Some(tj) = j.connect_lo else { continue };
            if !j.bytes.is_empty() && tj > tf + Duration::from_millis(400) {
                return Ok(ScnOutcome::Unserved(format!(
                    "connection #{} connected {} ms after the stop flag was set and was still accepted and served",
                    j.number,
                    ms(tj, tf)
                )));
            }
        }
    }
    for &i in &s.must_serve {
        if let Some(o) = obs.iter().find(|o| o.number == i) {
            // only meaningful when the measured times confirm the plan: connection 0 accepted first,
            // the flag set 10..70 ms into a poll interval, this connection later in the same interval
            let (Some(t_a), Some(t_b), Some(tf)) = (obs.iter().find(|x| x.number == 0).and_then(|x| x.connect), o.connect, t_flag) else { continue };
            let f = ms(tf, t_a);
            let d = ms(t_b, t_a);
            let same_interval = f >= 0 && d > f && f / 100 == d / 100 && (10..=70).contains(&(f % 100)) && d % 100 <= 92 && d % 100 >= f % 100 + 10;
            if same_interval && o.plan.calls > 0 && o.bytes.is_empty() {
                return Ok(ScnOutcome::Unserved(format!(
                    "connection #{} connected {} ms after connection #0 was accepted, the stop flag was set at {} ms (same 100 ms poll interval, before the loop could have seen it), yet it got no reply",
                    i, d, f
                )));
            }
        }
    }
    if let Some(m) = timeout_despite_flag {
        return Ok(ScnOutcome::TimeoutDespiteFlag(m));
    }
    if path.exists() {
        return Err(Fail::new("listen/socket-not-removed", format!("{} still exists after listen() returned", path.display())));
    }
    // upper bounds ("promptly" / "shortly")
    if let Some(tf) = t_flag {
        let base = last_close.map(|c| c.max(tf)).unwrap_or(tf);
        if ms(t_ret, base) > 2100 && result.is_ok() {
            return Ok(ScnOutcome::Late(format!("returned {} ms after the flag was set and the last connection closed", ms(t_ret, base))));
        }
    } else if s.idle > 0 {
        let base = last_close.unwrap_or(t_listen);
        if ms(t_ret, base) > (s.idle as i64) * 1000 + 2000 {
            return Ok(ScnOutcome::Late(format!("returned {} ms after the last connection closed (idle_timeout {} s)", ms(t_ret, base), s.idle)));
        }
    }
    Ok(ScnOutcome::Ok)
}

/// Completeness of one connection's reply stream (only if it got any reply: proof it was accepted).
fn check_conn(o: &ConnObs, s: &Scn) -> Result<(), Fail> {
    if o.bytes.is_empty() {
        return Ok(());
    }
    let replies = split_replies("listen[drain]", &o.bytes).map_err(|mut f| {
        f.key = "listen/reply-truncated".into();
        f.what = format!("connection #{}: {} (scenario {})", o.number, f.what, scn_json(s));
        f
    })?;
    let base = (o.number + 1) * 1000;
    let mut pos = 0usize;
    for i in 0..o.plan.calls {
        let want = expect(Sym { kind: Kind::Echo, flag: Flag::None }, base + i);
        match replies.get(pos) {
            Some(r) if fin_matches(&want.fin, r) => pos += 1,
            other => {
                return Err(Fail::new(
                    "listen/reply-missing-or-wrong",
                    format!("connection #{} call {}: expected {:?}, got {:?}", o.number, i, want.fin, other),
                ))
            }
        }
    }
    if o.plan.stream_at_ms.is_some() && pos < replies.len() {
        // the streaming call was started and answered at least partly: it must be complete
        let rest = &replies[pos..];
        let n_cont = rest.iter().filter(|r| r.get("continues") == Some(&Value::Bool(true))).count();
        let fin_ok = rest.last().map(|r| r.get("continues") != Some(&Value::Bool(true)) && r["parameters"]["i"] == json!(STREAM_K)).unwrap_or(false);
        if n_cont as i64 != STREAM_K || !fin_ok || rest.len() as i64 != STREAM_K + 1 {
            return Err(Fail::new(
                "listen/stream-truncated",
                format!("connection #{}: streaming call got {} continues replies and final_ok={} (expected {} + final)", o.number, n_cont, fin_ok, STREAM_K),
            ));
        }
        for (j, r) in rest.iter().take(STREAM_K as usize).enumerate() {
            if r["parameters"]["i"] != json!(j as i64) {
                return Err(Fail::new("listen/stream-out-of-order", format!("connection #{}: continues reply {} carries {}", o.number, j, r)));
            }
        }
    }
    Ok(())
}

fn fixed_family() -> Vec<Scn> {
    let mut v = vec![];
    let c = |open: u64, close: u64, calls: usize, stream: Option<u64>| ConnPlan { open_ms: open, close_ms: close, calls, stream_at_ms: stream };
    for workers in [(1usize, 1usize), (1, 4), (2, 100)] {
        for idle in [1u64, 2] {
            // no connection at all
            v.push(Scn { idle, flag_ms: None, workers, conns: vec![], must_serve: vec![], flag_never_set: false });
            // one arriving just before the deadline
            v.push(Scn { idle, flag_ms: None, workers, conns: vec![c(idle * 1000 - 150, idle * 1000 - 50, 1, None)], must_serve: vec![], flag_never_set: false });
            // one closing at the deadline
            v.push(Scn { idle, flag_ms: None, workers, conns: vec![c(100, idle * 1000, 1, None)], must_serve: vec![], flag_never_set: false });
            // long-lived across several deadlines (with a late joiner when workers allow)
            let mut conns = vec![c(100, idle * 2500, 2, None)];
            if workers.1 > 1 {
                conns.push(c(idle * 1000 + 600, idle * 1000 + 900, 1, None));
            }
            v.push(Scn { idle, flag_ms: None, workers, conns, must_serve: vec![], flag_never_set: false });
            // flag + idle timeout together
            v.push(Scn { idle, flag_ms: Some(400), workers, conns: vec![c(100, 700, 1, None)], must_serve: vec![], flag_never_set: false });
        }
        // stop flag only
        v.push(Scn { idle: 0, flag_ms: Some(0), workers, conns: vec![], must_serve: vec![], flag_never_set: false });
        v.push(Scn { idle: 0, flag_ms: Some(300), workers, conns: vec![], must_serve: vec![], flag_never_set: false });
        v.push(Scn { idle: 0, flag_ms: Some(300), workers, conns: vec![c(50, 200, 2, None)], must_serve: vec![], flag_never_set: false });
        v.push(Scn { idle: 0, flag_ms: Some(300), workers, conns: vec![c(100, 900, 1, None)], must_serve: vec![], flag_never_set: false });
        v.push(Scn { idle: 0, flag_ms: Some(400), workers, conns: vec![c(100, 1000, 1, Some(395))], must_serve: vec![], flag_never_set: false });
        if workers.1 > 1 {
            // a stop flag that is configured but never set changes the poll interval, nothing else: a
            // connection living across idle deadlines keeps the loop accepting, a late joiner is served
            for idle in [1u64, 2] {
                v.push(Scn { idle, flag_ms: None, workers, conns: vec![c(100, idle * 2500, 2, None), c(idle * 1000 + 600, idle * 1000 + 900, 1, None)], must_serve: vec![], flag_never_set: true });
                v.push(Scn { idle, flag_ms: None, workers, conns: vec![c(idle * 1000 - 150, idle * 1000 - 50, 1, None)], must_serve: vec![], flag_never_set: true });
            }
            // a connection is open when the flag is set; a client that connects 500 ms later is not accepted
            v.push(Scn { idle: 0, flag_ms: Some(300), workers, conns: vec![c(0, 1600, 1, None), c(800, 1400, 1, None)], must_serve: vec![], flag_never_set: false });
            v.push(Scn { idle: 2, flag_ms: Some(300), workers, conns: vec![c(0, 1600, 1, None), c(900, 1400, 2, None)], must_serve: vec![], flag_never_set: false });
        }
        if workers.1 == 1 {
            // a saturated pool: connection 1 is accepted while connection 0 occupies the only worker, the
            // flag is set, connection 0 ends - connection 1 was accepted before the flag and is served
            // to completion before listen() returns
            v.push(Scn { idle: 0, flag_ms: Some(300), workers, conns: vec![c(0, 600, 1, None), c(100, 1000, 2, None)], must_serve: vec![1], flag_never_set: false });
            v.push(Scn { idle: 0, flag_ms: Some(250), workers, conns: vec![c(0, 500, 1, None), c(60, 900, 1, Some(650)), c(120, 1100, 3, None)], must_serve: vec![1, 2], flag_never_set: false });
        }
        if workers.1 > 1 {
            // connection 0 pins the phase of the 100 ms poll (the loop restarts its wait after every
            // accept); the flag is set 20-30 ms into a poll interval and connection 1 arrives later in
            // the same interval, before the loop can have seen the flag: it must be served
            for (flag, arrive) in [(120u64, 160u64), (225, 270), (330, 385)] {
                v.push(Scn { idle: 0, flag_ms: Some(flag), workers, conns: vec![c(0, 1500, 1, None), c(arrive, arrive + 400, 2, None)], must_serve: vec![1], flag_never_set: false });
            }
            v.push(Scn { idle: 0, flag_ms: Some(500), workers, conns: vec![c(50, 1200, 1, Some(498)), c(100, 600, 3, None), c(450, 800, 1, None)], must_serve: vec![], flag_never_set: false });
        }
    }
    // a saturated pool with one more connection queued; the earlier ones end, the queued one is served and
    // lives across idle deadlines: the loop keeps accepting, a late joiner is served (no stop flag)
    v.push(Scn { idle: 1, flag_ms: None, workers: (1, 2), conns: vec![c(0, 400, 1, None), c(50, 500, 1, None), c(150, 3000, 1, None), c(2200, 2500, 1, None)], must_serve: vec![], flag_never_set: false });
    v.push(Scn { idle: 1, flag_ms: None, workers: (2, 3), conns: vec![c(0, 400, 1, None), c(40, 450, 1, None), c(80, 500, 2, None), c(160, 2800, 1, None), c(1900, 2300, 2, None)], must_serve: vec![], flag_never_set: false });
    v.push(Scn { idle: 1, flag_ms: None, workers: (1, 2), conns: vec![c(0, 300, 1, None), c(50, 350, 1, None), c(150, 2700, 1, None), c(1700, 2000, 1, None)], must_serve: vec![], flag_never_set: true });
    // the flag is raised inside the last poll interval before the idle deadline of an idle server: it is set
    // when the loop next looks, so listen() returns Ok, not a timeout error
    v
}

/// The flag is raised inside the last poll interval before the idle deadline of an idle server. These run one
/// after the other once the parallel batch is over: the plan only holds when the flag thread wakes up on time.
fn flag_before_deadline_family() -> Vec<Scn> {
    [(1u64, 930u64), (1, 950), (1, 965), (2, 1950)]
        .iter()
        .map(|(idle, flag)| Scn { idle: *idle, flag_ms: Some(*flag), workers: (1, 4), conns: vec![], must_serve: vec![], flag_never_set: false })
        .collect()
}

fn scn_strategy() -> impl Strategy<Value = Scn> {
    let conn = (0u64..24, 1u64..30, 0usize..4, prop::option::weighted(0.25, 0u64..24)).prop_map(|(o, len, calls, st)| ConnPlan {
        open_ms: o * 50,
        close_ms: (o + len) * 50,
        calls,
        stream_at_ms: st.map(|x| (o * 50).max(x * 50)).filter(|x| *x < (o + len) * 50),
    });
    (0u64..3, prop::option::weighted(0.6, 0u64..30), prop::sample::select(vec![(1usize, 1usize), (1, 4), (2, 100)]), prop::collection::vec(conn, 0..4)).prop_map(
        |(idle, flag, workers, mut conns)| {
            if workers.1 == 1 {
                // only as many simultaneous connections as the pool serves: one at a time
                conns.truncate(1);
            }
            // without idle timeout and without flag listen() never returns: give it a flag
            let flag_ms = if idle == 0 { Some(flag.unwrap_or(6) * 50) } else { flag.map(|f| f * 50) };
            Scn { idle, flag_ms, workers, conns, must_serve: vec![], flag_never_set: false }
        },
    )
}

fn nontrivial(s: &Scn) -> bool {
    let deadline_hit = s.idle > 0 && s.conns.iter().any(|c| {
        let d = s.idle * 1000;
        (c.open_ms..=c.close_ms).contains(&d) || c.close_ms > d
    });
    let at_flag = s.flag_ms.map(|f| s.conns.iter().any(|c| c.open_ms <= f && f <= c.close_ms)).unwrap_or(false);
    deadline_hit || at_flag
}

/// Run with the "late twice" rule.
fn judge(s: &Scn, tag: &str) -> Result<Option<String>, Fail> {
    match run_scenario(s, tag)? {
        ScnOutcome::Ok => Ok(None),
        ScnOutcome::Late(m1) => match run_scenario(s, tag)? {
            ScnOutcome::Late(m2) => Err(Fail::new(
                "listen/does-not-return-promptly",
                format!("twice in a row: {}; {} (scenario {})", m1, m2, scn_json(s)),
            )),
            _ => Ok(Some(format!("late once: {}", m1))),
        },
        ScnOutcome::TimeoutDespiteFlag(m1) => {
            // the flag is set a few tens of milliseconds before the deadline: whether the plan was met is a
            // matter of scheduling, so the pattern has to show in two further runs out of two
            let mut again = vec![];
            for _ in 0..2 {
                if let ScnOutcome::TimeoutDespiteFlag(m) = run_scenario(s, tag)? {
                    again.push(m);
                }
            }
            if again.len() == 2 {
                Err(Fail::new("listen/timeout-although-flag-was-set", format!("three times in a row: {}; {} (scenario {})", m1, again.join("; "), scn_json(s))))
            } else {
                Ok(Some(format!("timeout despite flag once: {}", m1)))
            }
        }
        ScnOutcome::Unserved(m1) => match run_scenario(s, tag)? {
            ScnOutcome::Unserved(m2) => Err(Fail::new(
                "listen/stopped-accepting-while-serving",
                format!("twice in a row: {}; {} (scenario {})", m1, m2, scn_json(s)),
            )),
            _ => Ok(Some(format!("unserved once: {}", m1))),
        },
    }
}

fn replay(ctx: &mut Ctx, v: &Value) {
    let s = scn_from(&v["case"]);
    ctx.case(None);
    ctx.force_sample(v["case"].clone());
    for k in 0..3 {
        if let Err(f) = judge(&s, &format!("c15r{}", k)) {
            ctx.violation(&f.key, &f.what, "c15-replay", v["case"].clone());
            break;
        }
    }
}

pub fn run(args: &Args) -> ! {
    let mut ctx = Ctx::new(args, "exploration");
    ctx.rule = RULE.into();
    ctx.assumptions = vec![
        "lower bounds use client-side timestamps that precede the server-side event they bound (connect() returns before accept(); the client's close precedes the server's EOF)".into(),
        "upper bounds (`promptly`, `shortly`) are 2 s beyond the nominal time and must be missed twice in a row; liveness is only approximated".into(),
        "a steady stream of connections faster than the 100 ms poll quantum is outside the quantified histories".into(),
    ];
    if let Some(p) = &args.replay {
        let v = load_replay(p);
        replay(&mut ctx, &v);
        ctx.finish();
    }
    // fixed family + generated plans, run in parallel (each scenario has its own socket)
    let mut scns = fixed_family();
    let nfixed = scns.len();
    let nrand = ctx.tier.pick(160, 2_000);
    scns.extend(pt::draw(ctx.seed, "c15", &scn_strategy(), nrand));
    let par = 24usize;
    let (tx, rx) = mpsc::channel();
    let scns = Arc::new(scns);
    let next = Arc::new(std::sync::atomic::AtomicUsize::new(0));
    let mut hs = vec![];
    for w in 0..par {
        let (tx, scns, next) = (tx.clone(), scns.clone(), next.clone());
        hs.push(std::thread::spawn(move || loop {
            let i = next.fetch_add(1, Ordering::SeqCst);
            if i >= scns.len() {
                break;
            }
            let r = judge(&scns[i], &format!("c15w{}", w));
            let _ = tx.send((i, r));
        }));
    }
    drop(tx);
    let mut results: Vec<(usize, Result<Option<String>, Fail>)> = rx.iter().collect();
    for h in hs {
        let _ = h.join();
    }
    results.sort_by_key(|r| r.0);
    let mut late_once = 0;
    for (i, r) in results {
        let s = &scns[i];
        ctx.case(if nontrivial(s) { Some(hash64(&scn_json(s).to_string())) } else { None });
        ctx.class(if i < nfixed { "scenario:fixed-family" } else { "scenario:generated" });
        if i % 7 == 0 {
            ctx.sample(|| scn_json(s));
        }
        match r {
            Ok(None) => {}
            Ok(Some(_)) => late_once += 1,
            Err(f) => {
                ctx.violation(&f.key, &f.what, "c15-scenario", scn_json(s));
            }
        }
    }
    if !ctx.failed() {
        for s in flag_before_deadline_family() {
            ctx.case(Some(hash64(&scn_json(&s).to_string())));
            ctx.class("scenario:flag-inside-the-last-poll-interval-before-the-idle-deadline");
            ctx.sample(|| scn_json(&s));
            match judge(&s, "c15serial") {
                Ok(None) => {}
                Ok(Some(_)) => late_once += 1,
                Err(f) => {
                    ctx.violation(&f.key, &f.what, "c15-scenario", scn_json(&s));
                    break;
                }
            }
        }
    }
    ctx.section("scenarios", json!({"fixed_family": nfixed, "generated": nrand, "late_once_not_repeated": late_once, "parallel": par}));
    ctx.exhaustive = Some(false);
    ctx.finish()
}
