//! A scripted fake service on an in-process socketpair, for the client-side checks (C05, C07).
//! Replies are written *before* the client calls, so a run needs no second thread and is fully
//! deterministic; what the client wrote is read back non-blockingly from the other end.

use serde_json::Value;
use std::io::{BufReader, Read, Write};
use std::os::unix::net::UnixStream;
use std::sync::{Arc, RwLock};

pub struct Fake {
    pub conn: Arc<RwLock<varlink::Connection>>,
    pub server: UnixStream,
    pub log: Vec<u8>,
}

/// A reader whose next `armed` reads fail with the chosen I/O error before touching the socket
/// (a slow service, a reset, ...); used to put a fault between a request and its reply.
pub struct FaultyReader {
    inner: UnixStream,
    pub armed: Arc<std::sync::atomic::AtomicU32>,
    pub kind: Arc<std::sync::atomic::AtomicU32>,
}

pub const FAULT_KINDS: [std::io::ErrorKind; 4] = [std::io::ErrorKind::TimedOut, std::io::ErrorKind::WouldBlock, std::io::ErrorKind::ConnectionReset, std::io::ErrorKind::Other];

impl Read for FaultyReader {
    fn read(&mut self, buf: &mut [u8]) -> std::io::Result<usize> {
        use std::sync::atomic::Ordering::SeqCst;
        if self.armed.load(SeqCst) > 0 {
            self.armed.fetch_sub(1, SeqCst);
            return Err(std::io::Error::new(FAULT_KINDS[self.kind.load(SeqCst) as usize % FAULT_KINDS.len()], "injected read fault"));
        }
        self.inner.read(buf)
    }
}

/// A writer whose flush (site 1) or write (site 2) fails with the chosen error while `armed` - but only
/// *after* the bytes have been handed to the socket, so the peer has the request: a fault reported late
/// (send timeout, an error surfacing at flush).
pub struct FaultyWriter {
    inner: UnixStream,
    pub armed: Arc<std::sync::atomic::AtomicU32>,
    pub kind: Arc<std::sync::atomic::AtomicU32>,
}

impl Write for FaultyWriter {
    fn write(&mut self, buf: &[u8]) -> std::io::Result<usize> {
        use std::sync::atomic::Ordering::SeqCst;
        let n = self.inner.write(buf)?;
        if self.armed.load(SeqCst) == 2 && n == buf.len() {
            self.armed.store(0, SeqCst);
            return Err(std::io::Error::new(FAULT_KINDS[self.kind.load(SeqCst) as usize % FAULT_KINDS.len()], "injected write fault (bytes already sent)"));
        }
        Ok(n)
    }
    fn flush(&mut self) -> std::io::Result<()> {
        use std::sync::atomic::Ordering::SeqCst;
        self.inner.flush()?;
        if self.armed.load(SeqCst) == 1 {
            self.armed.store(0, SeqCst);
            return Err(std::io::Error::new(FAULT_KINDS[self.kind.load(SeqCst) as usize % FAULT_KINDS.len()], "injected flush fault (bytes already sent)"));
        }
        Ok(())
    }
}

impl Fake {
    /// A fake whose client-side writer can be told to report a fault after the bytes went out: returns the
    /// fake, the `armed` selector (1: flush fails, 2: write fails) and the kind selector.
    pub fn with_faulty_writer() -> (Fake, Arc<std::sync::atomic::AtomicU32>, Arc<std::sync::atomic::AtomicU32>) {
        let (client, server) = UnixStream::pair().expect("socketpair");
        let _ = client.set_read_timeout(Some(std::time::Duration::from_secs(2)));
        let armed = Arc::new(std::sync::atomic::AtomicU32::new(0));
        let kind = Arc::new(std::sync::atomic::AtomicU32::new(0));
        let mut c = varlink::Connection::default();
        let r: Box<dyn Read + Send + Sync> = Box::new(client.try_clone().expect("clone"));
        c.reader = Some(BufReader::new(r));
        c.writer = Some(Box::new(FaultyWriter { inner: client, armed: armed.clone(), kind: kind.clone() }));
        server.set_nonblocking(true).expect("nonblocking");
        (Fake { conn: Arc::new(RwLock::new(c)), server, log: vec![] }, armed, kind)
    }

    /// A fake whose client-side reader can be told to fail: returns the fake, the `armed` counter and the kind selector.
    pub fn with_faulty_reader() -> (Fake, Arc<std::sync::atomic::AtomicU32>, Arc<std::sync::atomic::AtomicU32>) {
        let (client, server) = UnixStream::pair().expect("socketpair");
        let _ = client.set_read_timeout(Some(std::time::Duration::from_secs(2)));
        let armed = Arc::new(std::sync::atomic::AtomicU32::new(0));
        let kind = Arc::new(std::sync::atomic::AtomicU32::new(0));
        let mut c = varlink::Connection::default();
        let r: Box<dyn Read + Send + Sync> = Box::new(FaultyReader { inner: client.try_clone().expect("clone"), armed: armed.clone(), kind: kind.clone() });
        c.reader = Some(BufReader::new(r));
        c.writer = Some(Box::new(client));
        server.set_nonblocking(true).expect("nonblocking");
        (Fake { conn: Arc::new(RwLock::new(c)), server, log: vec![] }, armed, kind)
    }

    pub fn new() -> Fake {
        let (client, server) = UnixStream::pair().expect("socketpair");
        // every reply is queued before the client calls, so a client that waits at all is misbehaving:
        // its read then fails after 2 s instead of hanging the run
        let _ = client.set_read_timeout(Some(std::time::Duration::from_secs(2)));
        let mut c = varlink::Connection::default();
        let r: Box<dyn Read + Send + Sync> = Box::new(client.try_clone().expect("clone"));
        c.reader = Some(BufReader::new(r));
        c.writer = Some(Box::new(client));
        server.set_nonblocking(true).expect("nonblocking");
        Fake {
            conn: Arc::new(RwLock::new(c)),
            server,
            log: vec![],
        }
    }

    /// Queue reply objects for the client to read.
    pub fn push_replies(&mut self, replies: &[Value]) {
        let mut b = vec![];
        for r in replies {
            b.extend_from_slice(&serde_json::to_vec(r).unwrap());
            b.push(0);
        }
        self.push_raw(&b);
    }

    /// Like push_replies, for a connection the client may already have let go of: false when the
    /// bytes could not be written.
    pub fn try_push_replies(&mut self, replies: &[Value]) -> bool {
        let mut b = vec![];
        for r in replies {
            b.extend_from_slice(&serde_json::to_vec(r).unwrap());
            b.push(0);
        }
        self.server.set_nonblocking(false).unwrap();
        let ok = self.server.write_all(&b).is_ok();
        self.server.set_nonblocking(true).unwrap();
        ok
    }

    pub fn push_raw(&mut self, b: &[u8]) {
        self.server.set_nonblocking(false).unwrap();
        self.server.write_all(b).expect("fake server write");
        self.server.set_nonblocking(true).unwrap();
    }

    /// Everything the client has written so far (cumulative).
    pub fn drain(&mut self) -> &Vec<u8> {
        let mut buf = [0u8; 8192];
        loop {
            match self.server.read(&mut buf) {
                Ok(0) => break,
                Ok(n) => self.log.extend_from_slice(&buf[..n]),
                Err(_) => break,
            }
        }
        &self.log
    }

    /// Requests the client has written so far, parsed.
    pub fn requests(&mut self) -> Result<Vec<Value>, String> {
        self.drain();
        let mut v = vec![];
        if self.log.is_empty() {
            return Ok(v);
        }
        if *self.log.last().unwrap() != 0 {
            return Err("client output does not end in NUL".into());
        }
        for p in self.log[..self.log.len() - 1].split(|b| *b == 0) {
            v.push(serde_json::from_slice(p).map_err(|e| format!("client wrote non-JSON: {}", e))?);
        }
        Ok(v)
    }

    pub fn slots_present(&self) -> bool {
        let g = self.conn.read().unwrap();
        g.reader.is_some() && g.writer.is_some()
    }

    /// Close the server end (the client then reads EOF).
    pub fn close_server(&mut self) {
        let _ = self.server.shutdown(std::net::Shutdown::Both);
    }
}

pub type VCall = varlink::MethodCall<Value, Value, varlink::Error>;

pub fn vcall(conn: &Arc<RwLock<varlink::Connection>>, method: &str, params: Value) -> VCall {
    VCall::new(conn.clone(), method.to_string(), params)
}
