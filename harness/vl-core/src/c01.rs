//! C01 — every request is answered in order, exactly once, under pipelining.

use proptest::prelude::*;
use serde_json::{json, Value};
use std::time::Duration;
use vl_model::ctx::{hash64, load_replay, ncpu, parallel, Acc, Args, Ctx};
use vl_model::pt::{self, Fail};
use vl_model::sock::{Peer, Scratch, Server, Wait};
use vl_tsvc::t_service;
use vl_model::wire::*;

pub const RULE: &str = "request sequences over the 76-symbol alphabet (19 kinds x {none,more,oneway,more+oneway}); \
every sequence up to the tier's length bound at every pipelining depth 1..len through handle(), random \
longer ones (len 3..24, random depth, five JSON spellings incl. unset flags spelled false and an `upgrade: true` wish on methods that do not upgrade), \
random sequences through a real unix socket served by listen() with a sentinel request deciding whether the connection stayed open, \
and long pipelines (33..400 requests in one handle() call / one socket write). \
Non-trivial: depth >= 2 (at least two requests in flight) and an error-producing or streaming request \
precedes another request in the same in-flight group; distinct by (symbol sequence, depth, transport).";

pub fn style_of(mode: u8, i: usize) -> Style {
    match mode % 6 {
        0 => Style::Compact,
        1 => Style::Spaced,
        2 => Style::FlagsLast,
        3 => Style::FlagsFalse,
        5 => Style::UpgradeWish,
        _ => [Style::Compact, Style::FlagsFalse, Style::Spaced, Style::FlagsLast][i % 4],
    }
}

pub fn nontrivial(syms: &[Sym], depth: usize) -> bool {
    if depth < 2 || syms.len() < 2 {
        return false;
    }
    for chunk in syms.chunks(depth) {
        for (j, s) in chunk.iter().enumerate() {
            if j + 1 < chunk.len() && s.is_error_or_stream() {
                return true;
            }
        }
    }
    false
}

pub fn case_json(syms: &[Sym], depth: usize, style: u8, transport: &str) -> Value {
    json!({"requests": syms_json(syms), "depth": depth, "style": style, "transport": transport})
}

/// One in-memory run: `depth` complete messages per handle() call.
pub fn run_mem(
    svc: &varlink::VarlinkService,
    syms: &[Sym],
    depth: usize,
    style: u8,
) -> Result<CheckStats, Fail> {
    let st = build_stream(syms, |i| style_of(style, i));
    let mut chunks: Vec<&[u8]> = vec![];
    let mut start = 0usize;
    let mut k = 0usize;
    while k < st.ends.len() {
        let e = st.ends[(k + depth - 1).min(st.ends.len() - 1)];
        chunks.push(&st.bytes[start..e]);
        start = e;
        k += depth;
    }
    let run = run_chunks(svc, &chunks);
    if let Some(p) = &run.panicked {
        return Err(Fail::new(
            "handle/panic",
            format!("handle() panicked: {}", p),
        ));
    }
    let replies = split_replies("handle", &run.out)?;
    let end = if run.err.is_some() {
        End::Closed
    } else {
        End::Open
    };
    let stats = check_replies("handle", &st.syms, &st.exps, &replies, end)?;
    if end == End::Open && !run.tail.is_empty() && run.iface.is_none() {
        return Err(Fail::new(
            "handle/tail-after-complete-messages",
            format!(
                "all input consisted of complete messages but handle() returned {} unprocessed bytes",
                run.tail.len()
            ),
        ));
    }
    Ok(stats)
}

fn exhaustive(ctx: &mut Ctx, maxlen: usize) {
    let alpha = alphabet();
    let n = alpha.len();
    for len in 1..=maxlen {
        let total = n.pow(len as u32);
        let alpha = &alpha;
        let accs = parallel(ncpu(), |w, nw| {
            let (svc, _probe) = t_service();
            let mut acc = Acc::default();
            let mut idx = w;
            while idx < total {
                let mut syms = Vec::with_capacity(len);
                let mut x = idx;
                for _ in 0..len {
                    syms.push(alpha[x % n]);
                    x /= n;
                }
                for depth in 1..=len {
                  // every JSON spelling for the short sequences, the compact one beyond
                  for style in if len <= 2 { &[0u8, 1, 2, 3, 5][..] } else { &[0u8][..] }.iter().cloned() {
                    let nt = nontrivial(&syms, depth);
                    acc.case(if nt {
                        Some(hash64(&(&syms, depth, style, "mem")))
                    } else {
                        None
                    });
                    match run_mem(&svc, &syms, depth, style) {
                        Ok(st) => {
                            if st.closed_early {
                                acc.class("mem:closed-early");
                            } else {
                                acc.class("mem:open-to-end");
                            }
                        }
                        Err(f) => acc.fail(
                            (len as u64) << 40 | (idx as u64) << 6 | (depth as u64) << 3 | style as u64,
                            &f.key,
                            &f.what,
                            case_json(&syms, depth, style, "mem"),
                        ),
                    }
                    if idx % 997 == 0 && depth == len {
                        acc.sample(|| case_json(&syms, depth, style, "mem"));
                    }
                  }
                }
                idx += nw;
            }
            acc
        });
        ctx.merge(accs, "c01-mem");
        ctx.section(
            &format!("exhaustive_len_{}", len),
            json!({"sequences": total, "depths": len, "exhaustive": true}),
        );
    }
}

/// Symbols after which the T-service is expected to close the connection (generated dispatch
/// returns Err after its InvalidParameter reply; a `continues` reply without `more` fails).
pub fn closes(s: &Sym) -> bool {
    s.closes()
}

/// Random sequences; 60% of them avoid the closing symbols so that long pipelines stay open.
pub fn seq_strategy(
    alpha: Vec<Sym>,
    lo: usize,
    hi: usize,
) -> impl Strategy<Value = (Vec<Sym>, usize, u8)> {
    let open: Vec<Sym> = alpha.iter().filter(|s| !closes(s)).cloned().collect();
    let n = alpha.len();
    let m = open.len();
    (
        prop::collection::vec((0..n, 0..m), lo..=hi),
        any::<prop::sample::Index>(),
        0u8..6,
        0u8..10,
    )
        .prop_map(move |(ix, d, style, mode)| {
            let syms: Vec<Sym> = ix
                .into_iter()
                .map(|(i, j)| if mode < 6 { open[j] } else { alpha[i] })
                .collect();
            let depth = 1 + d.index(syms.len());
            (syms, depth, style)
        })
}

fn random_mem(ctx: &mut Ctx, cases: u32) {
    let (svc, _probe) = t_service();
    let strat = seq_strategy(alphabet(), 3, 24);
    let r = pt::check(
        ctx,
        "c01-mem-random",
        cases,
        strat,
        |ctx, (syms, depth, style)| {
            let nt = nontrivial(syms, *depth);
            ctx.case(if nt {
                Some(hash64(&(syms, depth, "mem")))
            } else {
                None
            });
            ctx.sample(|| case_json(syms, *depth, *style, "mem"));
            let st = run_mem(&svc, syms, *depth, *style)?;
            ctx.class(if st.closed_early {
                "mem:closed-early"
            } else {
                "mem:open-to-end"
            });
            Ok(())
        },
    );
    if let Some(((syms, depth, style), f)) = r {
        ctx.violation(
            &f.key,
            &f.what,
            "c01-mem",
            case_json(&syms, depth, style, "mem"),
        );
    }
}

static STALL_MS: std::sync::atomic::AtomicU64 = std::sync::atomic::AtomicU64::new(6000);

/// Patience for a reply. After the first stall of a run it drops, so that a tree on which
/// requests are silently dropped does not cost seconds per case (a healthy tree never stalls).
pub fn stall() -> Duration {
    Duration::from_millis(STALL_MS.load(std::sync::atomic::Ordering::Relaxed))
}

fn note_stall() {
    STALL_MS.store(1200, std::sync::atomic::Ordering::Relaxed);
}

#[derive(Debug)]
pub enum SockOutcome {
    Checked(CheckStats),
    /// neither the expected replies nor EOF nor the sentinel's reply arrived
    Hung,
}

/// One run through a real socket: write `depth` requests, wait for their final replies, repeat;
/// then a sentinel Echo decides whether the connection was still open.
pub fn run_sock(
    addr: &str,
    syms: &[Sym],
    depth: usize,
    style: u8,
    where_: &str,
) -> Result<SockOutcome, Fail> {
    let peer = Peer::connect(addr).map_err(|e| {
        Fail::new(
            format!("{}/connect", where_),
            format!("connect {}: {}", addr, e),
        )
    })?;
    run_peer(peer, syms, depth, style, where_, true).map(|x| x.0)
}

/// Like `run_sock` over an already established peer. Returns the replies to the requests too
/// (without the sentinel's). `can_half_close`: the transport supports shutting down one direction.
pub fn run_peer(
    mut peer: Peer,
    syms: &[Sym],
    depth: usize,
    style: u8,
    where_: &str,
    can_half_close: bool,
) -> Result<(SockOutcome, Vec<serde_json::Value>), Fail> {
    let st = build_stream(syms, |i| style_of(style, i));
    let mut want_finals = 0usize;
    let mut start = 0usize;
    let mut k = 0usize;
    let mut stalled = false;
    let mut eof = false;
    while k < st.ends.len() && !eof && !stalled {
        let hi = (k + depth).min(st.ends.len());
        let e = st.ends[hi - 1];
        peer.send(&st.bytes[start..e]);
        start = e;
        want_finals += st.exps[k..hi].iter().filter(|x| !x.oneway).count();
        k = hi;
        match peer.wait_finals(want_finals, stall()) {
            Wait::Reached => {}
            Wait::Eof => eof = true,
            Wait::Stalled => {
                note_stall();
                stalled = true
            }
        }
    }
    // sentinel: answered iff the service still serves this connection
    let sentinel_tok = "sentinel-\u{2603}";
    let mut sentinel_seen = false;
    if !eof {
        let req = json!({"method": "org.verif.test.Echo", "parameters": {"token": sentinel_tok, "n": 424242}});
        peer.send(&encode(&req, Style::Compact));
        match peer.wait_piece(|v| v["parameters"]["token"] == sentinel_tok, stall()) {
            Wait::Reached => sentinel_seen = true,
            Wait::Eof => eof = true,
            Wait::Stalled => note_stall(),
        }
    }
    if !sentinel_seen && !eof {
        return Ok((SockOutcome::Hung, vec![]));
    }
    if can_half_close {
        peer.half_close();
        let _ = peer.wait_eof(stall());
    }
    let bytes = peer.finish();
    let mut replies = split_replies(where_, &bytes)?;
    let end = if sentinel_seen {
        // drop the sentinel's reply (it must be the last piece)
        match replies.last() {
            Some(l) if l["parameters"]["token"] == sentinel_tok => {
                replies.pop();
            }
            _ => {
                return Err(Fail::new(
                    format!("{}/bytes-after-sentinel", where_),
                    "replies arrived after the reply to the last request sent".to_string(),
                ))
            }
        }
        End::Open
    } else {
        End::Closed
    };
    let stats = check_replies(where_, &st.syms, &st.exps, &replies, end)?;
    Ok((SockOutcome::Checked(stats), replies))
}

fn random_sock(ctx: &mut Ctx, cases: u32) {
    let scratch = Scratch::new("c01");
    let addr = scratch.unix_addr("c01.sock");
    let (svc, _probe) = t_service();
    let server = Server::start(svc, &addr, 2, 32, 0);
    let strat = seq_strategy(alphabet(), 1, 16);
    let hung = std::cell::Cell::new(0u32);
    let r = pt::check_with(
        ctx,
        "c01-sock-random",
        cases,
        200,
        60_000,
        strat,
        |ctx, (syms, depth, style)| {
            let nt = nontrivial(syms, *depth);
            ctx.case(if nt {
                Some(hash64(&(syms, depth, "sock")))
            } else {
                None
            });
            ctx.sample(|| case_json(syms, *depth, *style, "unix"));
            match run_sock(&addr, syms, *depth, *style, "listen")? {
                SockOutcome::Checked(st) => {
                    ctx.class(if st.closed_early {
                        "sock:closed-early"
                    } else {
                        "sock:open-to-end"
                    });
                }
                SockOutcome::Hung => {
                    // retry alone; a reproduced hang is still only "inconclusive"
                    match run_sock(&addr, syms, *depth, *style, "listen")? {
                        SockOutcome::Checked(_) => ctx.class("sock:hang-not-reproduced"),
                        SockOutcome::Hung => {
                            hung.set(hung.get() + 1);
                            ctx.class("sock:hang");
                        }
                    }
                }
            }
            Ok(())
        },
    );
    if let Some(((syms, depth, style), f)) = r {
        ctx.violation(
            &f.key,
            &f.what,
            "c01-sock",
            case_json(&syms, depth, style, "unix"),
        );
    }
    if hung.get() > 0 {
        ctx.inconclusive(&format!(
            "{} socket runs hung twice (no reply, no EOF, sentinel unanswered)",
            hung.get()
        ));
    }
    if let Err(e) = server.stop() {
        ctx.inconclusive(&format!("listen() ended with {}", e));
    }
}

/// Long pipelines: 33..400 requests that keep the connection open, all handed to one handle() call and
/// written to the socket in one piece (per-call or per-read limits only show beyond a few dozen requests).
fn long_pipelines(ctx: &mut Ctx, cases_mem: u32, cases_sock: u32) {
    let open: Vec<Sym> = alphabet().into_iter().filter(|s| !closes(s)).collect();
    let m = open.len();
    let strat = (prop::collection::vec(0..m, 33..=400), any::<prop::sample::Index>(), 0u8..6, any::<bool>()).prop_map(move |(ix, d, style, whole)| {
        let syms: Vec<Sym> = ix.into_iter().map(|j| open[j]).collect();
        let depth = if whole { syms.len() } else { 33 + d.index(syms.len() - 32) };
        (syms, depth, style)
    });
    let (svc, _probe) = t_service();
    let r = pt::check_with(ctx, "c01-mem-long", cases_mem, 300, 60_000, strat.clone(), |ctx, (syms, depth, style)| {
        ctx.case(Some(hash64(&(syms, depth, "mem-long"))));
        ctx.class("mem:long-pipeline");
        run_mem(&svc, syms, *depth, *style)?;
        Ok(())
    });
    if let Some(((syms, depth, style), f)) = r {
        ctx.violation(&f.key, &f.what, "c01-mem", case_json(&syms, depth, style, "mem"));
        return;
    }
    let scratch = Scratch::new("c01l");
    let addr = scratch.unix_addr("c01l.sock");
    let (svc, _probe) = t_service();
    let server = Server::start(svc, &addr, 2, 8, 0);
    let r = pt::check_with(ctx, "c01-sock-long", cases_sock, 60, 60_000, strat, |ctx, (syms, depth, style)| {
        ctx.case(Some(hash64(&(syms, depth, "sock-long"))));
        match run_sock(&addr, syms, *depth, *style, "listen")? {
            SockOutcome::Checked(_) => ctx.class("sock:long-pipeline"),
            SockOutcome::Hung => match run_sock(&addr, syms, *depth, *style, "listen")? {
                SockOutcome::Checked(_) => ctx.class("sock:hang-not-reproduced"),
                SockOutcome::Hung => {
                    ctx.class("sock:hang");
                    ctx.inconclusive("a long pipeline over the socket hung twice (no reply, no EOF, sentinel unanswered)");
                }
            },
        }
        Ok(())
    });
    if let Some(((syms, depth, style), f)) = r {
        ctx.violation(&f.key, &f.what, "c01-sock", case_json(&syms, depth, style, "unix"));
    }
    let _ = server.stop();
}

fn replay(ctx: &mut Ctx, v: &Value) {
    let case = &v["case"];
    let syms = syms_from_json(&case["requests"]);
    let depth = case["depth"].as_u64().unwrap_or(1) as usize;
    let style = case["style"].as_u64().unwrap_or(0) as u8;
    ctx.case(None);
    ctx.force_sample(case.clone());
    if let Some(p) = case.get("builtin_illtyped_parameters") {
        if let Err(f) = run_builtin_illtyped(p, depth) {
            ctx.violation(&f.key, &f.what, "c01-replay", case.clone());
        }
        return;
    }
    let res = if case["transport"] == "unix" {
        let scratch = Scratch::new("c01r");
        let addr = scratch.unix_addr("c01.sock");
        let (svc, _p) = t_service();
        let server = Server::start(svc, &addr, 2, 32, 0);
        let r = run_sock(&addr, &syms, depth, style, "listen").map(|_| ());
        let _ = server.stop();
        r
    } else {
        let (svc, _p) = t_service();
        run_mem(&svc, &syms, depth, style).map(|_| ())
    };
    if let Err(f) = res {
        ctx.violation(&f.key, &f.what, "c01-replay", case.clone());
    }
}

/// Built-in calls with ill-typed parameters between two ordinary calls: the request is answered (with an
/// error) or the service ends the connection - it is never passed over while later requests are served.
pub fn run_builtin_illtyped(params: &Value, depth: usize) -> Result<(), Fail> {
    let (svc, _p) = t_service();
    let msgs: Vec<Vec<u8>> = vec![
        encode(&json!({"method": "org.varlink.service.GetInfo"}), Style::Compact),
        encode(&json!({"method": "org.varlink.service.GetInterfaceDescription", "parameters": params}), Style::Compact),
        encode(&json!({"method": "org.varlink.service.GetInfo"}), Style::Compact),
    ];
    let chunks_owned: Vec<Vec<u8>> = if depth >= 3 { vec![msgs.concat()] } else if depth == 2 { vec![[msgs[0].clone(), msgs[1].clone()].concat(), msgs[2].clone()] } else { msgs.clone() };
    let chunks: Vec<&[u8]> = chunks_owned.iter().map(|c| &c[..]).collect();
    let run = run_chunks(&svc, &chunks);
    if let Some(p) = &run.panicked {
        return Err(Fail::new("handle/panic", format!("panicked: {}", p)));
    }
    let replies = split_replies("handle", &run.out)?;
    if run.err.is_none() && replies.len() < 3 {
        return Err(Fail::new(
            "handle/skipped/DescIllTyped",
            format!("GetInfo, GetInterfaceDescription with parameters {}, GetInfo (pipelining depth {}): {} replies and the connection stayed open - a request was passed over", params, depth, replies.len()),
        ));
    }
    if replies.len() > 3 {
        return Err(Fail::new("handle/extra-reply", format!("3 requests, {} replies", replies.len())));
    }
    if let Some(r) = replies.get(1) {
        let is_info = r["parameters"]["interfaces"].is_array();
        if r.get("error").map(|e| e.is_null()).unwrap_or(true) && !is_info {
            return Err(Fail::new("handle/wrong-final/DescIllTyped", format!("ill-typed GetInterfaceDescription {} got the success reply {}", params, r)));
        }
        if is_info && run.err.is_none() {
            return Err(Fail::new("handle/skipped/DescIllTyped", format!("the reply after the first GetInfo reply is another GetInfo reply: the ill-typed request {} was passed over", params)));
        }
    }
    Ok(())
}

fn builtin_illtyped(ctx: &mut Ctx) {
    for params in [json!({}), json!({"interface": 5}), json!({"interface": null}), json!({"iface": "org.verif.test"}), json!({"interface": ["org.verif.test"]}), json!([]), json!("org.verif.test")] {
        for depth in 1..=3usize {
            ctx.case(Some(hash64(&(params.to_string(), depth, "builtin-illtyped"))));
            ctx.class("mem:built-in-call-with-ill-typed-parameters");
            if let Err(f) = pt::guard(|| run_builtin_illtyped(&params, depth)) {
                ctx.violation(&f.key, &f.what, "c01-mem", json!({"builtin_illtyped_parameters": params, "depth": depth}));
                return;
            }
        }
    }
}

pub fn run(args: &Args) -> ! {
    let mut ctx = Ctx::new(args, "exploration");
    ctx.rule = RULE.into();
    ctx.assumptions = vec![
        "the reference model of the T-service is written from the statements of C01/C03/C04/C05/C08".into(),
        "a connection that the service closes is never by itself a violation (the statement permits it); it is counted".into(),
        "socket runs: a hang (no reply, no EOF, unanswered sentinel) is reported as inconclusive, never as a violation".into(),
    ];
    if let Some(p) = &args.replay {
        let v = load_replay(p);
        replay(&mut ctx, &v);
        ctx.finish();
    }
    let maxlen = ctx.tier.pick(2, 3);
    exhaustive(&mut ctx, maxlen);
    builtin_illtyped(&mut ctx);
    ctx.bump_sample_cap(6);
    let n = ctx.tier.pick(200_000, 400_000);
    random_mem(&mut ctx, n);
    ctx.bump_sample_cap(6);
    let n = ctx.tier.pick(6_000, 20_000);
    // on a tree that already failed in memory the socket runs add nothing but stalls
    if !ctx.failed() {
        random_sock(&mut ctx, n);
    }
    if !ctx.failed() {
        let (nm, ns) = (ctx.tier.pick(300, 3_000), ctx.tier.pick(60, 600));
        long_pipelines(&mut ctx, nm, ns);
    }
    ctx.exhaustive = Some(false);
    ctx.finish()
}
