//! C02 — message framing does not depend on how the byte stream is segmented; upgraded bytes are
//! delivered to the upgraded handler in order and exactly once.

use proptest::prelude::*;
use serde_json::{json, Value};
use std::sync::Arc;
use std::time::Duration;
use vl_model::ctx::{hash64, load_replay, ncpu, parallel, Acc, Args, Ctx};
use vl_model::pt::{self, Fail};
use vl_model::sock::{Peer, Scratch, Server};
use vl_tsvc::{t_service, Probe};
use vl_model::wire::*;

use crate::c01::style_of;

pub const RULE: &str = "byte streams built from request sequences over the extended alphabet (C01's 76 symbols \
plus Big messages of 100 B / 8 KiB-1 / 8 KiB / 8 KiB+1 / 24 KiB and Upgrade followed by arbitrary payload bytes \
incl. NUL and > 8 KiB) x segmentations: every single cut point (streams <= 2 KiB exhaustively; for larger ones \
every cut within 3 bytes of a message boundary or of a multiple of 8192 plus 200 spread cuts), every pair of cut \
points (streams <= 160 B), one byte at a time, random k-cuts (k<=12); over a unix socket the cut list is the \
sender's write schedule with 0-3 ms pauses. Oracle: replies(chunked) == replies(whole) byte for byte, same error \
position, tail == bytes after the last complete message, bytes seen by the recording upgraded handler == bytes \
after the upgrade request. Non-trivial: a cut adjacent to a NUL (end-1, end, end+1 of a message) or inside a \
message that follows another one, or any cut after an upgrade request with payload; distinct by (stream, cuts). Through examples/ping --multiplex also upgrading calls: the payload in the same write as the request (below and beyond one 8 KiB read) or behind the upgrade reply must come back from the upgraded handler complete.";

#[derive(Clone, Debug)]
pub struct Case {
    pub syms: Vec<Sym>,
    pub style: u8,
    /// raw bytes appended after the encoded requests (upgrade payload or an incomplete message)
    pub payload: Vec<u8>,
    pub cuts: Vec<usize>,
}

impl Case {
    pub fn stream(&self) -> (Stream, Vec<u8>) {
        let st = build_stream(&self.syms, |i| style_of(self.style, i));
        let mut bytes = st.bytes.clone();
        bytes.extend_from_slice(&self.payload);
        (st, bytes)
    }
    pub fn to_json(&self, transport: &str) -> Value {
        json!({
            "requests": syms_json(&self.syms), "style": self.style,
            "payload_hex": hex(&self.payload), "cuts": self.cuts, "transport": transport,
        })
    }
    pub fn from_json(v: &Value) -> Case {
        Case {
            syms: syms_from_json(&v["requests"]),
            style: v["style"].as_u64().unwrap_or(0) as u8,
            payload: unhex(v["payload_hex"].as_str().unwrap_or("")),
            cuts: v["cuts"]
                .as_array()
                .map(|a| a.iter().filter_map(|x| x.as_u64()).map(|x| x as usize).collect())
                .unwrap_or_default(),
        }
    }
}

pub fn hex(b: &[u8]) -> String {
    b.iter().map(|x| format!("{:02x}", x)).collect()
}
pub fn unhex(s: &str) -> Vec<u8> {
    (0..s.len() / 2)
        .filter_map(|i| u8::from_str_radix(&s[2 * i..2 * i + 2], 16).ok())
        .collect()
}

fn chunks_of<'a>(bytes: &'a [u8], cuts: &[usize]) -> Vec<&'a [u8]> {
    let mut v = vec![];
    let mut start = 0usize;
    for &c in cuts {
        if c > start && c < bytes.len() {
            v.push(&bytes[start..c]);
            start = c;
        }
    }
    v.push(&bytes[start..]);
    v
}

/// Reference behaviour of one stream: the whole stream in one call, plus what the statement
/// derives from the bytes alone.
pub struct Reference {
    pub whole: MemRun,
    pub upgraded_seen: Vec<u8>,
    /// index of the message at which the whole run returned Err
    pub err_msg: Option<usize>,
    /// offset after the upgrade request (everything from here on is upgraded payload)
    pub upgrade_at: Option<usize>,
    pub expected_tail: Vec<u8>,
}

fn take_upgraded(probe: &Probe) -> Vec<u8> {
    std::mem::take(&mut *probe.upgraded.lock().unwrap())
}

pub fn reference(
    svc: &varlink::VarlinkService,
    probe: &Probe,
    st: &Stream,
    bytes: &[u8],
) -> Result<Reference, Fail> {
    take_upgraded(probe);
    let whole = run_chunks(svc, &[bytes]);
    let upgraded_seen = take_upgraded(probe);
    if let Some(p) = &whole.panicked {
        return Err(Fail::new("handle/panic", format!("handle() panicked: {}", p)));
    }
    // per-message run to learn where the error happens (must agree with the whole run)
    let mut per_msg: Vec<&[u8]> = vec![];
    let mut s0 = 0;
    for &e in &st.ends {
        per_msg.push(&bytes[s0..e]);
        s0 = e;
    }
    if s0 < bytes.len() {
        per_msg.push(&bytes[s0..]);
    }
    let pm = run_chunks(svc, &per_msg);
    take_upgraded(probe);
    let err_msg = pm.err_chunk;
    // the first request (in order) that upgrades, if it is reached before an error
    let mut upgrade_at = None;
    for (i, e) in st.exps.iter().enumerate() {
        if let Some(em) = err_msg {
            if i >= em {
                break;
            }
        }
        if e.upgrades {
            upgrade_at = Some(st.ends[i]);
            break;
        }
    }
    let expected_tail = if upgrade_at.is_some() {
        vec![]
    } else {
        let last_nul = bytes.iter().rposition(|b| *b == 0).map(|p| p + 1).unwrap_or(0);
        bytes[last_nul..].to_vec()
    };
    Ok(Reference {
        whole,
        upgraded_seen,
        err_msg,
        upgrade_at,
        expected_tail,
    })
}

fn first_diff(a: &[u8], b: &[u8]) -> usize {
    a.iter().zip(b.iter()).position(|(x, y)| x != y).unwrap_or(a.len().min(b.len()))
}

fn show(b: &[u8], at: usize) -> String {
    let lo = at.saturating_sub(30);
    let hi = (at + 50).min(b.len());
    format!("{:?}", String::from_utf8_lossy(&b[lo..hi]))
}

/// The oracle of the whole (unsegmented) run against what the bytes themselves determine.
pub fn check_whole(r: &Reference, bytes: &[u8]) -> Result<(), Fail> {
    if r.whole.err.is_none() {
        if r.whole.tail != r.expected_tail {
            return Err(Fail::new(
                "handle/seg/whole-tail",
                format!(
                    "whole stream: returned tail ({} bytes) is not the {} bytes that follow the last complete message",
                    r.whole.tail.len(),
                    r.expected_tail.len()
                ),
            ));
        }
        if let Some(at) = r.upgrade_at {
            if r.upgraded_seen != bytes[at..] {
                let d = first_diff(&r.upgraded_seen, &bytes[at..]);
                return Err(Fail::new(
                    "handle/seg/whole-upgraded-bytes",
                    format!(
                        "whole stream: upgraded handler saw {} bytes, {} follow the upgrade request; first difference at {}",
                        r.upgraded_seen.len(),
                        bytes.len() - at,
                        d
                    ),
                ));
            }
        }
    }
    Ok(())
}

/// Metamorphic oracle: the segmented run must be indistinguishable from the whole run.
pub fn check_segmented(
    svc: &varlink::VarlinkService,
    probe: &Probe,
    r: &Reference,
    st: &Stream,
    bytes: &[u8],
    cuts: &[usize],
) -> Result<(), Fail> {
    take_upgraded(probe);
    let chunks = chunks_of(bytes, cuts);
    let run = run_chunks(svc, &chunks);
    let seen = take_upgraded(probe);
    if let Some(p) = &run.panicked {
        return Err(Fail::new("handle/panic", format!("handle() panicked: {}", p)));
    }
    if run.out != r.whole.out {
        let d = first_diff(&run.out, &r.whole.out);
        return Err(Fail::new(
            "handle/seg/replies-differ",
            format!(
                "reply bytes differ at offset {} (segmented {} bytes, whole {} bytes): segmented {} vs whole {}",
                d,
                run.out.len(),
                r.whole.out.len(),
                show(&run.out, d),
                show(&r.whole.out, d)
            ),
        ));
    }
    match (&r.whole.err, &run.err) {
        (None, None) => {
            if run.tail != r.expected_tail {
                return Err(Fail::new(
                    "handle/seg/tail-differs",
                    format!(
                        "returned tail is {:?} ({} bytes) but the bytes after the last complete message are {:?} ({} bytes)",
                        String::from_utf8_lossy(&run.tail[..run.tail.len().min(60)]),
                        run.tail.len(),
                        String::from_utf8_lossy(&r.expected_tail[..r.expected_tail.len().min(60)]),
                        r.expected_tail.len()
                    ),
                ));
            }
            if run.iface != r.whole.iface {
                return Err(Fail::new(
                    "handle/seg/upgraded-state-differs",
                    format!("upgraded interface {:?} vs {:?}", run.iface, r.whole.iface),
                ));
            }
        }
        (Some(_), Some(_)) => {
            // must fail at the chunk that completes the failing message
            if let (Some(em), Some(ec)) = (r.err_msg, run.err_chunk) {
                if em < st.ends.len() {
                    let need = st.ends[em];
                    let mut off = 0usize;
                    let mut want_chunk = chunks.len();
                    for (ci, c) in chunks.iter().enumerate() {
                        off += c.len();
                        if off >= need {
                            want_chunk = ci;
                            break;
                        }
                    }
                    if ec != want_chunk {
                        return Err(Fail::new(
                            "handle/seg/error-position",
                            format!(
                                "whole run fails at message {} (ends at byte {}); segmented run failed in chunk {} but that message completes in chunk {}",
                                em, need, ec, want_chunk
                            ),
                        ));
                    }
                }
            }
        }
        (a, b) => {
            return Err(Fail::new(
                "handle/seg/error-differs",
                format!("whole run ended with {:?}, segmented run with {:?}", a, b),
            ));
        }
    }
    if let Some(at) = r.upgrade_at {
        if run.err.is_none() && seen != bytes[at..] {
            let d = first_diff(&seen, &bytes[at..]);
            return Err(Fail::new(
                "handle/seg/upgraded-bytes",
                format!(
                    "upgraded handler saw {} bytes but {} bytes follow the upgrade request; first difference at payload offset {}",
                    seen.len(),
                    bytes.len() - at,
                    d
                ),
            ));
        }
    }
    Ok(())
}

fn cut_is_nontrivial(st: &Stream, r: &Reference, cuts: &[usize], total: usize) -> bool {
    for &c in cuts {
        if let Some(at) = r.upgrade_at {
            if c >= at && total > at {
                return true;
            }
        }
        for (i, &e) in st.ends.iter().enumerate() {
            if c + 1 == e || c == e || c == e + 1 {
                return true;
            }
            // inside a message that follows another one
            if i > 0 && c > st.ends[i - 1] && c < e {
                return true;
            }
        }
    }
    false
}

/// Single cut positions to try for a stream of this size.
fn single_cuts(st: &Stream, total: usize) -> (Vec<usize>, bool) {
    if total <= 2048 {
        return ((1..total).collect(), true);
    }
    let mut v = std::collections::BTreeSet::new();
    for &e in &st.ends {
        for d in 0..=6usize {
            let c = (e + d).saturating_sub(3);
            if c > 0 && c < total {
                v.insert(c);
            }
        }
    }
    let mut m = 8192usize;
    while m < total + 8192 {
        for d in 0..=6usize {
            let c = (m + d).saturating_sub(3);
            if c > 0 && c < total {
                v.insert(c);
            }
        }
        m += 8192;
    }
    for k in 1..200usize {
        let c = k * total / 200;
        if c > 0 && c < total {
            v.insert(c);
        }
    }
    (v.into_iter().collect(), false)
}

fn run_stream_enumeration(
    acc: &mut Acc,
    svc: &varlink::VarlinkService,
    probe: &Probe,
    case: &Case,
    order: u64,
    pairs: bool,
) {
    let (st, bytes) = case.stream();
    let total = bytes.len();
    let r = match reference(svc, probe, &st, &bytes).and_then(|r| check_whole(&r, &bytes).map(|_| r)) {
        Ok(r) => r,
        Err(f) => {
            acc.case(None);
            acc.fail(order, &f.key, &f.what, case.to_json("mem"));
            return;
        }
    };
    let sh = hash64(&(&case.syms, case.style, &case.payload));
    let try_cuts = |acc: &mut Acc, cuts: &[usize], class: &str| {
        let nt = cut_is_nontrivial(&st, &r, cuts, total);
        acc.case(if nt { Some(hash64(&(sh, cuts))) } else { None });
        acc.class(class);
        if let Err(f) = check_segmented(svc, probe, &r, &st, &bytes, cuts) {
            let mut c = case.clone();
            c.cuts = cuts.to_vec();
            acc.fail(order, &f.key, &f.what, c.to_json("mem"));
            return false;
        }
        true
    };
    let (singles, complete) = single_cuts(&st, total);
    for &c in &singles {
        if !try_cuts(acc, &[c], if complete { "mem:single-cut(all)" } else { "mem:single-cut(selected)" }) {
            return;
        }
    }
    // one byte at a time
    if total <= 30_000 {
        let all: Vec<usize> = (1..total).collect();
        if !try_cuts(acc, &all, "mem:byte-at-a-time") {
            return;
        }
    }
    if pairs && total <= 160 {
        for a in 1..total {
            for b in (a + 1)..total {
                if !try_cuts(acc, &[a, b], "mem:cut-pair(all)") {
                    return;
                }
            }
        }
    }
    if r.whole.err.is_some() {
        acc.class("stream:ends-in-error");
    }
    if r.upgrade_at.is_some() {
        acc.class("stream:upgrades");
    }
    acc.sample(|| {
        let mut c = case.clone();
        c.cuts = singles.iter().take(3).cloned().collect();
        let mut j = c.to_json("mem");
        j["stream_bytes"] = json!(total);
        j["single_cuts_tried"] = json!(singles.len());
        j
    });
}

fn payloads() -> Vec<Vec<u8>> {
    let mut big = vec![];
    let mut x = 12345u32;
    for _ in 0..9000 {
        x = x.wrapping_mul(1664525).wrapping_add(1013904223);
        big.push((x >> 24) as u8);
    }
    vec![
        vec![],
        b"x".to_vec(),
        b"\0".to_vec(),
        b"raw \0 bytes \0\0 with NULs\n".to_vec(),
        b"{\"method\":\"org.verif.test.Echo\",\"parameters\":{\"token\":\"p\",\"n\":1}}\0".to_vec(),
        big,
    ]
}

fn exhaustive(ctx: &mut Ctx) {
    // all streams of 1 and 2 messages over the extended alphabet; Upgrade streams get each payload;
    // streams without upgrade also get an incomplete trailing message
    let alpha = alphabet_ext();
    let n = alpha.len();
    let pls = payloads();
    let mut cases: Vec<Case> = vec![];
    for len in 1..=2usize {
        for idx in 0..n.pow(len as u32) {
            let mut syms = vec![];
            let mut x = idx;
            for _ in 0..len {
                syms.push(alpha[x % n]);
                x /= n;
            }
            // keep the number of very large streams bounded: at most one Big >= 8 KiB per stream
            let bigs = syms.iter().filter(|s| matches!(s.kind, Kind::Big(c) if c >= 1)).count();
            if bigs > 1 {
                continue;
            }
            if len == 2 && bigs == 1 && ctx.tier == vl_model::Tier::Quick && (idx % 4 != 0) {
                continue;
            }
            let has_up = syms.iter().any(|s| s.kind == Kind::Upgrade);
            if has_up {
                for (pi, p) in pls.iter().enumerate() {
                    if len == 2 && pi != 3 && pi != 5 && pi != 0 {
                        continue;
                    }
                    cases.push(Case { syms: syms.clone(), style: (idx % 5) as u8, payload: p.clone(), cuts: vec![] });
                }
            } else {
                cases.push(Case { syms: syms.clone(), style: (idx % 5) as u8, payload: vec![], cuts: vec![] });
                if len == 1 {
                    cases.push(Case {
                        syms: syms.clone(),
                        style: 0,
                        payload: b"{\"method\":\"org.varlink.service.GetInfo\"".to_vec(),
                        cuts: vec![],
                    });
                }
            }
        }
    }
    let total = cases.len();
    let cases = &cases;
    let accs = parallel(ncpu(), |w, nw| {
        let (svc, probe) = t_service();
        let mut acc = Acc::default();
        let mut i = w;
        while i < total {
            let c = &cases[i];
            run_stream_enumeration(&mut acc, &svc, &probe, c, i as u64, c.syms.len() == 1 || i % 7 == 0);
            i += nw;
        }
        acc
    });
    ctx.merge(accs, "c02-mem");
    ctx.section("enumerated_streams", json!({"streams": total, "lengths": [1, 2]}));
}

pub fn case_strategy(max_msgs: usize) -> impl Strategy<Value = Case> {
    let alpha = alphabet_ext();
    let no_up: Vec<Sym> = alpha
        .iter()
        .filter(|s| s.kind != Kind::Upgrade && !crate::c01::closes(s))
        .cloned()
        .collect();
    let n = alpha.len();
    let m = no_up.len();
    (
        prop::collection::vec((0..n, 0..m), 1..=max_msgs),
        0u8..5,
        0u8..10,
        prop::collection::vec(any::<u8>(), 0..300),
        prop::collection::vec(any::<prop::sample::Index>(), 0..=12),
        0u8..6,
    )
        .prop_map(move |(ix, style, mode, mut payload, cutix, pmode)| {
            let mut syms: Vec<Sym> = ix
                .iter()
                .map(|(i, j)| if mode < 6 { no_up[*j] } else { alpha[*i] })
                .collect();
            // at most two large messages per stream
            let mut bigs = 0;
            for s in syms.iter_mut() {
                if let Kind::Big(c) = s.kind {
                    if c >= 1 {
                        bigs += 1;
                        if bigs > 2 {
                            s.kind = Kind::Big(0);
                        }
                    }
                }
            }
            // in 30% of the cases end with an upgrade followed by the payload
            if mode >= 7 {
                syms.push(Sym { kind: Kind::Upgrade, flag: [Flag::None, Flag::More, Flag::Oneway][(mode % 3) as usize] });
                match pmode {
                    0 => payload.clear(),
                    1 => {
                        // > 8 KiB
                        let base = payload.clone();
                        while payload.len() < 9000 {
                            payload.extend_from_slice(&base);
                            payload.push(0);
                            payload.push(b'z');
                        }
                    }
                    _ => {}
                }
            } else if pmode < 3 {
                // incomplete trailing message: no NUL inside
                payload.retain(|b| *b != 0);
            } else {
                payload.clear();
            }
            let c = Case { syms, style, payload, cuts: vec![] };
            let (_, bytes) = c.stream();
            let total = bytes.len();
            let mut cuts: Vec<usize> = cutix.iter().map(|ix| 1 + ix.index(total.max(2) - 1)).collect();
            cuts.sort();
            cuts.dedup();
            Case { cuts, ..c }
        })
}

fn random_mem(ctx: &mut Ctx, cases: u32) {
    let (svc, probe) = t_service();
    let r = pt::check(ctx, "c02-mem-random", cases, case_strategy(8), |ctx, case| {
        let (st, bytes) = case.stream();
        let r = reference(&svc, &probe, &st, &bytes)?;
        check_whole(&r, &bytes)?;
        let nt = cut_is_nontrivial(&st, &r, &case.cuts, bytes.len());
        ctx.case(if nt { Some(hash64(&(&case.syms, case.style, &case.payload, &case.cuts))) } else { None });
        ctx.class("mem:random-k-cuts");
        ctx.sample(|| case.to_json("mem"));
        check_segmented(&svc, &probe, &r, &st, &bytes, &case.cuts)
    });
    if let Some((case, f)) = r {
        ctx.violation(&f.key, &f.what, "c02-mem", case.to_json("mem"));
    }
}

/// Socket variant: the cut list is the sender's write schedule.
pub fn run_sock(
    svc: &varlink::VarlinkService,
    probe: &Probe,
    addr: &str,
    case: &Case,
    pauses: &[u8],
) -> Result<bool, Fail> {
    let (st, bytes) = case.stream();
    let r = reference(svc, probe, &st, &bytes)?;
    take_upgraded(probe);
    let calls0 = probe.upgraded_calls.load(std::sync::atomic::Ordering::SeqCst);
    let _ = calls0;
    let mut peer = Peer::connect(addr)
        .map_err(|e| Fail::new("listen/connect", format!("connect {}: {}", addr, e)))?;
    let chunks = chunks_of(&bytes, &case.cuts);
    for (i, c) in chunks.iter().enumerate() {
        peer.send(c);
        let p = pauses.get(i).cloned().unwrap_or(0) % 4;
        if p > 0 {
            std::thread::sleep(Duration::from_millis(p as u64));
        }
    }
    peer.half_close();
    let hung = matches!(peer.wait_eof(Duration::from_secs(10)), vl_model::sock::Wait::Stalled);
    let got = peer.finish();
    if hung {
        return Ok(false);
    }
    // The socket server answers what the in-memory reference answers. When the reference run ends
    // in an error the service closes the connection: the client may see only a prefix then (the
    // shutdown can overtake nothing that was already written, so in practice it sees all of it).
    if got != r.whole.out {
        let d = first_diff(&got, &r.whole.out);
        return Err(Fail::new(
            "listen/seg/replies-differ",
            format!(
                "reply bytes over the socket differ from the in-memory whole run at offset {} ({} vs {} bytes): socket {} vs memory {}",
                d,
                got.len(),
                r.whole.out.len(),
                show(&got, d),
                show(&r.whole.out, d)
            ),
        ));
    }
    if let Some(at) = r.upgrade_at {
        if r.whole.err.is_none() {
            // the worker thread may still be draining; the handler returns at EOF, which precedes
            // the close that wait_eof() observed, so the log is complete here
            let seen = take_upgraded(probe);
            if seen != bytes[at..] {
                let d = first_diff(&seen, &bytes[at..]);
                return Err(Fail::new(
                    "listen/seg/upgraded-bytes",
                    format!(
                        "over listen(): upgraded handler saw {} bytes but {} bytes follow the upgrade request; first difference at payload offset {}",
                        seen.len(),
                        bytes.len() - at,
                        d
                    ),
                ));
            }
        }
    }
    Ok(true)
}

fn random_sock(ctx: &mut Ctx, cases: u32) {
    let scratch = Scratch::new("c02");
    let addr = scratch.unix_addr("c02.sock");
    let (svc, probe) = t_service();
    let svc = Arc::new(svc);
    let server = Server::start(Shared(svc.clone()), &addr, 1, 8, 0);
    let hung = std::cell::Cell::new(0u32);
    let strat = (case_strategy(6), prop::collection::vec(0u8..4, 0..13));
    let r = pt::check_with(ctx, "c02-sock-random", cases, 300, 60_000, strat, |ctx, (case, pauses)| {
        let (st, bytes) = case.stream();
        let rf = reference(&svc, &probe, &st, &bytes)?;
        let nt = cut_is_nontrivial(&st, &rf, &case.cuts, bytes.len());
        ctx.case(if nt { Some(hash64(&(&case.syms, case.style, &case.payload, &case.cuts, "sock"))) } else { None });
        ctx.class("sock:write-schedule");
        ctx.sample(|| {
            let mut j = case.to_json("unix");
            j["pauses_ms"] = json!(pauses);
            j
        });
        if !run_sock(&svc, &probe, &addr, case, pauses)? {
            hung.set(hung.get() + 1);
        }
        Ok(())
    });
    if let Some(((case, pauses), f)) = r {
        let mut j = case.to_json("unix");
        j["pauses_ms"] = json!(pauses);
        ctx.violation(&f.key, &f.what, "c02-sock", j);
    }
    if hung.get() > 0 {
        ctx.inconclusive(&format!("{} socket runs did not reach EOF within 10 s", hung.get()));
    }
    let _ = server.stop();
}

fn replay(ctx: &mut Ctx, v: &Value) {
    let cj = &v["case"];
    if cj["upgrade_without_flag"] == json!(true) {
        ctx.case(None);
        ctx.force_sample(cj.clone());
        if let Err(f) = run_upgrade_without_flag(cj["cut"].as_u64().map(|c| c as usize)) {
            ctx.violation(&f.key, &f.what, "c02-replay", cj.clone());
        }
        return;
    }
    if let Some(a) = cj["aligned_at"].as_u64() {
        ctx.case(None);
        ctx.force_sample(cj.clone());
        if let Err(f) = run_aligned(a as usize, cj["lead"].as_u64().unwrap_or(0) as usize, cj["cut"].as_u64().map(|c| c as usize)) {
            ctx.violation(&f.key, &f.what, "c02-replay", cj.clone());
        }
        return;
    }
    if let Some(u) = cj.get("ping_upgrade") {
        ctx.case(None);
        ctx.force_sample(cj.clone());
        match start_ping() {
            None => ctx.inconclusive("the ping example binary is not built"),
            Some(server) => {
                if let Err(f) = run_ping_upgrade(&server.addr, u["line_bytes"].as_u64().unwrap_or(9000) as usize, u["one_write"].as_bool().unwrap_or(true)) {
                    ctx.violation(&f.key, &f.what, "c02-replay", cj.clone());
                }
            }
        }
        return;
    }
    if cj["ping_multiplex"] == json!(true) {
        ctx.case(None);
        ctx.force_sample(cj.clone());
        let nums = |x: &Value| -> Vec<u64> { x.as_array().map(|a| a.iter().filter_map(|y| y.as_u64()).collect()).unwrap_or_default() };
        let c = PingCase {
            n: cj["requests"].as_u64().unwrap_or(1) as usize,
            cuts: nums(&cj["cuts"]).into_iter().map(|x| x as u16).collect(),
            pauses: nums(&cj["pauses_ms"]).into_iter().map(|x| x as u8).collect(),
            close: cj["close_code"].as_u64().unwrap_or(0) as u8,
        };
        match start_ping() {
            None => ctx.inconclusive("the ping example binary is not built"),
            Some(server) => {
                for _ in 0..30 {
                    if let Err(f) = run_ping_case(&server.addr, &c) {
                        ctx.violation(&f.key, &f.what, "c02-replay", cj.clone());
                        break;
                    }
                }
            }
        }
        return;
    }
    let case = Case::from_json(cj);
    ctx.case(None);
    ctx.force_sample(cj.clone());
    let (svc, probe) = t_service();
    let res = if cj["transport"] == "unix" {
        let scratch = Scratch::new("c02r");
        let addr = scratch.unix_addr("c02.sock");
        let svc = Arc::new(svc);
        let server = Server::start(Shared(svc.clone()), &addr, 1, 8, 0);
        let pauses: Vec<u8> = cj["pauses_ms"]
            .as_array()
            .map(|a| a.iter().filter_map(|x| x.as_u64()).map(|x| x as u8).collect())
            .unwrap_or_default();
        let r = run_sock(&svc, &probe, &addr, &case, &pauses).map(|_| ());
        let _ = server.stop();
        r
    } else {
        let (st, bytes) = case.stream();
        reference(&svc, &probe, &st, &bytes).and_then(|r| {
            check_whole(&r, &bytes)?;
            check_segmented(&svc, &probe, &r, &st, &bytes, &case.cuts)
        })
    };
    if let Err(f) = res {
        ctx.violation(&f.key, &f.what, "c02-replay", cj.clone());
    }
}

// ------------------------------------------------------------------------------------------------
// streams of small requests in which one request ends exactly on a multiple of the 8 KiB buffer size

fn echo_msg(tok: &str) -> Vec<u8> {
    encode(&json!({"method": "org.verif.test.Echo", "parameters": {"token": tok, "n": 1}}), Style::Compact)
}

/// `align`: the byte offset (a multiple of 8192) on which a request must end; `before`: how many
/// small requests precede it at the start of the stream; three more follow.
pub fn run_aligned(align: usize, lead: usize, cut: Option<usize>) -> Result<(), Fail> {
    let (svc, _p) = t_service();
    let mut bytes = vec![];
    let mut toks = vec![];
    let mut i = 0usize;
    // `lead` bytes of padding inside the first token move everything behind it
    let first = format!("a{}", "p".repeat(lead));
    bytes.extend(echo_msg(&first));
    toks.push(first);
    loop {
        let tok = format!("m{}", i);
        let m = echo_msg(&tok);
        // leave room for one padded message that ends exactly at `align`
        if bytes.len() + m.len() + 80 > align {
            break;
        }
        bytes.extend(m);
        toks.push(tok);
        i += 1;
    }
    let base = echo_msg("");
    let room = align - bytes.len();
    if room < base.len() {
        return Ok(());
    }
    let tok = "z".repeat(room - base.len());
    bytes.extend(echo_msg(&tok));
    toks.push(tok);
    debug_assert_eq!(bytes.len(), align);
    for j in 0..3 {
        let tok = format!("after{}", j);
        bytes.extend(echo_msg(&tok));
        toks.push(tok);
    }
    let chunks: Vec<&[u8]> = match cut {
        Some(c) if c > 0 && c < bytes.len() => vec![&bytes[..c], &bytes[c..]],
        _ => vec![&bytes[..]],
    };
    let run = run_chunks(&svc, &chunks);
    if let Some(e) = &run.err {
        return Err(Fail::new("handle/seg/aligned-error", format!("stream of {} small requests with one ending at byte {}: handle() returned {}", toks.len(), align, e)));
    }
    let replies = split_replies("handle/seg/aligned", &run.out)?;
    let got: Vec<String> = replies.iter().map(|r| r["parameters"]["token"].as_str().unwrap_or("?").to_string()).collect();
    if got != toks {
        let at = got.iter().zip(toks.iter()).position(|(a, b)| a != b).unwrap_or(got.len().min(toks.len()));
        return Err(Fail::new(
            "handle/seg/aligned-replies-missing",
            format!(
                "{} pipelined small requests, request #{} ends exactly at byte {} of the stream (cut: {:?}): {} replies came back, the first difference is at reply #{} - requests behind the aligned one were neither answered nor returned as tail (tail {} bytes)",
                toks.len(), toks.len() - 4, align, cut, got.len(), at, run.tail.len()
            ),
        ));
    }
    if !run.tail.is_empty() {
        return Err(Fail::new("handle/seg/aligned-tail", format!("every message is complete but the returned tail has {} bytes", run.tail.len())));
    }
    Ok(())
}

/// A method that upgrades the connection although the request carries no `upgrade` member (a raw client
/// forgot it): the call has upgraded, so every byte behind that request goes to the upgraded handler.
pub fn run_upgrade_without_flag(cut: Option<usize>) -> Result<(), Fail> {
    let (svc, probe) = t_service();
    take_upgraded(&probe);
    let payload: &[u8] = b"raw payload \0 with a NUL {\"method\":\"org.varlink.service.GetInfo\"}\0 tail";
    let mut bytes = echo_msg("before");
    bytes.extend(encode(&json!({"method": "org.verif.test.Upgrade", "parameters": {"token": "no-flag"}}), Style::Compact));
    bytes.extend_from_slice(payload);
    let chunks: Vec<&[u8]> = match cut {
        Some(c) if c > 0 && c < bytes.len() => vec![&bytes[..c], &bytes[c..]],
        _ => vec![&bytes[..]],
    };
    let run = run_chunks(&svc, &chunks);
    let got = take_upgraded(&probe);
    if let Some(e) = &run.err {
        return Err(Fail::new("handle/seg/upgrade-without-flag", format!("cut {:?}: handle() returned {} (the bytes behind the upgrading call were parsed as varlink messages?)", cut, e)));
    }
    if got != payload {
        return Err(Fail::new(
            "handle/seg/upgraded-bytes",
            format!("cut {:?}: the method upgraded the connection (request without an `upgrade` member); the upgraded handler was offered {} of the {} bytes that follow the request", cut, got.len(), payload.len()),
        ));
    }
    let replies = split_replies("handle/seg/upgrade-without-flag", &run.out)?;
    if replies.len() != 2 {
        return Err(Fail::new("handle/seg/upgrade-without-flag", format!("cut {:?}: expected the Echo reply and the upgrade reply, got {} replies", cut, replies.len())));
    }
    Ok(())
}

fn aligned(ctx: &mut Ctx) {
    for cut in std::iter::once(None).chain((1..200).step_by(3).map(Some)) {
        ctx.case(Some(hash64(&("upgrade-without-flag", cut))));
        ctx.class("mem:upgrading-call-without-upgrade-member");
        if let Err(f) = pt::guard(|| run_upgrade_without_flag(cut)) {
            ctx.violation(&f.key, &f.what, "c02-mem", json!({"upgrade_without_flag": true, "cut": cut}));
            return;
        }
    }
    for align in [8192usize, 16384, 24576] {
        for lead in [0usize, 1, 7, 100, 1000, 4000] {
            for cut in [None, Some(1), Some(100), Some(5000), Some(8191), Some(8192), Some(8193), Some(12000)] {
                ctx.case(Some(hash64(&("aligned", align, lead, cut))));
                ctx.class("mem:request-ends-on-a-multiple-of-8KiB");
                if let Err(f) = pt::guard(|| run_aligned(align, lead, cut)) {
                    ctx.violation(&f.key, &f.what, "c02-mem", json!({"aligned_at": align, "lead": lead, "cut": cut}));
                    return;
                }
            }
        }
    }
}

// ------------------------------------------------------------------------------------------------
// the repository's own reference caller of the tail API: examples/ping --multiplex

#[derive(Clone, Debug)]
pub struct PingCase {
    pub n: usize,
    pub cuts: Vec<u16>,
    pub pauses: Vec<u8>,
    /// 0: half-close right after the last write; 1: half-close after all replies arrived
    pub close: u8,
}

fn ping_json(c: &PingCase) -> Value {
    let close = ["half-close right after the last write", "half-close after the replies"][c.close as usize % 2];
    json!({"ping_multiplex": true, "requests": c.n, "cuts": c.cuts, "pauses_ms": c.pauses, "close": close, "close_code": c.close})
}

pub fn run_ping_case(addr: &str, c: &PingCase) -> Result<bool, Fail> {
    let mut bytes = vec![];
    let mut want = vec![];
    for i in 0..c.n {
        let tok = vl_model::wire::token(i);
        bytes.extend(vl_model::wire::encode(&json!({"method": "org.example.ping.Ping", "parameters": {"ping": tok}}), vl_model::wire::Style::Compact));
        want.extend(vl_model::wire::encode(&json!({"parameters": {"pong": tok}}), vl_model::wire::Style::Compact));
    }
    let mut peer = Peer::connect(addr).map_err(|e| Fail::new("HARNESS/ping-connect", e.to_string()))?;
    // cut positions are fractions of the stream (monotone in the drawn number, so that shrinking works)
    let mut cuts: Vec<usize> = c.cuts.iter().map(|x| (*x as usize * bytes.len()) >> 16).collect();
    cuts.sort();
    cuts.dedup();
    let chunks = chunks_of(&bytes, &cuts);
    for (i, ch) in chunks.iter().enumerate() {
        peer.send(ch);
        let p = c.pauses.get(i).cloned().unwrap_or(0) % 4;
        if p > 0 {
            std::thread::sleep(Duration::from_millis(p as u64));
        }
    }
    if c.close % 2 == 1 {
        if matches!(peer.wait_finals(c.n, Duration::from_secs(10)), vl_model::sock::Wait::Stalled) {
            // not all replies while the connection is open: decide below from what arrived
        }
    }
    peer.half_close();
    let hung = matches!(peer.wait_eof(Duration::from_secs(10)), vl_model::sock::Wait::Stalled);
    let got = peer.finish();
    if got != want {
        if hung && want.starts_with(&got) && got.len() == want.len() {
            return Ok(false);
        }
        let d = first_diff(&got, &want);
        return Err(Fail::new(
            "ping-multiplex/seg/replies-differ",
            format!(
                "examples/ping --multiplex, {} pipelined Ping requests in {} segments ({}): replies differ from the unsegmented expectation at offset {} ({} vs {} bytes): got {} vs expected {}",
                c.n,
                chunks.len(),
                ["half-close right after the last write", "half-close after the replies"][c.close as usize % 2],
                d,
                got.len(),
                want.len(),
                show(&got, d),
                show(&want, d)
            ),
        ));
    }
    Ok(!hung)
}

/// An upgrading call through examples/ping --multiplex: every byte behind the upgrade request belongs to the
/// upgraded handler (which answers each line with `server reply: <line>`), whether it travels in the same
/// write as the request - also beyond the 8 KiB the example reads at a time - or follows the upgrade reply.
pub fn run_ping_upgrade(addr: &str, line_len: usize, one_write: bool) -> Result<(), Fail> {
    use std::io::{Read, Write};
    let path = addr.trim_start_matches("unix:");
    let mut s = std::os::unix::net::UnixStream::connect(path).map_err(|e| Fail::new("HARNESS/ping-connect", e.to_string()))?;
    let _ = s.set_read_timeout(Some(Duration::from_millis(200)));
    let line: Vec<u8> = (0..line_len).map(|i| b'a' + (i % 23) as u8).collect();
    let req = b"{\"method\":\"org.example.ping.Upgrade\",\"upgrade\":true}\0".to_vec();
    let mut payload = line.clone();
    payload.extend_from_slice(b"\nEnd\n");
    let mut want = b"{}\0server reply: ".to_vec();
    want.extend_from_slice(&line);
    want.push(b'\n');
    let mut got: Vec<u8> = vec![];
    let mut buf = [0u8; 65536];
    let mut read_until = |s: &mut std::os::unix::net::UnixStream, got: &mut Vec<u8>, n: usize, patience: Duration| {
        let t0 = std::time::Instant::now();
        while got.len() < n && t0.elapsed() < patience {
            match s.read(&mut buf) {
                Ok(0) => break,
                Ok(k) => got.extend_from_slice(&buf[..k]),
                Err(_) => {}
            }
        }
    };
    if one_write {
        let mut all = req.clone();
        all.extend_from_slice(&payload);
        let _ = s.write_all(&all);
    } else {
        let _ = s.write_all(&req);
        read_until(&mut s, &mut got, 3, Duration::from_secs(5));
        let _ = s.write_all(&payload);
    }
    read_until(&mut s, &mut got, want.len(), Duration::from_secs(5));
    if !got.starts_with(&want) {
        let d = first_diff(&got, &want);
        return Err(Fail::new(
            "ping-multiplex/upgraded-bytes",
            format!(
                "examples/ping --multiplex: upgrade request {} a line of {} bytes: the upgraded handler's answer differs at offset {} ({} bytes arrived, {} expected): got {} vs expected {}",
                if one_write { "and, in the same write," } else { "answered, then" },
                line_len,
                d,
                got.len(),
                want.len(),
                show(&got, d),
                show(&want, d)
            ),
        ));
    }
    Ok(())
}

struct PingServer {
    child: std::process::Child,
    _scratch: Scratch,
    addr: String,
}

impl Drop for PingServer {
    fn drop(&mut self) {
        let _ = self.child.kill();
        let _ = self.child.wait();
    }
}

fn start_ping() -> Option<PingServer> {
    let dir = std::env::var_os("VERIF_REPO_BIN")?;
    let exe = std::path::Path::new(&dir).join("ping");
    if !exe.exists() {
        return None;
    }
    let scratch = Scratch::new("c02p");
    let path = scratch.path.join("ping.sock");
    let addr = format!("unix:{}", path.display());
    let child = std::process::Command::new(exe)
        .arg(format!("--varlink={}", addr))
        .arg("--multiplex")
        .stdin(std::process::Stdio::null())
        .stdout(std::process::Stdio::null())
        .stderr(std::process::Stdio::null())
        .spawn()
        .ok()?;
    let t0 = std::time::Instant::now();
    while !path.exists() && t0.elapsed() < Duration::from_secs(10) {
        std::thread::sleep(Duration::from_millis(5));
    }
    Some(PingServer { child, _scratch: scratch, addr })
}

fn ping_multiplex(ctx: &mut Ctx, cases: u32) {
    let Some(server) = start_ping() else {
        ctx.exclude("ping-multiplex:binary-not-built");
        return;
    };
    let addr = server.addr.clone();
    let strat = (1usize..=6, prop::collection::vec(any::<u16>(), 0..6), prop::collection::vec(0u8..4, 0..7), 0u8..2).prop_map(|(n, cuts, pauses, close)| PingCase { n, cuts, pauses, close });
    let hung = std::cell::Cell::new(0u32);
    let r = pt::check_with(ctx, "c02-ping", cases, 200, 60_000, strat, |ctx, c| {
        ctx.case(if c.n >= 2 && !c.cuts.is_empty() { Some(hash64(&ping_json(c).to_string())) } else { None });
        ctx.class("ping-multiplex:segmented-pipelined-pings");
        ctx.sample(|| ping_json(c));
        if !run_ping_case(&addr, c)? {
            hung.set(hung.get() + 1);
        }
        Ok(())
    });
    if let Some((c, f)) = r {
        ctx.violation(&f.key, &f.what, "c02-ping", ping_json(&c));
    }
    if hung.get() > 0 {
        ctx.inconclusive(&format!("{} ping-multiplex runs did not reach end-of-stream within 10 s", hung.get()));
    }
    // upgrading calls: payload in the same write as the request (below and beyond one 8 KiB read) or behind the reply
    if !ctx.failed() {
        'up: for len in [10usize, 100, 8000, 8130, 8200, 9000, 20_000, 70_000] {
            for one_write in [true, false] {
                ctx.case(Some(hash64(&("ping-upgrade", len, one_write))));
                ctx.class("ping-multiplex:upgrade-with-payload");
                if let Err(f) = pt::guard(|| run_ping_upgrade(&addr, len, one_write)) {
                    ctx.violation(&f.key, &f.what, "c02-ping", json!({"ping_upgrade": {"line_bytes": len, "one_write": one_write}}));
                    break 'up;
                }
            }
        }
    }
    drop(server);
}

pub fn run(args: &Args) -> ! {
    let mut ctx = Ctx::new(args, "exploration");
    ctx.rule = RULE.into();
    ctx.assumptions = vec![
        "metamorphic oracle: the unsegmented run of the same service instance is the reference; what the reference itself must satisfy (tail, upgraded bytes) is derived from the bytes alone".into(),
        "the harness re-feeds `returned tail ++ bytes left unread in the reader`, as the API documents".into(),
    ];
    if let Some(p) = &args.replay {
        let v = load_replay(p);
        replay(&mut ctx, &v);
        ctx.finish();
    }
    exhaustive(&mut ctx);
    aligned(&mut ctx);
    ctx.bump_sample_cap(6);
    let n = ctx.tier.pick(6_000, 120_000);
    random_mem(&mut ctx, n);
    ctx.bump_sample_cap(6);
    let n = ctx.tier.pick(300, 6_000);
    random_sock(&mut ctx, n);
    let n = ctx.tier.pick(300, 6_000);
    ping_multiplex(&mut ctx, n);
    ctx.exhaustive = Some(false);
    ctx.finish()
}
