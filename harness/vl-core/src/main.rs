//! In-process checks against the `varlink` crate (C01-C07, C13-C17).
use vl_model::ctx::parse_args;

mod c01;
mod c02;
mod c03;
mod c04;
mod c05;
mod c06;
mod c07;
mod c13;
mod c14;
mod c15;
mod c16;
mod c17;
mod fake;

fn main() {
    let args = parse_args();
    // panics inside the code under test are caught and reported by the checks; keep stderr quiet
    std::panic::set_hook(Box::new(|_| {}));
    match args.id.as_str() {
        "C01" => c01::run(&args),
        "C02" => c02::run(&args),
        "C03" => c03::run(&args),
        "C04" => c04::run(&args),
        "C05" => c05::run(&args),
        "C06" => c06::run(&args),
        "C07" => c07::run(&args),
        "C13" => c13::run(&args),
        "C14" => c14::run(&args),
        "C15" => c15::run(&args),
        "C16" => c16::run(&args),
        "C17" => c17::run(&args),
        other => {
            eprintln!("vl-core: unknown property {}", other);
            std::process::exit(2)
        }
    }
}
