//! C04 — a oneway call never produces a reply (server side), and the client's oneway call returns
//! after sending without consuming a reply.

use proptest::prelude::*;
use serde_json::{json, Value};
use std::sync::Arc;
use vl_model::ctx::{hash64, load_replay, ncpu, parallel, Acc, Args, Ctx};
use vl_model::pt::{self, Fail};
use vl_model::sock::{Scratch, Server};
use vl_tsvc::t_service;
use vl_model::wire::*;

use crate::c01::{self, closes, style_of};

pub const RULE: &str = "server: every sequence over the 76-symbol alphabet (19 kinds x {none,more,oneway,more+oneway}) that contains a oneway request, \
up to the tier's length bound at every pipelining depth (handle()), random longer ones (handle() and a unix \
socket served by listen()); oracles: reference model (a oneway request gets no reply, later replies stay aligned \
by token) and a metamorphic twin (the reply bytes equal those of the same stream with the oneway requests \
removed). client: random histories of {call, oneway, more} over the real listen() server on one connection; \
oneway() returns Ok, leaves both connection slots in place, and the next call receives its own token; over a \
scripted fake peer, the complete request is on the wire the moment oneway()/call() returns. \
Non-trivial: the sequence contains a oneway request whose non-oneway twin would be answered (by the library: \
built-in interface, unknown interface/method, no dot, bad parameters; or by the implementation) followed by a \
non-oneway request; distinct by (symbol sequence, depth, transport) resp. op history.";

fn has_oneway(syms: &[Sym]) -> bool {
    syms.iter().any(|s| s.flag.oneway())
}

fn nontrivial(syms: &[Sym]) -> bool {
    // a oneway request followed (not necessarily directly) by a request that expects a reply
    let mut seen = false;
    for s in syms {
        if s.flag.oneway() {
            seen = true;
        } else if seen {
            return true;
        }
    }
    false
}

/// metamorphic twin: same stream without the oneway requests (tokens keep their original index)
fn twin_check(svc: &varlink::VarlinkService, syms: &[Sym], style: u8) -> Result<(), Fail> {
    let mut full = vec![];
    let mut twin = vec![];
    for (i, s) in syms.iter().enumerate() {
        let b = encode(&request(*s, i), style_of(style, i));
        if !s.flag.oneway() {
            twin.extend_from_slice(&b);
        }
        full.extend_from_slice(&b);
    }
    let a = run_chunks(svc, &[&full]);
    let b = run_chunks(svc, &[&twin]);
    if a.err.is_some() {
        // the stream with the oneway requests was closed by the service (allowed, e.g. a oneway
        // request with bad parameters); what was written before must be a prefix of the twin's replies
        if b.out.starts_with(&a.out) {
            return Ok(());
        }
        return Err(Fail::new(
            "handle/oneway-twin/prefix",
            "stream with oneway requests closed early and its replies are not a prefix of the replies of the stream without them",
        ));
    }
    if a.out != b.out {
        return Err(Fail::new(
            "handle/oneway-twin/replies-differ",
            format!(
                "reply bytes change when the oneway requests are removed from the stream ({} vs {} bytes)",
                a.out.len(),
                b.out.len()
            ),
        ));
    }
    Ok(())
}

fn exhaustive(ctx: &mut Ctx, maxlen: usize) {
    let alpha = alphabet();
    let n = alpha.len();
    for len in 1..=maxlen {
        let total = n.pow(len as u32);
        let alpha = &alpha;
        let accs = parallel(ncpu(), |w, nw| {
            let (svc, _p) = t_service();
            let mut acc = Acc::default();
            let mut idx = w;
            while idx < total {
                let mut syms = Vec::with_capacity(len);
                let mut x = idx;
                for _ in 0..len {
                    syms.push(alpha[x % n]);
                    x /= n;
                }
                if has_oneway(&syms) {
                    for depth in 1..=len {
                      for style in 0..(if len <= 2 { 4u8 } else { 1u8 }) {
                        acc.case(if nontrivial(&syms) { Some(hash64(&(&syms, depth, style, "mem"))) } else { None });
                        acc.class("mem:enumerated");
                        let r = c01::run_mem(&svc, &syms, depth, style)
                            .map(|_| ())
                            .and_then(|_| if depth == len { twin_check(&svc, &syms, style) } else { Ok(()) });
                        if let Err(f) = r {
                            acc.fail(
                                (len as u64) << 40 | (idx as u64) << 6 | (depth as u64) << 3 | style as u64,
                                &f.key,
                                &f.what,
                                c01::case_json(&syms, depth, style, "mem"),
                            );
                        }
                        if idx % 1013 == 0 {
                            acc.sample(|| c01::case_json(&syms, depth, style, "mem"));
                        }
                      }
                    }
                }
                idx += nw;
            }
            acc
        });
        ctx.merge(accs, "c04-mem");
        ctx.section(
            &format!("exhaustive_len_{}", len),
            json!({"sequences_total": total, "restricted_to": "contains a oneway request", "exhaustive": true}),
        );
    }
}

/// A oneway request that *upgrades* the connection: the acknowledgement is a reply like any other and is
/// not sent. Every symbol (or none) in front of an Upgrade request flagged oneway / more+oneway.
fn oneway_upgrade(ctx: &mut Ctx) {
    let (svc, _p) = t_service();
    let mut firsts: Vec<Option<Sym>> = vec![None];
    firsts.extend(alphabet().into_iter().filter(|s| !s.closes()).map(Some));
    for first in firsts {
        for flag in [Flag::Oneway, Flag::MoreOneway] {
            let mut syms: Vec<Sym> = first.into_iter().collect();
            syms.push(Sym { kind: Kind::Upgrade, flag });
            for depth in 1..=syms.len() {
                for style in 0..4u8 {
                    ctx.case(Some(hash64(&(&syms, depth, style, "oneway-upgrade"))));
                    ctx.class("mem:oneway-upgrade");
                    if let Err(f) = pt::guard(|| c01::run_mem(&svc, &syms, depth, style).map(|_| ())) {
                        ctx.violation(&f.key, &f.what, "c04-mem", c01::case_json(&syms, depth, style, "mem"));
                        return;
                    }
                }
            }
        }
    }
}

fn oneway_seq_strategy(lo: usize, hi: usize) -> impl Strategy<Value = (Vec<Sym>, usize, u8)> {
    // like C01's generator but every third position (at least one) is forced oneway
    (c01::seq_strategy(alphabet(), lo, hi), prop::collection::vec(0u8..3, hi))
        .prop_map(|((mut syms, depth, style), ow)| {
            let mut any = false;
            for (i, s) in syms.iter_mut().enumerate() {
                if ow[i] == 0 {
                    s.flag = Flag::Oneway;
                    any = true;
                }
            }
            if !any {
                let k = syms.len() / 2;
                syms[k].flag = Flag::Oneway;
            }
            (syms, depth, style)
        })
}

fn random_server(ctx: &mut Ctx, mem_cases: u32, sock_cases: u32) {
    let (svc, _p) = t_service();
    let r = pt::check(ctx, "c04-mem-random", mem_cases, oneway_seq_strategy(2, 20), |ctx, (syms, depth, style)| {
        ctx.case(if nontrivial(syms) { Some(hash64(&(syms, depth, "mem"))) } else { None });
        ctx.class("mem:random");
        ctx.sample(|| c01::case_json(syms, *depth, *style, "mem"));
        c01::run_mem(&svc, syms, *depth, *style)?;
        twin_check(&svc, syms, *style)
    });
    if let Some(((syms, depth, style), f)) = r {
        ctx.violation(&f.key, &f.what, "c04-mem", c01::case_json(&syms, depth, style, "mem"));
    }
    let scratch = Scratch::new("c04");
    let addr = scratch.unix_addr("c04.sock");
    let (svc, _p) = t_service();
    let server = Server::start(svc, &addr, 2, 16, 0);
    let hung = std::cell::Cell::new(0u32);
    let r = pt::check_with(ctx, "c04-sock-random", sock_cases, 200, 60_000, oneway_seq_strategy(1, 12), |ctx, (syms, depth, style)| {
        ctx.case(if nontrivial(syms) { Some(hash64(&(syms, depth, "sock"))) } else { None });
        ctx.class("sock:random");
        ctx.sample(|| c01::case_json(syms, *depth, *style, "unix"));
        if let c01::SockOutcome::Hung = c01::run_sock(&addr, syms, *depth, *style, "listen")? {
            hung.set(hung.get() + 1);
        }
        Ok(())
    });
    if let Some(((syms, depth, style), f)) = r {
        ctx.violation(&f.key, &f.what, "c04-sock", c01::case_json(&syms, depth, style, "unix"));
    }
    if hung.get() > 0 {
        ctx.inconclusive(&format!("{} socket runs hung", hung.get()));
    }
    let _ = server.stop();
}

// ------------------------------------------------------------------------------------------------
// client side

#[derive(Clone, Copy, Debug, PartialEq, Eq, Hash)]
pub enum Op {
    Call(Kind),
    Oneway(Kind),
    More(Kind),
}

fn op_json(ops: &[Op]) -> Value {
    Value::Array(ops.iter().map(|o| json!(format!("{:?}", o))).collect())
}

fn op_from(s: &str) -> Option<Op> {
    let kinds: Vec<Kind> = KINDS.to_vec();
    for k in kinds {
        for (name, mk) in [
            ("Call", Op::Call as fn(Kind) -> Op),
            ("Oneway", Op::Oneway as fn(Kind) -> Op),
            ("More", Op::More as fn(Kind) -> Op),
        ] {
            if s == format!("{}({:?})", name, k) {
                return Some(mk(k));
            }
        }
    }
    None
}

type VCall = varlink::MethodCall<Value, Value, varlink::Error>;

fn mk_call(conn: &Arc<std::sync::RwLock<varlink::Connection>>, kind: Kind, i: usize) -> VCall {
    let req = request(Sym { kind, flag: Flag::None }, i);
    let method = req["method"].as_str().unwrap().to_string();
    let params = req.get("parameters").cloned().unwrap_or(json!({}));
    VCall::new(conn.clone(), method, params)
}

/// What the client must observe for a non-oneway call of this kind (from the reference model).
fn client_matches(exp: &Exp, more: bool, got: &[Result<Value, varlink::ErrorKind>]) -> Result<(), String> {
    let n_cont = if more { exp.conts.len() } else { 0 };
    if got.len() != n_cont + 1 {
        return Err(format!("expected {} replies, client yielded {}", n_cont + 1, got.len()));
    }
    for (j, c) in exp.conts.iter().take(n_cont).enumerate() {
        match &got[j] {
            Ok(v) if v == c => {}
            other => return Err(format!("continues reply {} should be {} but is {:?}", j, c, other)),
        }
    }
    let last = &got[n_cont];
    let ok = match (&exp.fin, last) {
        (Fin::Ok(p), Ok(v)) => v == p,
        (Fin::OkGetInfo, Ok(v)) => v["vendor"] == vl_model::svc::VENDOR,
        (Fin::Err(name, p), Err(k)) => match k {
            varlink::ErrorKind::InterfaceNotFound(s) => {
                name == E_IFACE_NOT_FOUND && p.as_ref().map(|p| p["interface"] == s.as_str()).unwrap_or(true)
            }
            varlink::ErrorKind::MethodNotFound(s) => {
                name == E_METHOD_NOT_FOUND && p.as_ref().map(|p| p["method"] == s.as_str()).unwrap_or(true)
            }
            varlink::ErrorKind::InvalidParameter(s) => {
                name == E_INVALID_PARAMETER && p.as_ref().map(|p| p["parameter"] == s.as_str()).unwrap_or(true)
            }
            varlink::ErrorKind::VarlinkErrorReply(r) => {
                r.error.as_deref() == Some(name.as_str())
                    && p.as_ref().map(|p| r.parameters.as_ref() == Some(p)).unwrap_or(true)
            }
            _ => false,
        },
        (Fin::AnyErr, Err(k)) => matches!(
            k,
            varlink::ErrorKind::InterfaceNotFound(_)
                | varlink::ErrorKind::MethodNotFound(_)
                | varlink::ErrorKind::InvalidParameter(_)
                | varlink::ErrorKind::MethodNotImplemented(_)
                | varlink::ErrorKind::VarlinkErrorReply(_)
        ),
        _ => false,
    };
    if ok {
        Ok(())
    } else {
        Err(format!("expected {:?} but the client returned {:?}", exp.fin, last))
    }
}

pub fn run_client_history(addr: &str, ops: &[Op]) -> Result<(), Fail> {
    let conn = varlink::Connection::with_address(addr)
        .map_err(|e| Fail::new("client/connect", format!("{:?}", e.kind())))?;
    for (i, op) in ops.iter().enumerate() {
        match op {
            Op::Oneway(k) => {
                let mut c = mk_call(&conn, *k, i);
                if let Err(e) = c.oneway() {
                    return Err(Fail::new(
                        format!("client/oneway-failed/{:?}", k),
                        format!("op #{} oneway({:?}) returned {:?}", i, k, e.kind()),
                    ));
                }
                let g = conn.read().unwrap();
                if g.reader.is_none() || g.writer.is_none() {
                    return Err(Fail::new(
                        format!("client/oneway-took-slot/{:?}", k),
                        format!("after op #{} oneway({:?}) the connection's reader/writer slot is empty", i, k),
                    ));
                }
            }
            Op::Call(k) | Op::More(k) => {
                let more = matches!(op, Op::More(_));
                let exp = expect(Sym { kind: *k, flag: if more { Flag::More } else { Flag::None } }, i);
                let mut c = mk_call(&conn, *k, i);
                let mut got: Vec<Result<Value, varlink::ErrorKind>> = vec![];
                if more {
                    match c.more() {
                        Ok(it) => {
                            for r in it {
                                got.push(r.map_err(|e| e.kind().clone()));
                                if got.len() > 16 {
                                    break;
                                }
                            }
                        }
                        Err(e) => got.push(Err(e.kind().clone())),
                    }
                } else {
                    got.push(c.call().map_err(|e| e.kind().clone()));
                }
                if let Err(m) = client_matches(&exp, more, &got) {
                    let prev_oneway = i > 0 && matches!(ops[i - 1], Op::Oneway(_));
                    return Err(Fail::new(
                        if prev_oneway {
                            format!("client/reply-misaligned-after-oneway/{:?}", k)
                        } else {
                            format!("client/wrong-reply/{:?}", k)
                        },
                        format!("op #{} {:?}: {} (history {:?})", i, op, m, ops),
                    ));
                }
            }
        }
    }
    Ok(())
}

fn client_kinds() -> Vec<Kind> {
    KINDS
        .iter()
        .cloned()
        .filter(|k| {
            // the client API always sends a `parameters` member, so the two "no parameters"
            // kinds cannot be expressed through it
            !matches!(k, Kind::DescNoParams | Kind::NoParams)
                && !closes(&Sym { kind: *k, flag: Flag::None })
                && !closes(&Sym { kind: *k, flag: Flag::Oneway })
        })
        .collect()
}

fn client_histories(ctx: &mut Ctx, cases: u32) {
    let scratch = Scratch::new("c04c");
    let addr = scratch.unix_addr("c04c.sock");
    let (svc, _p) = t_service();
    let server = Server::start(svc, &addr, 2, 16, 0);
    let kinds = client_kinds();
    let nk = kinds.len();
    // exhaustive: every (oneway kind, following call kind) pair
    for a in &kinds {
        for b in &kinds {
            let ops = [Op::Oneway(*a), Op::Call(*b)];
            ctx.case(Some(hash64(&ops[..])));
            ctx.class("client:oneway-then-call(all pairs)");
            if let Err(f) = pt::guard(|| run_client_history(&addr, &ops)) {
                ctx.violation(&f.key, &f.what, "c04-client", json!({"ops": op_json(&ops)}));
            }
        }
    }
    let strat = prop::collection::vec((0..nk, 0u8..5), 1..=12).prop_map(move |v| {
        v.into_iter()
            .map(|(k, m)| match m {
                0 | 1 => Op::Oneway(kinds[k]),
                2 => Op::More(kinds[k]),
                _ => Op::Call(kinds[k]),
            })
            .collect::<Vec<Op>>()
    });
    let r = pt::check_with(ctx, "c04-client", cases, 300, 60_000, strat, |ctx, ops| {
        let nt = ops.windows(2).any(|w| matches!(w[0], Op::Oneway(_)) && !matches!(w[1], Op::Oneway(_)));
        ctx.case(if nt { Some(hash64(ops)) } else { None });
        ctx.class("client:random-history");
        ctx.sample(|| json!({"ops": op_json(ops)}));
        run_client_history(&addr, ops)
    });
    if let Some((ops, f)) = r {
        ctx.violation(&f.key, &f.what, "c04-client", json!({"ops": op_json(&ops)}));
    }
    let _ = server.stop();
}

/// "returns after sending": over a scripted fake peer, the complete request of a oneway call (and of
/// every other call) is on the wire the moment the client call returns - not at the next call, not
/// when the connection is dropped.
pub fn run_sent_on_return(ops: &[(bool, usize, Value)]) -> Result<(), Fail> {
    use crate::fake::{vcall, Fake};
    const METHODS: [&str; 4] = ["org.verif.test.Echo", "org.example.x.Ping", "org.varlink.service.GetInfo", "a.b.C"];
    let mut fake = Fake::new();
    for (i, (oneway, m, params)) in ops.iter().enumerate() {
        let method = METHODS[*m % METHODS.len()];
        let mut call = vcall(&fake.conn, method, params.clone());
        if *oneway {
            call.oneway().map_err(|e| Fail::new("client/oneway-failed/fake", format!("op #{} oneway returned {:?}", i, e.kind())))?;
        } else {
            fake.push_replies(&[json!({"parameters": {"i": i}})]);
            let r = call.call().map_err(|e| Fail::new("client/call-failed/fake", format!("op #{} call returned {:?}", i, e.kind())))?;
            if r != json!({"i": i}) {
                return Err(Fail::new(
                    "client/reply-misaligned-after-oneway/fake",
                    format!("op #{} call received {} instead of its own reply {{\"i\":{}}} (history {:?})", i, r, i, ops),
                ));
            }
        }
        let reqs = fake.requests().map_err(|e| Fail::new("client/oneway-not-sent-on-return", format!("after op #{} returned: {}", i, e)))?;
        if reqs.len() != i + 1 {
            return Err(Fail::new(
                if *oneway { "client/oneway-not-sent-on-return" } else { "client/request-count" },
                format!("after op #{} ({}) returned, the peer has received {} complete requests instead of {} (history {:?})", i, if *oneway { "oneway" } else { "call" }, reqs.len(), i + 1, ops),
            ));
        }
        let last = &reqs[i];
        let flag_ok = if *oneway { last.get("oneway") == Some(&json!(true)) } else { last.get("oneway").map(|v| v == &json!(false) || v.is_null()).unwrap_or(true) };
        if last["method"] != method || last.get("parameters") != Some(params) || !flag_ok {
            return Err(Fail::new(
                "client/oneway-wrong-request",
                format!("op #{} ({} {} {}) put {} on the wire", i, if *oneway { "oneway" } else { "call" }, method, params, last),
            ));
        }
        if !fake.slots_present() {
            return Err(Fail::new("client/oneway-took-slot/fake", format!("after op #{} the connection's reader/writer slot is empty", i)));
        }
    }
    Ok(())
}

fn sent_ops_json(ops: &[(bool, usize, Value)]) -> Value {
    Value::Array(ops.iter().map(|(o, m, p)| json!({"oneway": o, "method": m, "params": p})).collect())
}

fn sent_on_return(ctx: &mut Ctx, cases: u32) {
    let strat = prop::collection::vec((prop::bool::weighted(0.6), 0usize..4, vl_model::jsongen::json_object(2).prop_map(|v| vl_model::jsongen::stabilise(&v))), 1..=8);
    let r = pt::check_with(ctx, "c04-sent", cases, 300, 30_000, strat, |ctx, ops| {
        // non-trivial: a oneway call is the last operation, or two oneway calls follow each other
        let nt = ops.last().map(|o| o.0).unwrap_or(false) || ops.windows(2).any(|w| w[0].0 && w[1].0);
        ctx.case(if nt { Some(hash64(&sent_ops_json(ops).to_string())) } else { None });
        ctx.class("client:sent-on-return(fake peer)");
        ctx.sample(|| json!({"sent_ops": sent_ops_json(ops)}));
        run_sent_on_return(ops)
    });
    if let Some((ops, f)) = r {
        ctx.violation(&f.key, &f.what, "c04-client", json!({"sent_ops": sent_ops_json(&ops)}));
    }
}

fn replay(ctx: &mut Ctx, v: &Value) {
    let cj = &v["case"];
    ctx.case(None);
    ctx.force_sample(cj.clone());
    let res = if let Some(ops) = cj.get("sent_ops").and_then(|o| o.as_array()) {
        let ops: Vec<(bool, usize, Value)> =
            ops.iter().map(|x| (x["oneway"].as_bool().unwrap_or(false), x["method"].as_u64().unwrap_or(0) as usize, x["params"].clone())).collect();
        run_sent_on_return(&ops)
    } else if let Some(ops) = cj.get("ops").and_then(|o| o.as_array()) {
        let ops: Vec<Op> = ops.iter().filter_map(|x| x.as_str().and_then(op_from)).collect();
        let scratch = Scratch::new("c04r");
        let addr = scratch.unix_addr("c04.sock");
        let (svc, _p) = t_service();
        let server = Server::start(svc, &addr, 2, 16, 0);
        let r = run_client_history(&addr, &ops);
        let _ = server.stop();
        r
    } else {
        let syms = syms_from_json(&cj["requests"]);
        let depth = cj["depth"].as_u64().unwrap_or(1) as usize;
        let style = cj["style"].as_u64().unwrap_or(0) as u8;
        if cj["transport"] == "unix" {
            let scratch = Scratch::new("c04r");
            let addr = scratch.unix_addr("c04.sock");
            let (svc, _p) = t_service();
            let server = Server::start(svc, &addr, 2, 16, 0);
            let r = c01::run_sock(&addr, &syms, depth, style, "listen").map(|_| ());
            let _ = server.stop();
            r
        } else {
            let (svc, _p) = t_service();
            c01::run_mem(&svc, &syms, depth, style)
                .map(|_| ())
                .and_then(|_| twin_check(&svc, &syms, style))
        }
    };
    if let Err(f) = res {
        ctx.violation(&f.key, &f.what, "c04-replay", cj.clone());
    }
}

pub fn run(args: &Args) -> ! {
    let mut ctx = Ctx::new(args, "exploration");
    ctx.rule = RULE.into();
    ctx.assumptions = vec![
        "reference model as in C01; closing the connection in response to a oneway request is allowed".into(),
        "client histories use request kinds after which the test service keeps the connection open".into(),
    ];
    if let Some(p) = &args.replay {
        let v = load_replay(p);
        replay(&mut ctx, &v);
        ctx.finish();
    }
    let maxlen = ctx.tier.pick(2, 3);
    exhaustive(&mut ctx, maxlen);
    oneway_upgrade(&mut ctx);
    ctx.bump_sample_cap(4);
    let (m, s) = ctx.tier.pick((120_000, 3_000), (300_000, 10_000));
    random_server(&mut ctx, m, s);
    ctx.bump_sample_cap(4);
    let n = ctx.tier.pick(6_000, 30_000);
    client_histories(&mut ctx, n);
    let n = ctx.tier.pick(12_000, 60_000);
    sent_on_return(&mut ctx, n);
    ctx.exhaustive = Some(false);
    ctx.finish()
}
