//! C14 — the worker pool respects its bound and never strands an accepted connection.
//!
//! The pool is driven through the cfg-guarded probes in /repo: every pool thread parks at each
//! probe until the controller grants it, so a thread schedule is a generated, replayable value.

use proptest::prelude::*;
use serde_json::{json, Value};
use std::collections::{BTreeMap, HashMap, HashSet};
use std::sync::atomic::{AtomicBool, AtomicUsize, Ordering};
use std::sync::mpsc::{self, Receiver, Sender};
use std::sync::{Arc, Mutex};
use std::thread::ThreadId;
use std::time::Duration;
use varlink::verif::{set_callback, Pool, PoolEvent};
use vl_model::ctx::{hash64, load_replay, Args, Ctx};
use vl_model::pt::{self, CaseResult, Fail};
use vl_model::sock::{Peer, Scratch, Server, Wait};

pub const RULE: &str = "schedules of the real thread pool, owned by the harness through blocking probes at \
execute():{entered, counted, queued, decided} and worker:{about to wait, got job, job returned, idle again}; jobs \
are harness closures that count themselves active and block until released. (1) exhaustive depth-first \
enumeration of all schedules (memoised on the abstract pool state: acceptor point, submitted jobs, queue length, \
receivers waiting, multiset of worker states) for the tier's configurations initial 1..3 x max 1..4 x up to 5 \
long-lived jobs, every explored edge executed on the real pool; (2) random schedules on larger configurations (up \
to 8 workers, 12 jobs); (3) probes through real listen(): connections opened one at a time and in bursts, \
counting concurrently served connections. Invariants: active jobs <= max at every step; at every quiescent \
state (no thread can move without a new submission or a job release) the queue is empty or max jobs are active; \
every submitted job eventually runs exactly once. Plus the real listen() loop (6 rounds x 6 configurations x {burst, one at a time}, max+2 clients held open): peak concurrency <= max, and a connection among the first max left unserved for 5 s that repeats within three further runs is a stranded connection. (4) open/close histories through listen() (three fixed ones and proptest-generated ones of 3..27 steps over 7 configurations): connections are opened (one call each, then held) and closed in generated order; after every step min(open, max) of the open connections must have been answered and never more than max (a stall of 4 s counts when it repeats within three further runs of the same history). Non-trivial: a schedule in which a submission step overlaps a \
worker's dequeue/run/mark-idle window (a worker is parked at a probe while the acceptor is inside execute()); \
distinct by (configuration, schedule).";

#[derive(Clone, Copy, Debug, PartialEq, Eq, Hash, PartialOrd, Ord)]
pub enum Point {
    Pool(PoolEventK),
    /// inside a job, blocked on the harness latch
    Job,
}

/// PoolEvent without payload, orderable
#[derive(Clone, Copy, Debug, PartialEq, Eq, Hash, PartialOrd, Ord)]
pub enum PoolEventK {
    ExecEnter,
    ExecCounted,
    ExecQueued,
    ExecDecidedGrew,
    ExecDecidedNot,
    WorkerWait,
    WorkerGotJob,
    WorkerJobDone,
    WorkerIdle,
    WorkerTerminate,
}

fn k_of(e: PoolEvent) -> PoolEventK {
    match e {
        PoolEvent::ExecEnter => PoolEventK::ExecEnter,
        PoolEvent::ExecCounted => PoolEventK::ExecCounted,
        PoolEvent::ExecQueued => PoolEventK::ExecQueued,
        PoolEvent::ExecDecided { grew: true } => PoolEventK::ExecDecidedGrew,
        PoolEvent::ExecDecided { grew: false } => PoolEventK::ExecDecidedNot,
        PoolEvent::WorkerWait => PoolEventK::WorkerWait,
        PoolEvent::WorkerGotJob => PoolEventK::WorkerGotJob,
        PoolEvent::WorkerJobDone => PoolEventK::WorkerJobDone,
        PoolEvent::WorkerIdle => PoolEventK::WorkerIdle,
        PoolEvent::WorkerTerminate => PoolEventK::WorkerTerminate,
    }
}

enum Ev {
    Park { tid: ThreadId, point: Point, release: Sender<()> },
    ExecReturned,
    /// the acceptor dropped the pool (all workers joined)
    Done,
}

static PASS: AtomicBool = AtomicBool::new(true);
static HUB: Mutex<Option<Sender<Ev>>> = Mutex::new(None);

fn park(point: Point) {
    if PASS.load(Ordering::SeqCst) {
        return;
    }
    let tx = HUB.lock().unwrap().clone();
    let Some(tx) = tx else { return };
    let (rtx, rrx) = mpsc::channel();
    if tx.send(Ev::Park { tid: std::thread::current().id(), point, release: rtx }).is_err() {
        return;
    }
    let _ = rrx.recv();
}

enum Cmd {
    Submit,
    Quit,
}

#[derive(Clone, Copy, Debug, PartialEq, Eq, Hash, PartialOrd, Ord)]
pub enum WState {
    AtWait,
    InRecv,
    AtGot,
    InJob,
    AtDone,
    AtIdle,
}

#[derive(Clone, Copy, Debug, PartialEq, Eq, Hash, PartialOrd, Ord)]
pub enum AState {
    Idle,
    At(PoolEventK),
}

#[derive(Clone, Copy, Debug, PartialEq, Eq, Hash, PartialOrd, Ord)]
pub enum Action {
    Submit,
    Acceptor,
    /// grant the first worker (in order of appearance) that is in this state
    Worker(WStateK),
}

#[derive(Clone, Copy, Debug, PartialEq, Eq, Hash, PartialOrd, Ord)]
pub enum WStateK {
    AtWait,
    AtGot,
    InJob,
    AtDone,
    AtIdle,
}

fn wk(s: WState) -> Option<WStateK> {
    match s {
        WState::AtWait => Some(WStateK::AtWait),
        WState::AtGot => Some(WStateK::AtGot),
        WState::InJob => Some(WStateK::InJob),
        WState::AtDone => Some(WStateK::AtDone),
        WState::AtIdle => Some(WStateK::AtIdle),
        WState::InRecv => None,
    }
}

struct WorkerRec {
    tid: ThreadId,
    state: WState,
    release: Option<Sender<()>>,
}

pub struct Run {
    initial: usize,
    max: usize,
    njobs: usize,
    events: Receiver<Ev>,
    cmd: Sender<Cmd>,
    acceptor_done: Receiver<()>,
    acceptor: Option<std::thread::JoinHandle<()>>,
    acc_state: AState,
    acc_release: Option<Sender<()>>,
    workers: Vec<WorkerRec>,
    queue: usize,
    in_recv: usize,
    submitted: usize,
    active: Arc<AtomicUsize>,
    started: Arc<AtomicUsize>,
    pub overlap_seen: bool,
    pub steps: usize,
}

#[derive(Debug)]
pub enum StepErr {
    /// the real pool did something the std channel/mutex semantics do not allow, or a thread did
    /// not reach its next probe: the harness cannot follow -> inconclusive
    Trace(String),
    Violation(Fail),
}

const ARRIVE: Duration = Duration::from_secs(6);

impl Run {
    pub fn new(initial: usize, max: usize, njobs: usize) -> Result<Run, StepErr> {
        let (etx, erx) = mpsc::channel();
        *HUB.lock().unwrap() = Some(etx.clone());
        set_callback(Some(Arc::new(|e: PoolEvent| park(Point::Pool(k_of(e))))));
        PASS.store(false, Ordering::SeqCst);
        let (ctx_, crx) = mpsc::channel::<Cmd>();
        let (dtx, drx) = mpsc::channel::<()>();
        let active = Arc::new(AtomicUsize::new(0));
        let started = Arc::new(AtomicUsize::new(0));
        let (a2, s2) = (active.clone(), started.clone());
        let acceptor = std::thread::spawn(move || {
            let mut pool = Pool::new(initial, max);
            while let Ok(Cmd::Submit) = crx.recv() {
                let (a3, s3) = (a2.clone(), s2.clone());
                pool.execute(move || {
                    a3.fetch_add(1, Ordering::SeqCst);
                    s3.fetch_add(1, Ordering::SeqCst);
                    park(Point::Job);
                    a3.fetch_sub(1, Ordering::SeqCst);
                });
                let _ = etx.send(Ev::ExecReturned);
            }
            drop(pool); // joins the workers
            let _ = dtx.send(());
            let _ = etx.send(Ev::Done);
        });
        let mut run = Run {
            initial,
            max,
            njobs,
            events: erx,
            cmd: ctx_,
            acceptor_done: drx,
            acceptor: Some(acceptor),
            acc_state: AState::Idle,
            acc_release: None,
            workers: vec![],
            queue: 0,
            in_recv: 0,
            submitted: 0,
            active,
            started,
            overlap_seen: false,
            steps: 0,
        };
        // the initial workers park at their first probe
        for _ in 0..initial {
            run.expect_new_worker()?;
        }
        Ok(run)
    }

    fn recv(&mut self) -> Result<Ev, StepErr> {
        self.events
            .recv_timeout(ARRIVE)
            .map_err(|_| StepErr::Trace("a thread did not reach its next probe within 6 s".into()))
    }

    fn expect_new_worker(&mut self) -> Result<(), StepErr> {
        match self.recv()? {
            Ev::Park { tid, point: Point::Pool(PoolEventK::WorkerWait), release } if !self.workers.iter().any(|w| w.tid == tid) => {
                self.workers.push(WorkerRec { tid, state: WState::AtWait, release: Some(release) });
                Ok(())
            }
            Ev::Park { point, .. } => Err(StepErr::Trace(format!("expected a new worker at its first probe, got a park at {:?}", point))),
            Ev::ExecReturned | Ev::Done => Err(StepErr::Trace("unexpected return of execute()".into())),
        }
    }

    fn expect_acceptor(&mut self) -> Result<PoolEventK, StepErr> {
        match self.recv()? {
            Ev::Park { point: Point::Pool(k), release, .. }
                if matches!(k, PoolEventK::ExecEnter | PoolEventK::ExecCounted | PoolEventK::ExecQueued | PoolEventK::ExecDecidedGrew | PoolEventK::ExecDecidedNot) =>
            {
                self.acc_state = AState::At(k);
                self.acc_release = Some(release);
                Ok(k)
            }
            Ev::Park { point, .. } => Err(StepErr::Trace(format!("expected the acceptor's next probe, got a park at {:?}", point))),
            Ev::ExecReturned | Ev::Done => Err(StepErr::Trace("unexpected return of execute()".into())),
        }
    }

    fn expect_worker_at(&mut self, tid: ThreadId, want: Point, new_state: WState) -> Result<(), StepErr> {
        match self.recv()? {
            Ev::Park { tid: t, point, release } if t == tid && point == want => {
                let w = self.workers.iter_mut().find(|w| w.tid == tid).unwrap();
                w.state = new_state;
                w.release = Some(release);
                Ok(())
            }
            Ev::Park { point, .. } => Err(StepErr::Trace(format!("expected a worker at {:?}, got a park at {:?}", want, point))),
            Ev::ExecReturned | Ev::Done => Err(StepErr::Trace("unexpected return of execute()".into())),
        }
    }

    /// std::sync::mpsc + Mutex semantics: while messages are queued and receivers wait, each
    /// waiting receiver obtains one message.
    fn dispatch(&mut self) -> Result<(), StepErr> {
        let k = self.queue.min(self.in_recv);
        for _ in 0..k {
            let ev = match self.events.recv_timeout(ARRIVE) {
                Ok(ev) => ev,
                Err(_) => {
                    // a job is queued, a worker waits for one, yet nothing is handed over
                    let active = self.active.load(Ordering::SeqCst);
                    if active < self.max {
                        return Err(StepErr::Violation(Fail::new(
                            "pool/stranded-job",
                            format!(
                                "{} job(s) are queued and a worker is waiting for a job, but none was handed over within {} s while only {} of max {} jobs are active (the queue is not reachable for the waiting worker)",
                                self.queue,
                                ARRIVE.as_secs(),
                                active,
                                self.max
                            ),
                        )));
                    }
                    return Err(StepErr::Trace("a waiting worker did not dequeue a queued job".into()));
                }
            };
            match ev {
                Ev::Park { tid, point: Point::Pool(PoolEventK::WorkerGotJob), release } => {
                    let Some(w) = self.workers.iter_mut().find(|w| w.tid == tid && w.state == WState::InRecv) else {
                        return Err(StepErr::Trace("a thread that was not waiting for a message dequeued one".into()));
                    };
                    w.state = WState::AtGot;
                    w.release = Some(release);
                    self.queue -= 1;
                    self.in_recv -= 1;
                }
                Ev::Park { point, .. } => return Err(StepErr::Trace(format!("expected a dequeue, got a park at {:?}", point))),
                Ev::ExecReturned | Ev::Done => return Err(StepErr::Trace("unexpected return of execute()".into())),
            }
        }
        Ok(())
    }

    pub fn enabled(&self) -> Vec<Action> {
        let mut v = vec![];
        if self.acc_state == AState::Idle && self.submitted < self.njobs {
            v.push(Action::Submit);
        }
        if matches!(self.acc_state, AState::At(_)) {
            v.push(Action::Acceptor);
        }
        let mut seen = HashSet::new();
        let mut ws: Vec<WStateK> = self.workers.iter().filter_map(|w| wk(w.state)).collect();
        ws.sort();
        for k in ws {
            if seen.insert(k) {
                v.push(Action::Worker(k));
            }
        }
        v
    }

    /// Abstract state for memoisation (workers are interchangeable).
    pub fn abstract_state(&self) -> (AState, usize, usize, usize, Vec<WState>) {
        let mut ws: Vec<WState> = self.workers.iter().map(|w| w.state).collect();
        ws.sort();
        (self.acc_state, self.submitted, self.queue, self.in_recv, ws)
    }

    pub fn quiescent(&self) -> bool {
        self.acc_state == AState::Idle && self.workers.iter().all(|w| matches!(w.state, WState::InRecv | WState::InJob))
    }

    fn check_invariants(&self) -> Result<(), StepErr> {
        let active = self.active.load(Ordering::SeqCst);
        if active > self.max {
            return Err(StepErr::Violation(Fail::new(
                "pool/bound-exceeded",
                format!("{} jobs are active at once, the configured maximum is {} (initial {}, {} worker threads exist)", active, self.max, self.initial, self.workers.len()),
            )));
        }
        if self.quiescent() && self.queue > 0 && active < self.max {
            return Err(StepErr::Violation(Fail::new(
                "pool/stranded-job",
                format!(
                    "no pool thread can move, {} job(s) are still queued, only {} of max {} are being served ({} worker threads exist): the queued job waits for another one to finish or a further submission",
                    self.queue,
                    active,
                    self.max,
                    self.workers.len()
                ),
            )));
        }
        Ok(())
    }

    pub fn step(&mut self, a: Action) -> Result<(), StepErr> {
        self.steps += 1;
        // non-triviality: the acceptor is inside execute() while a worker is parked inside its
        // dequeue / run / mark-idle window
        if matches!(self.acc_state, AState::At(_)) && self.workers.iter().any(|w| matches!(w.state, WState::AtGot | WState::AtDone | WState::AtIdle | WState::AtWait)) {
            self.overlap_seen = true;
        }
        match a {
            Action::Submit => {
                self.submitted += 1;
                self.cmd.send(Cmd::Submit).map_err(|_| StepErr::Trace("acceptor thread gone".into()))?;
                self.expect_acceptor()?;
            }
            Action::Acceptor => {
                let AState::At(k) = self.acc_state else { return Err(StepErr::Trace("acceptor not parked".into())) };
                let rel = self.acc_release.take().unwrap();
                let _ = rel.send(());
                match k {
                    PoolEventK::ExecEnter => {
                        self.expect_acceptor()?;
                    }
                    PoolEventK::ExecCounted => {
                        // the send happens now
                        self.queue += 1;
                        // acceptor's next probe and the dequeues may arrive in any order
                        let mut need_acc = true;
                        let mut need_got = self.queue.min(self.in_recv);
                        while need_acc || need_got > 0 {
                            let ev = match self.events.recv_timeout(ARRIVE) {
                                Ok(ev) => ev,
                                Err(_) => {
                                    let active = self.active.load(Ordering::SeqCst);
                                    if !need_acc && need_got > 0 && active < self.max {
                                        return Err(StepErr::Violation(Fail::new(
                                            "pool/stranded-job",
                                            format!(
                                                "a job was queued while a worker was waiting for one, but it was not handed over within {} s although only {} of max {} jobs are active",
                                                ARRIVE.as_secs(),
                                                active,
                                                self.max
                                            ),
                                        )));
                                    }
                                    return Err(StepErr::Trace("a thread did not reach its next probe after the send".into()));
                                }
                            };
                            match ev {
                                Ev::Park { tid, point: Point::Pool(PoolEventK::WorkerGotJob), release } if need_got > 0 => {
                                    let Some(w) = self.workers.iter_mut().find(|w| w.tid == tid && w.state == WState::InRecv) else {
                                        return Err(StepErr::Trace("a thread that was not waiting dequeued a message".into()));
                                    };
                                    w.state = WState::AtGot;
                                    w.release = Some(release);
                                    self.queue -= 1;
                                    self.in_recv -= 1;
                                    need_got -= 1;
                                }
                                Ev::Park { point: Point::Pool(PoolEventK::ExecQueued), release, .. } if need_acc => {
                                    self.acc_state = AState::At(PoolEventK::ExecQueued);
                                    self.acc_release = Some(release);
                                    need_acc = false;
                                }
                                Ev::Park { point, .. } => return Err(StepErr::Trace(format!("unexpected park at {:?} after the send", point))),
                                Ev::ExecReturned | Ev::Done => return Err(StepErr::Trace("unexpected return of execute()".into())),
                            }
                        }
                    }
                    PoolEventK::ExecQueued => {
                        // growth decision; a new worker (if any) parks at its first probe
                        let mut need_acc = true;
                        let mut grew: Option<bool> = None;
                        let mut new_seen = false;
                        while need_acc || (grew == Some(true) && !new_seen) {
                            match self.recv()? {
                                Ev::Park { tid, point: Point::Pool(PoolEventK::WorkerWait), release } if !self.workers.iter().any(|w| w.tid == tid) => {
                                    self.workers.push(WorkerRec { tid, state: WState::AtWait, release: Some(release) });
                                    new_seen = true;
                                }
                                Ev::Park { point: Point::Pool(k2), release, .. } if need_acc && matches!(k2, PoolEventK::ExecDecidedGrew | PoolEventK::ExecDecidedNot) => {
                                    grew = Some(k2 == PoolEventK::ExecDecidedGrew);
                                    self.acc_state = AState::At(k2);
                                    self.acc_release = Some(release);
                                    need_acc = false;
                                }
                                Ev::Park { point, .. } => return Err(StepErr::Trace(format!("unexpected park at {:?} during the growth decision", point))),
                                Ev::ExecReturned | Ev::Done => return Err(StepErr::Trace("unexpected return of execute()".into())),
                            }
                        }
                        if grew == Some(false) && new_seen {
                            return Err(StepErr::Trace("a worker appeared although execute() reported no growth".into()));
                        }
                    }
                    PoolEventK::ExecDecidedGrew | PoolEventK::ExecDecidedNot => match self.recv()? {
                        Ev::ExecReturned => self.acc_state = AState::Idle,
                        Ev::Done => return Err(StepErr::Trace("pool dropped unexpectedly".into())),
                        Ev::Park { point, .. } => return Err(StepErr::Trace(format!("expected execute() to return, got a park at {:?}", point))),
                    },
                    _ => return Err(StepErr::Trace("acceptor at a worker probe".into())),
                }
            }
            Action::Worker(k) => {
                let idx = self.workers.iter().position(|w| wk(w.state) == Some(k)).ok_or_else(|| StepErr::Trace("no such worker".into()))?;
                let tid = self.workers[idx].tid;
                let rel = self.workers[idx].release.take().unwrap();
                let _ = rel.send(());
                match k {
                    WStateK::AtWait => {
                        self.workers[idx].state = WState::InRecv;
                        self.in_recv += 1;
                        self.dispatch()?;
                    }
                    WStateK::AtGot => self.expect_worker_at(tid, Point::Job, WState::InJob)?,
                    WStateK::InJob => self.expect_worker_at(tid, Point::Pool(PoolEventK::WorkerJobDone), WState::AtDone)?,
                    WStateK::AtDone => self.expect_worker_at(tid, Point::Pool(PoolEventK::WorkerIdle), WState::AtIdle)?,
                    WStateK::AtIdle => self.expect_worker_at(tid, Point::Pool(PoolEventK::WorkerWait), WState::AtWait)?,
                }
            }
        }
        self.check_invariants()
    }

    /// Let everything run to completion (pass-through) and tear the pool down.
    pub fn finish(mut self) -> Result<usize, StepErr> {
        PASS.store(true, Ordering::SeqCst);
        if let Some(r) = self.acc_release.take() {
            let _ = r.send(());
        }
        for w in self.workers.iter_mut() {
            if let Some(r) = w.release.take() {
                let _ = r.send(());
            }
        }
        let _ = self.cmd.send(Cmd::Quit);
        let deadline = std::time::Instant::now() + Duration::from_secs(20);
        loop {
            let left = deadline.saturating_duration_since(std::time::Instant::now());
            match self.events.recv_timeout(left) {
                Ok(Ev::Park { release, .. }) => {
                    let _ = release.send(());
                }
                Ok(Ev::ExecReturned) => {}
                Ok(Ev::Done) => break,
                Err(_) => return Err(StepErr::Trace("the pool did not shut down within 20 s".into())),
            }
        }
        let _ = self.acceptor_done.try_recv();
        if let Some(h) = self.acceptor.take() {
            let _ = h.join();
        }
        *HUB.lock().unwrap() = None;
        let started = self.started.load(Ordering::SeqCst);
        if started != self.submitted {
            return Err(StepErr::Violation(Fail::new(
                "pool/job-lost",
                format!("{} jobs were submitted but {} ran by the time the pool was dropped", self.submitted, started),
            )));
        }
        Ok(started)
    }
}

fn actions_json(path: &[Action]) -> Value {
    Value::Array(path.iter().map(|a| json!(format!("{:?}", a))).collect())
}

fn action_from(s: &str) -> Option<Action> {
    let all = [
        Action::Submit,
        Action::Acceptor,
        Action::Worker(WStateK::AtWait),
        Action::Worker(WStateK::AtGot),
        Action::Worker(WStateK::InJob),
        Action::Worker(WStateK::AtDone),
        Action::Worker(WStateK::AtIdle),
    ];
    all.into_iter().find(|a| format!("{:?}", a) == s)
}

fn case_json(initial: usize, max: usize, njobs: usize, path: &[Action]) -> Value {
    json!({"initial": initial, "max": max, "jobs": njobs, "schedule": actions_json(path)})
}

/// Replay a path on a fresh pool; returns the run positioned after the path.
fn replay_path(initial: usize, max: usize, njobs: usize, path: &[Action]) -> Result<Run, StepErr> {
    let mut run = Run::new(initial, max, njobs)?;
    run.check_invariants()?;
    for a in path {
        if !run.enabled().contains(a) {
            return Err(StepErr::Trace(format!("schedule step {:?} is not enabled during replay", a)));
        }
        run.step(*a)?;
    }
    Ok(run)
}

pub struct Explored {
    pub states: usize,
    pub edges: usize,
    pub runs: usize,
    pub complete: bool,
    pub quiescent_states: usize,
}

/// Depth-first enumeration of all schedules of one configuration, memoised on the abstract state.
fn explore(ctx: &mut Ctx, initial: usize, max: usize, njobs: usize, state_cap: usize) -> Result<Explored, ()> {
    let mut visited: HashSet<(AState, usize, usize, usize, Vec<WState>)> = HashSet::new();
    let mut stack: Vec<Vec<Action>> = vec![vec![]];
    let mut ex = Explored { states: 0, edges: 0, runs: 0, complete: true, quiescent_states: 0 };
    while let Some(path) = stack.pop() {
        if visited.len() >= state_cap {
            ex.complete = false;
            break;
        }
        ex.runs += 1;
        let mut path = path;
        let mut run = match replay_path(initial, max, njobs, &path) {
            Ok(r) => r,
            Err(e) => return report(ctx, e, initial, max, njobs, &path),
        };
        // walk forward along first unexplored successors
        loop {
            let st = run.abstract_state();
            if !visited.insert(st) {
                break;
            }
            ex.states += 1;
            if run.quiescent() {
                ex.quiescent_states += 1;
            }
            let en = run.enabled();
            if en.is_empty() {
                break;
            }
            for a in en.iter().skip(1) {
                let mut p = path.clone();
                p.push(*a);
                stack.push(p);
            }
            let a = en[0];
            path.push(a);
            ex.edges += en.len();
            if let Err(e) = run.step(a) {
                let _ = run.finish();
                return report(ctx, e, initial, max, njobs, &path);
            }
        }
        let overlap = run.overlap_seen;
        ctx.case(if overlap { Some(hash64(&(initial, max, njobs, &path))) } else { None });
        ctx.class("exhaustive:schedule-executed");
        if ex.runs % 997 == 1 {
            ctx.sample(|| case_json(initial, max, njobs, &path));
        }
        match run.finish() {
            Ok(_) => {}
            Err(e) => return report(ctx, e, initial, max, njobs, &path),
        }
    }
    Ok(ex)
}

fn report(ctx: &mut Ctx, e: StepErr, initial: usize, max: usize, njobs: usize, path: &[Action]) -> Result<Explored, ()> {
    match e {
        StepErr::Violation(f) => {
            ctx.violation(&f.key, &f.what, "c14-schedule", case_json(initial, max, njobs, path));
        }
        StepErr::Trace(m) => {
            ctx.inconclusive(&format!("trace validation failed ({}): initial {} max {} jobs {} schedule {}", m, initial, max, njobs, actions_json(path)));
        }
    }
    Err(())
}

/// One random schedule driven by a choice list.
fn run_choices(initial: usize, max: usize, njobs: usize, choices: &[u16]) -> Result<(Vec<Action>, bool), (StepErr, Vec<Action>)> {
    let mut path = vec![];
    let mut run = Run::new(initial, max, njobs).map_err(|e| (e, vec![]))?;
    for c in choices {
        let en = run.enabled();
        if en.is_empty() {
            break;
        }
        let a = en[(*c as usize * en.len()) >> 16];
        path.push(a);
        if let Err(e) = run.step(a) {
            let _ = run.finish();
            return Err((e, path));
        }
    }
    // drain: let every parked pool thread (not the jobs) run until nothing can move
    loop {
        let en: Vec<Action> = run.enabled().into_iter().filter(|a| !matches!(a, Action::Submit | Action::Worker(WStateK::InJob))).collect();
        if en.is_empty() {
            break;
        }
        path.push(en[0]);
        if let Err(e) = run.step(en[0]) {
            let _ = run.finish();
            return Err((e, path));
        }
    }
    let overlap = run.overlap_seen;
    match run.finish() {
        Ok(_) => Ok((path, overlap)),
        Err(e) => Err((e, path)),
    }
}

fn random_schedules(ctx: &mut Ctx, cases: u32) {
    let strat = (1usize..=4, 0usize..=5, 1usize..=12, prop::collection::vec(any::<u16>(), 0..160))
        .prop_map(|(initial, extra, njobs, ch)| (initial, (initial + extra).min(8), njobs, ch));
    let trace_fail = std::cell::RefCell::new(None::<String>);
    let r = pt::check_with(ctx, "c14-random", cases, 400, 120_000, strat, |ctx, (initial, max, njobs, ch)| {
        if trace_fail.borrow().is_some() {
            ctx.exclude("random:skipped-after-trace-validation-failure");
            return Ok(());
        }
        match run_choices(*initial, *max, *njobs, ch) {
            Ok((path, overlap)) => {
                ctx.case(if overlap { Some(hash64(&(initial, max, njobs, &path))) } else { None });
                ctx.class("random:schedule-executed");
                ctx.sample(|| case_json(*initial, *max, *njobs, &path));
                Ok(())
            }
            Err((StepErr::Violation(f), _)) => Err(f),
            Err((StepErr::Trace(m), path)) => {
                *trace_fail.borrow_mut() = Some(format!("{} (initial {} max {} jobs {} schedule {})", m, initial, max, njobs, actions_json(&path)));
                Ok(())
            }
        }
    });
    if let Some(((initial, max, njobs, ch), f)) = r {
        let path = match run_choices(initial, max, njobs, &ch) {
            Err((_, p)) => p,
            Ok((p, _)) => p,
        };
        ctx.violation(&f.key, &f.what, "c14-schedule", case_json(initial, max, njobs, &path));
    }
    if let Some(m) = trace_fail.into_inner() {
        ctx.inconclusive(&format!("trace validation failed: {}", m));
    }
}

// ------------------------------------------------------------------------------------------------
// through listen()

struct Counting {
    inner: varlink::VarlinkService,
    active: Arc<AtomicUsize>,
    peak: Arc<AtomicUsize>,
}

impl varlink::ConnectionHandler for Counting {
    fn handle(
        &self,
        bufreader: &mut dyn std::io::BufRead,
        writer: &mut dyn std::io::Write,
        upgraded_iface: Option<String>,
    ) -> varlink::Result<(Vec<u8>, Option<String>)> {
        let n = self.active.fetch_add(1, Ordering::SeqCst) + 1;
        self.peak.fetch_max(n, Ordering::SeqCst);
        let r = self.inner.handle(bufreader, writer, upgraded_iface);
        self.active.fetch_sub(1, Ordering::SeqCst);
        r
    }
}

/// One fresh server, max+2 clients held open. Returns (peak concurrency, answered among the first max, stalled, clients).
fn listen_round(initial: usize, max: usize, burst: bool) -> (usize, usize, bool, usize) {
    PASS.store(true, Ordering::SeqCst);
    set_callback(None);
    let scratch = Scratch::new("c14");
    let addr = scratch.unix_addr("c14.sock");
    let (svc, _p) = vl_tsvc::t_service();
    let active = Arc::new(AtomicUsize::new(0));
    let peak = Arc::new(AtomicUsize::new(0));
    let server = Server::start(Counting { inner: svc, active: active.clone(), peak: peak.clone() }, &addr, initial, max, 0);
    // the readiness probe of Server::start used one connection; wait until it is gone
    let t0 = std::time::Instant::now();
    while active.load(Ordering::SeqCst) > 0 && t0.elapsed() < Duration::from_secs(5) {
        std::thread::sleep(Duration::from_millis(2));
    }
    peak.store(0, Ordering::SeqCst);
    let n = max + 2;
    let mut peers: Vec<Peer> = vec![];
    let mut answered = 0usize;
    let mut stalled = false;
    let req = |i: usize| vl_model::wire::encode(&json!({"method": "org.verif.test.Echo", "parameters": {"token": format!("c{}", i), "n": i}}), vl_model::wire::Style::Compact);
    if burst {
        for _ in 0..n {
            if let Ok(p) = Peer::connect(&addr) {
                peers.push(p);
            }
        }
        for (i, p) in peers.iter_mut().enumerate() {
            p.send(&req(i));
        }
        for p in peers.iter().take(max) {
            match p.wait_finals(1, Duration::from_secs(5)) {
                Wait::Reached => answered += 1,
                _ => stalled = true,
            }
        }
    } else {
        for i in 0..n {
            if let Ok(mut p) = Peer::connect(&addr) {
                p.send(&req(i));
                if i < max {
                    match p.wait_finals(1, Duration::from_secs(5)) {
                        Wait::Reached => answered += 1,
                        _ => stalled = true,
                    }
                } else {
                    // beyond the limit: may only be served after another connection finishes
                    let _ = p.wait_finals(1, Duration::from_millis(50));
                }
                peers.push(p);
            }
        }
    }
    let pk = peak.load(Ordering::SeqCst);
    drop(peers);
    let _ = server.stop();
    (pk, answered, stalled, n)
}

/// A pool that grew to `max`, then saw nothing for `quiet` while one connection stayed open: `max`
/// connections at once are served again. Returns (answered in phase 2, stalled).
fn listen_quiet_round(initial: usize, max: usize, quiet: Duration) -> (usize, bool) {
    PASS.store(true, Ordering::SeqCst);
    set_callback(None);
    let scratch = Scratch::new("c14q");
    let addr = scratch.unix_addr("c14q.sock");
    let (svc, _p) = vl_tsvc::t_service();
    let server = Server::start(svc, &addr, initial, max, 0);
    let req = |i: usize| vl_model::wire::encode(&json!({"method": "org.verif.test.Echo", "parameters": {"token": format!("q{}", i), "n": i}}), vl_model::wire::Style::Compact);
    let mut answered = 0;
    let mut stalled = false;
    // phase 1: `max` connections at once (the pool grows to max); all but the first are closed, so that
    // during the quiet time only workers that were added on demand wait at the queue
    let mut peers: Vec<Peer> = vec![];
    for i in 0..max {
        if let Ok(mut p) = Peer::connect(&addr) {
            p.send(&req(i));
            let _ = p.wait_finals(1, Duration::from_secs(5));
            peers.push(p);
        }
    }
    peers.truncate(1);
    std::thread::sleep(quiet);
    // phase 2: up to `max` connections at once again
    for i in 1..max {
        if let Ok(mut p) = Peer::connect(&addr) {
            p.send(&req(10 + i));
            match p.wait_finals(1, Duration::from_secs(5)) {
                Wait::Reached => answered += 1,
                _ => stalled = true,
            }
            peers.push(p);
        }
    }
    drop(peers);
    let _ = server.stop();
    (answered, stalled)
}

fn listen_quiet(ctx: &mut Ctx, initial: usize, max: usize, quiet_ms: u64) {
    let quiet = Duration::from_millis(quiet_ms);
    let (answered, stalled) = listen_quiet_round(initial, max, quiet);
    ctx.case(Some(hash64(&(initial, max, quiet_ms, "listen-quiet"))));
    ctx.class("listen:grown-then-quiet-then-full-again");
    if stalled {
        let mut again = None;
        for _ in 0..3 {
            let (a2, s2) = listen_quiet_round(initial, max, quiet);
            if s2 {
                again = Some(a2);
                break;
            }
        }
        match again {
            Some(a2) => {
                ctx.violation(
                    "listen/stranded-connection",
                    &format!(
                        "listen(initial={}, max={}): {} connections served at once, {} ms without traffic, then {} connections again: only {} (and in a repetition only {}) of the {} new ones were served within 5 s although fewer than {} were in service",
                        initial, max, max, quiet_ms, max, answered, a2, max - 1, max
                    ),
                    "c14-listen",
                    json!({"initial": initial, "max": max, "quiet_ms": quiet_ms}),
                );
            }
            None => ctx.inconclusive(&format!("listen(initial={}, max={}) after {} ms of quiet: only {} of {} connections answered within 5 s, not repeated in 3 further runs", initial, max, quiet_ms, answered, max)),
        }
    }
}

/// The real listen() loop under max+2 held-open clients: the bound, and that each of the first max
/// connections is served. A connection left unserved for 5 s while fewer than max are in service is
/// judged by repetition: the same configuration is run up to three more times, a second occurrence
/// makes it a stranded connection (once only: inconclusive).
fn listen_probe(ctx: &mut Ctx, initial: usize, max: usize, burst: bool) {
    let (pk, answered, stalled, n) = listen_round(initial, max, burst);
    ctx.case(Some(hash64(&(initial, max, burst, "listen"))));
    ctx.class(if burst { "listen:burst" } else { "listen:one-at-a-time" });
    if pk > max {
        ctx.violation(
            "listen/bound-exceeded",
            &format!("listen() with max_worker_threads={} served {} connections at the same time ({} clients kept open)", max, pk, n),
            "c14-listen",
            json!({"initial": initial, "max": max, "burst": burst, "clients": n}),
        );
    }
    if stalled {
        let mut again = None;
        for _ in 0..3 {
            let (_, a2, s2, _) = listen_round(initial, max, burst);
            if s2 {
                again = Some(a2);
                break;
            }
        }
        match again {
            Some(a2) => {
                ctx.violation(
                    "listen/stranded-connection",
                    &format!(
                        "listen(initial={}, max={}), {} clients {}: only {} (and in a repetition only {}) of the first {} connections were served within 5 s although fewer than {} were in service",
                        initial, max, n, if burst { "connecting in a burst" } else { "one after the other" }, answered, a2, max, max
                    ),
                    "c14-listen",
                    json!({"initial": initial, "max": max, "burst": burst, "clients": n}),
                );
            }
            None => ctx.inconclusive(&format!(
                "listen(initial={}, max={}): only {} of the first {} connections were answered within 5 s, not repeated in 3 further runs",
                initial, max, answered, max
            )),
        }
    }
}

// ------------------------------------------------------------------------------------------------
// open / close histories through listen()

#[derive(Clone, Copy, Debug, PartialEq)]
enum HOp {
    Open,
    /// close the k-th of the currently open connections (in order of arrival)
    Close(usize),
}

#[derive(Debug)]
enum HRes {
    Held { closed_served_then_refilled: bool },
    Bound(usize),
    Stalled { step: usize, answered: usize, expected: usize },
}

/// A choice list read as a history: never more than max+2 connections open at a time.
fn history_ops(max: usize, ch: &[u16]) -> Vec<HOp> {
    let mut open = 0usize;
    let mut ops = vec![];
    for c in ch {
        let wants_close = (c >> 14) == 3;
        if open > 0 && (wants_close || open >= max + 2) {
            ops.push(HOp::Close(((*c & 0x3fff) as usize * open) >> 14));
            open -= 1;
        } else {
            ops.push(HOp::Open);
            open += 1;
        }
    }
    ops
}

fn hops_json(ops: &[HOp]) -> Value {
    json!(ops.iter().map(|o| match o { HOp::Open => "open".to_string(), HOp::Close(k) => format!("close:{}", k) }).collect::<Vec<_>>())
}

fn hops_from(v: &Value) -> Vec<HOp> {
    v.as_array()
        .map(|a| {
            a.iter()
                .filter_map(|x| x.as_str())
                .filter_map(|s| if s == "open" { Some(HOp::Open) } else { s.strip_prefix("close:").and_then(|k| k.parse().ok()).map(HOp::Close) })
                .collect()
        })
        .unwrap_or_default()
}

/// One fresh server; connections are opened (each sends one call and stays open) and closed as the history
/// says. After every step min(open, max) of the open connections must have been answered - a connection is
/// answered only once a worker serves it, and stays in service until it is closed - and never more than max.
fn run_history(initial: usize, max: usize, ops: &[HOp], patience: Duration, settle: Duration) -> HRes {
    PASS.store(true, Ordering::SeqCst);
    set_callback(None);
    let scratch = Scratch::new("c14h");
    let addr = scratch.unix_addr("c14h.sock");
    let (svc, _p) = vl_tsvc::t_service();
    let active = Arc::new(AtomicUsize::new(0));
    let peak = Arc::new(AtomicUsize::new(0));
    let server = Server::start(Counting { inner: svc, active: active.clone(), peak: peak.clone() }, &addr, initial, max, 0);
    let t0 = std::time::Instant::now();
    while active.load(Ordering::SeqCst) > 0 && t0.elapsed() < Duration::from_secs(5) {
        std::thread::sleep(Duration::from_millis(2));
    }
    peak.store(0, Ordering::SeqCst);
    let mut peers: Vec<(Peer, bool)> = vec![];
    let mut res = HRes::Held { closed_served_then_refilled: false };
    let mut closed_served = false;
    let mut interesting = false;
    let mut serial = 0usize;
    'ops: for (step, op) in ops.iter().enumerate() {
        match op {
            HOp::Open => {
                if let Ok(mut p) = Peer::connect(&addr) {
                    p.send(&vl_model::wire::encode(&json!({"method": "org.verif.test.Echo", "parameters": {"token": format!("h{}", serial), "n": serial}}), vl_model::wire::Style::Compact));
                    serial += 1;
                    peers.push((p, false));
                }
            }
            HOp::Close(k) => {
                if *k < peers.len() {
                    let (p, served) = peers.remove(*k);
                    if served && !peers.is_empty() {
                        closed_served = true;
                    }
                    drop(p);
                    // with a settle time the worker has finished with the closed connection before the next
                    // step; without one the next connection races with it - both orders are histories
                    if !settle.is_zero() {
                        std::thread::sleep(settle);
                    }
                }
            }
        }
        let expected = peers.len().min(max);
        let t = std::time::Instant::now();
        loop {
            for (p, answered) in peers.iter_mut() {
                if !*answered && matches!(p.wait_finals(1, Duration::from_millis(3)), Wait::Reached) {
                    *answered = true;
                }
            }
            let count = peers.iter().filter(|(_, a)| *a).count();
            if count > max {
                res = HRes::Bound(count);
                break 'ops;
            }
            if count >= expected {
                if closed_served && matches!(op, HOp::Open) && count == max {
                    interesting = true;
                }
                break;
            }
            if t.elapsed() > patience {
                res = HRes::Stalled { step, answered: count, expected };
                break 'ops;
            }
        }
    }
    if let HRes::Held { .. } = res {
        let pk = peak.load(Ordering::SeqCst);
        if pk > max {
            res = HRes::Bound(pk);
        } else {
            res = HRes::Held { closed_served_then_refilled: interesting };
        }
    }
    drop(peers);
    let _ = server.stop();
    res
}

const HISTORY_CONFIGS: [(usize, usize); 7] = [(1, 2), (1, 3), (2, 3), (1, 4), (2, 4), (3, 4), (1, 1)];

fn history_case(initial: usize, max: usize, ops: &[HOp], settle_ms: u64) -> Value {
    json!({"initial": initial, "max": max, "history": hops_json(ops), "settle_ms_after_close": settle_ms})
}

/// Judge one history; a stall counts only if it repeats within three further runs of the same history.
fn judge_history(ctx: &mut Ctx, initial: usize, max: usize, ops: &[HOp], settle_ms: u64) -> CaseResult {
    let settle = Duration::from_millis(settle_ms);
    let patience = Duration::from_secs(4);
    match run_history(initial, max, ops, patience, settle) {
        HRes::Held { closed_served_then_refilled } => {
            ctx.case(if closed_served_then_refilled { Some(hash64(&(initial, max, hops_json(ops).to_string(), "history"))) } else { None });
            ctx.class("listen:open-close-history");
            ctx.sample(|| history_case(initial, max, ops, settle_ms));
            Ok(())
        }
        HRes::Bound(n) => Err(Fail::new(
            "listen/bound-exceeded",
            format!("listen(initial={}, max={}) history {}: {} connections were in service at the same time", initial, max, hops_json(ops), n),
        )),
        HRes::Stalled { step, answered, expected } => {
            for _ in 0..3 {
                if let HRes::Stalled { step: s2, answered: a2, expected: e2 } = run_history(initial, max, ops, patience, settle) {
                    return Err(Fail::new(
                        "listen/stranded-connection",
                        format!(
                            "listen(initial={}, max={}) history {}: after step {} only {} of the {} connections that should be in service had been answered within 4 s (repetition: step {}, {} of {})",
                            initial, max, hops_json(ops), step, answered, expected, s2, a2, e2
                        ),
                    ));
                }
            }
            ctx.inconclusive(&format!("listen(initial={}, max={}) history {}: stalled once at step {}, not repeated in 3 further runs", initial, max, hops_json(ops), step));
            Ok(())
        }
    }
}

fn listen_histories(ctx: &mut Ctx, cases: u32) {
    // fixed histories first: a connection that made the pool grow ends while an older one stays, then the
    // pool is filled to its limit again
    for (initial, max) in [(1usize, 3usize), (1, 4), (2, 4)] {
        let mut ops = vec![HOp::Open, HOp::Open, HOp::Close(1)];
        for _ in 0..max {
            ops.push(HOp::Open);
        }
        ops.extend([HOp::Close(0), HOp::Open, HOp::Close(1), HOp::Close(1), HOp::Open, HOp::Open]);
        for settle_ms in [40u64, 0] {
            if let Err(f) = judge_history(ctx, initial, max, &ops, settle_ms) {
                ctx.violation(&f.key, &f.what, "c14-history", history_case(initial, max, &ops, settle_ms));
                return;
            }
        }
    }
    let strat = (0usize..HISTORY_CONFIGS.len(), prop::collection::vec(any::<u16>(), 3..28));
    let r = pt::check_with(ctx, "c14-history", cases, 10, 90_000, strat, |ctx, (cfg, ch)| {
        let (initial, max) = HISTORY_CONFIGS[*cfg];
        let ops = history_ops(max, ch);
        judge_history(ctx, initial, max, &ops, if ch[0] & 1 == 1 { 40 } else { 0 })
    });
    if let Some(((cfg, ch), f)) = r {
        let (initial, max) = HISTORY_CONFIGS[cfg];
        let ops = history_ops(max, &ch);
        let settle_ms = if ch[0] & 1 == 1 { 40 } else { 0 };
        ctx.violation(&f.key, &f.what, "c14-history", history_case(initial, max, &ops, settle_ms));
    }
}

fn replay(ctx: &mut Ctx, v: &Value) {
    let cj = &v["case"];
    ctx.case(None);
    ctx.force_sample(cj.clone());
    if cj.get("history").is_some() {
        let (initial, max) = (cj["initial"].as_u64().unwrap_or(1) as usize, cj["max"].as_u64().unwrap_or(2) as usize);
        let ops = hops_from(&cj["history"]);
        let settle_ms = cj["settle_ms_after_close"].as_u64().unwrap_or(0);
        if let Err(f) = judge_history(ctx, initial, max, &ops, settle_ms) {
            ctx.violation(&f.key, &f.what, "c14-history", history_case(initial, max, &ops, settle_ms));
        }
        return;
    }
    if let Some(q) = cj.get("quiet_ms").and_then(|q| q.as_u64()) {
        listen_quiet(ctx, cj["initial"].as_u64().unwrap_or(1) as usize, cj["max"].as_u64().unwrap_or(2) as usize, q);
        return;
    }
    if cj.get("burst").is_some() {
        listen_probe(ctx, cj["initial"].as_u64().unwrap_or(1) as usize, cj["max"].as_u64().unwrap_or(1) as usize, cj["burst"].as_bool().unwrap_or(false));
        return;
    }
    let initial = cj["initial"].as_u64().unwrap_or(1) as usize;
    let max = cj["max"].as_u64().unwrap_or(1) as usize;
    let njobs = cj["jobs"].as_u64().unwrap_or(1) as usize;
    let path: Vec<Action> = cj["schedule"].as_array().map(|a| a.iter().filter_map(|x| x.as_str().and_then(action_from)).collect()).unwrap_or_default();
    match replay_path(initial, max, njobs, &path) {
        Ok(run) => {
            if let Err(e) = run.finish() {
                let _ = report(ctx, e, initial, max, njobs, &path);
            }
        }
        Err(e) => {
            let _ = report(ctx, e, initial, max, njobs, &path);
        }
    }
}

pub fn run(args: &Args) -> ! {
    let mut ctx = Ctx::new(args, "model_checking");
    ctx.rule = RULE.into();
    ctx.assumptions = vec![
        "probe granularity: interleavings are explored between probes; the shared counters are only touched between two probes of one thread".into(),
        "std::sync::mpsc + Mutex semantics are trusted: with q queued messages and r waiting receivers, min(q, r) receivers obtain a message".into(),
        "the controller follows the implementation's own growth decision (reported by the probe) instead of predicting it, so a changed decision rule is judged by the invariants, not by trace validation".into(),
    ];
    if let Some(p) = &args.replay {
        let v = load_replay(p);
        replay(&mut ctx, &v);
        ctx.finish();
    }
    let quick = ctx.tier == vl_model::Tier::Quick;
    let configs: Vec<(usize, usize, usize)> = if quick {
        vec![(1, 1, 2), (1, 1, 3), (1, 2, 3), (2, 2, 3), (1, 3, 3), (2, 3, 3), (1, 2, 4)]
    } else {
        let mut v = vec![];
        for initial in 1..=3 {
            for max in initial..=4 {
                for jobs in 1..=5 {
                    v.push((initial, max, jobs));
                }
            }
        }
        v
    };
    let cap = if quick { 6_000 } else { 60_000 };
    let mut states = 0usize;
    let mut edges = 0usize;
    let mut runs = 0usize;
    let mut all_complete = true;
    let mut per_config = BTreeMap::new();
    for (initial, max, njobs) in configs {
        match explore(&mut ctx, initial, max, njobs, cap) {
            Ok(ex) => {
                states += ex.states;
                edges += ex.edges;
                runs += ex.runs;
                all_complete &= ex.complete;
                per_config.insert(
                    format!("initial={},max={},jobs={}", initial, max, njobs),
                    json!({"states": ex.states, "transitions": ex.edges, "runs_on_real_pool": ex.runs, "complete": ex.complete, "quiescent_states": ex.quiescent_states}),
                );
            }
            Err(()) => break,
        }
        if ctx.failed() {
            break;
        }
    }
    ctx.section("exhaustive_per_configuration", json!(per_config));
    ctx.extra.insert("states".into(), json!(states));
    ctx.extra.insert("transitions".into(), json!(edges));
    ctx.extra.insert("traces_validated_against_impl".into(), json!(runs));
    ctx.exhaustive = Some(all_complete);
    if !ctx.failed() {
        ctx.bump_sample_cap(5);
        let n = ctx.tier.pick(1_500, 60_000);
        random_schedules(&mut ctx, n);
    }
    // which worker waits at the queue during the quiet time depends on the schedule: repeated runs
    for quiet_ms in ctx.tier.pick(vec![1300u64, 2500], vec![300, 1300, 2500, 4000, 7000, 11000]) {
        for (initial, max) in [(1usize, 2usize), (1, 3)] {
            if ctx.failed() {
                break;
            }
            listen_quiet(&mut ctx, initial, max, quiet_ms);
        }
    }
    let rounds = ctx.tier.pick(6, 60);
    for _ in 0..rounds {
        for (initial, max) in [(1usize, 1usize), (1, 2), (2, 3), (1, 4), (2, 2), (3, 4)] {
            if ctx.failed() {
                break;
            }
            listen_probe(&mut ctx, initial, max, false);
            listen_probe(&mut ctx, initial, max, true);
        }
    }
    if !ctx.failed() {
        let n = ctx.tier.pick(60, 1_500);
        listen_histories(&mut ctx, n);
    }
    let _: HashMap<u8, u8> = HashMap::new();
    ctx.finish()
}
