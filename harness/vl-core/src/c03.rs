//! C03 — calls are routed by interface name (split at the last dot); the service interface tells
//! the truth.

use proptest::prelude::*;
use serde_json::{json, Map, Value};
use std::collections::{BTreeSet, HashMap};
use std::io::BufRead;
use std::sync::{Arc, Mutex};
use varlink::{CallTrait, Interface};
use vl_model::ctx::{hash64, load_replay, Args, Ctx};
use vl_model::jsongen::{json_object, json_string, json_value};
use vl_model::pt::{self, Fail};
use vl_tsvc as svc;
use vl_model::wire::*;

pub const RULE: &str = "services with 0..6 hand-written recording interfaces whose names are built from the \
elements {org,a,b,ab,a-b,A,b2,x1,test} (2-4 elements: shared prefixes, last-element variants, hyphen/digit/upper \
case), optionally plus the generator-made org.verif.test family; arbitrary vendor/product/version/url and \
description strings; method strings derived from the name set (exact, prefix, extension, case change, empty \
elements, leading/trailing dot, no dot, built-in interface) x arbitrary JSON parameters x flag combinations. \
Oracle: independent routing function (split at the last dot, set lookup) + what each recorder saw. Recorder descriptions vary in shape (no final newline, several, CRLF, trailing blanks, leading blank lines) and must come back byte for byte. Non-trivial: \
the called interface name is a proper prefix / extension / case variant of a registered name, or the method string \
is malformed (empty element, leading/trailing dot, no dot); distinct by (name set, method string). For one case in five a call to one of the registered interfaces travels in front of the case in the same buffer (its name is a prefix, an extension or a case variant of the others).";

type Log = Arc<Mutex<Vec<(String, Value)>>>;

struct Recorder {
    name: &'static str,
    desc: &'static str,
    log: Log,
}

impl Interface for Recorder {
    fn get_description(&self) -> &'static str {
        self.desc
    }
    fn get_name(&self) -> &'static str {
        self.name
    }
    fn call_upgraded(&self, _call: &mut varlink::Call, _r: &mut dyn BufRead) -> varlink::Result<Vec<u8>> {
        Ok(Vec::new())
    }
    fn call(&self, call: &mut varlink::Call) -> varlink::Result<()> {
        let req = serde_json::to_value(call.get_request().unwrap()).unwrap();
        self.log.lock().unwrap().push((self.name.to_string(), req));
        call.reply_struct(varlink::Reply::parameters(Some(json!({"seen_by": self.name}))))
    }
}

fn intern(s: &str) -> &'static str {
    static POOL: Mutex<Option<HashMap<String, &'static str>>> = Mutex::new(None);
    let mut g = POOL.lock().unwrap();
    let m = g.get_or_insert_with(HashMap::new);
    if let Some(v) = m.get(s) {
        return v;
    }
    let l: &'static str = Box::leak(s.to_string().into_boxed_str());
    m.insert(s.to_string(), l);
    l
}

const ELEMS: [&str; 12] = ["org", "a", "b", "ab", "a-b", "A", "b2", "x1", "test", "2fa", "3com", "0"];

#[derive(Clone, Debug)]
pub struct Case {
    pub names: Vec<String>,
    pub with_generated: bool,
    pub info: [String; 4],
    pub descs: Vec<String>,
    pub method: String,
    pub params: Option<Value>,
    /// more / oneway / upgrade: 0 absent, 1 true, 2 false
    pub flags: [u8; 3],
}

impl Case {
    fn to_json(&self) -> Value {
        json!({"names": self.names, "with_generated": self.with_generated, "info": self.info, "descs": self.descs,
               "method": self.method, "params": self.params, "has_params": self.params.is_some(), "flags": self.flags})
    }
    fn from_json(v: &Value) -> Case {
        let strs = |x: &Value| -> Vec<String> {
            x.as_array().map(|a| a.iter().filter_map(|s| s.as_str().map(String::from)).collect()).unwrap_or_default()
        };
        let info = strs(&v["info"]);
        let fl: Vec<u8> = v["flags"].as_array().map(|a| a.iter().map(|x| x.as_u64().unwrap_or(0) as u8).collect()).unwrap_or_default();
        Case {
            names: strs(&v["names"]),
            with_generated: v["with_generated"].as_bool().unwrap_or(false),
            info: [info.first().cloned().unwrap_or_default(), info.get(1).cloned().unwrap_or_default(), info.get(2).cloned().unwrap_or_default(), info.get(3).cloned().unwrap_or_default()],
            descs: strs(&v["descs"]),
            method: v["method"].as_str().unwrap_or("").to_string(),
            params: if v["has_params"].as_bool().unwrap_or(false) { Some(v["params"].clone()) } else { None },
            flags: [fl.first().cloned().unwrap_or(0), fl.get(1).cloned().unwrap_or(0), fl.get(2).cloned().unwrap_or(0)],
        }
    }
    fn request(&self) -> Value {
        let mut m = Map::new();
        m.insert("method".into(), json!(self.method));
        if let Some(p) = &self.params {
            m.insert("parameters".into(), p.clone());
        }
        for (k, f) in ["more", "oneway", "upgrade"].iter().zip(self.flags.iter()) {
            match f {
                1 => {
                    m.insert(k.to_string(), json!(true));
                }
                2 => {
                    m.insert(k.to_string(), json!(false));
                }
                _ => {}
            }
        }
        Value::Object(m)
    }
}

fn name_strategy() -> impl Strategy<Value = String> {
    // the first element starts with a letter; later ones may start with a digit (org.example.2fa)
    prop::collection::vec(0..ELEMS.len(), 2..=4).prop_map(|ix| ix.iter().enumerate().map(|(k, i)| if k == 0 { ELEMS[*i % 9] } else { ELEMS[*i] }).collect::<Vec<_>>().join("."))
}

const METHODS: [&str; 7] = ["Foo", "Echo", "GetInfo", "GetInterfaceDescription", "foo", "X1", "NoSuch"];

fn case_strategy() -> impl Strategy<Value = Case> {
    (
        prop::collection::vec(name_strategy(), 0..=6),
        any::<bool>(),
        [json_string(), json_string(), json_string(), json_string()],
        prop::collection::vec(json_string(), 6),
        (0u8..16, any::<prop::sample::Index>(), 0..METHODS.len(), name_strategy(), 0..ELEMS.len()),
        prop_oneof![
            3 => json_object(2).prop_map(Some),
            1 => Just(None),
            1 => json_value(2).prop_map(Some),
            2 => (any::<prop::sample::Index>(), 0u8..4).prop_map(|(i, m)| Some(json!({"__iface_pick": i.index(1000), "__mode": m}))),
        ],
        [0u8..3, 0u8..3, 0u8..3],
    )
        .prop_map(|(names, with_generated, info, descs, (mmode, pick, mi, other, ei), params, flags)| {
            let mut seen = BTreeSet::new();
            let mut names: Vec<String> = names.into_iter().filter(|n| seen.insert(n.clone())).collect();
            names.retain(|n| n != "org.varlink.service" && !svc::REGISTERED.contains(&n.as_str()));
            // sometimes two implementations report the same name (the later registration wins
            // or not - the statement only says the name is listed once and reaches one of them)
            if mmode % 7 == 3 && !names.is_empty() && names.len() < 6 {
                let d = names[pick.index(names.len())].clone();
                names.push(d);
            }
            let mut pool: Vec<String> = names.clone();
            if with_generated {
                pool.extend(svc::REGISTERED.iter().map(|s| s.to_string()));
            }
            pool.push("org.varlink.service".into());
            let base = pool[pick.index(pool.len())].clone();
            let m = METHODS[mi];
            let method = match mmode {
                0..=4 => format!("{}.{}", base, m),
                5 => {
                    // proper prefix of a registered name
                    match base.rfind('.') {
                        Some(p) => format!("{}.{}", &base[..p], m),
                        None => base.clone(),
                    }
                }
                6 => format!("{}.{}.{}", base, ELEMS[ei], m),
                7 => {
                    // case variant
                    let mut c: Vec<char> = base.chars().collect();
                    let k = pick.index(c.len());
                    c[k] = if c[k].is_ascii_lowercase() { c[k].to_ascii_uppercase() } else { c[k].to_ascii_lowercase() };
                    format!("{}.{}", c.into_iter().collect::<String>(), m)
                }
                8 => format!("{}..{}", base, m),
                9 => format!(".{}.{}", base, m),
                10 => format!("{}.", base),
                11 => base.replace('.', ""),
                12 => format!("{}.{}", other, m),
                13 => String::new(),
                14 => ".".to_string(),
                _ => format!("{}{}.{}", base, ELEMS[ei], m),
            };
            // resolve the "pick an interface name" placeholder of GetInterfaceDescription parameters
            let params = match params {
                Some(Value::Object(o)) if o.contains_key("__iface_pick") => {
                    let i = o["__iface_pick"].as_u64().unwrap() as usize;
                    let mode = o["__mode"].as_u64().unwrap();
                    let n = pool[i % pool.len()].clone();
                    Some(match mode {
                        0 | 1 => json!({"interface": n}),
                        2 => json!({"interface": format!("{}.x", n)}),
                        _ => json!({"interface": other}),
                    })
                }
                p => p,
            };
            let ndesc = names.len().min(6);
            Case { names, with_generated, info, descs: descs.into_iter().take(ndesc).collect(), method, params, flags }
        })
}

fn is_nontrivial(c: &Case) -> bool {
    let m = &c.method;
    if !m.contains('.') || m.starts_with('.') || m.ends_with('.') || m.contains("..") {
        return true;
    }
    let iface = &m[..m.rfind('.').unwrap()];
    let mut regs: Vec<&str> = c.names.iter().map(|s| s.as_str()).collect();
    if c.with_generated {
        regs.extend(svc::REGISTERED.iter());
    }
    regs.iter().any(|r| {
        *r != iface
            && (r.starts_with(&format!("{}.", iface))
                || iface.starts_with(&format!("{}.", r))
                || r.eq_ignore_ascii_case(iface)
                || iface.starts_with(r))
    })
}

fn normalise_request(req: &Value) -> Value {
    let mut m = req.as_object().cloned().unwrap_or_default();
    for k in ["more", "oneway", "upgrade", "parameters"] {
        if m.get(k) == Some(&Value::Null) {
            m.remove(k);
        }
    }
    Value::Object(m)
}

/// The description text a recorder hands out. The service has to pass it on byte for byte, so the
/// shape varies with the generated string: no final newline, several, CRLF line ends, trailing blanks,
/// leading blank lines (hand-written descriptions look like that; texts from .varlink files do not).
fn desc_text(name: &str, d: &str) -> String {
    match hash64(&d) % 7 {
        0 | 1 => format!("interface {}\n# {}\nmethod Foo() -> ()\n", name, d),
        2 => format!("interface {}\n# {}\nmethod Foo() -> ()", name, d),
        3 => format!("interface {}\n# {}\nmethod Foo() -> ()\n\n\n", name, d),
        4 => format!("interface {}\r\n# {}\r\nmethod Foo() -> ()\r\n", name, d),
        5 => format!("interface {}\n# {}\nmethod Foo() -> ()  \t\n ", name, d),
        _ => format!("\n\n  interface {}\n# {}\n\n\nmethod Foo() -> ()\n", name, d),
    }
}

pub fn run_case(c: &Case) -> Result<(), Fail> {
    let log: Log = Arc::new(Mutex::new(vec![]));
    let mut ifaces: Vec<Box<dyn Interface + Send + Sync>> = vec![];
    for (i, n) in c.names.iter().enumerate() {
        let desc = desc_text(n, &c.descs.get(i).cloned().unwrap_or_default());
        ifaces.push(Box::new(Recorder { name: intern(n), desc: intern(&desc), log: log.clone() }));
    }
    if c.with_generated {
        let probe = svc::Probe::default();
        ifaces.push(Box::new(svc::org_verif_test::new(Box::new(svc::TestImpl { probe, echo_upgraded: false }))));
        ifaces.push(Box::new(svc::org_verif::new(Box::new(svc::EchoOnly))));
        ifaces.push(Box::new(svc::org_verif_test_2::new(Box::new(svc::EchoOnly))));
        ifaces.push(Box::new(svc::org_verif_test_upper::new(Box::new(svc::EchoOnly))));
    }
    let service = varlink::VarlinkService::new(
        c.info[0].clone(),
        c.info[1].clone(),
        c.info[2].clone(),
        c.info[3].clone(),
        ifaces,
    );
    let req = c.request();
    let bytes = encode(&req, Style::Compact);
    // for one case in five another call travels in front of it in the same buffer: a method name without
    // a dot (answered with InterfaceNotFound; the call behind it is routed as if it had come alone)
    let prefixed = hash64(&c.method) % 5 == 0;
    // for another case in five a call to one of the registered recorders travels in front (the names are
    // related: prefixes and extensions of one another)
    let front: Option<String> = if !prefixed && hash64(&c.method) % 5 == 1 && !c.names.is_empty() {
        Some(c.names[(hash64(&(&c.method, "front")) % c.names.len() as u64) as usize].clone())
    } else {
        None
    };
    let buffer: Vec<u8> = if prefixed {
        [encode(&json!({"method": "nodot"}), Style::Compact), bytes.clone()].concat()
    } else if let Some(f) = &front {
        [encode(&json!({"method": format!("{}.Warmup", f), "parameters": {"w": 1}}), Style::Compact), bytes.clone()].concat()
    } else {
        bytes.clone()
    };
    let run = run_chunks(&service, &[&buffer]);
    if let Some(p) = &run.panicked {
        return Err(Fail::new("route/panic", format!("handle() panicked: {}", p)));
    }
    let mut replies = split_replies("route", &run.out)?;
    if prefixed {
        match replies.first() {
            Some(r) if r["error"] == E_IFACE_NOT_FOUND && r["parameters"]["interface"] == "nodot" => {
                replies.remove(0);
            }
            other => {
                return Err(Fail::new("route/nodot-prefix", format!("the call `nodot` in front of the case was answered with {:?}", other)));
            }
        }
        if run.err.is_some() && replies.is_empty() && !c.method.is_empty() {
            // the call behind the dot-less one was not routed at all
            if let Some(e) = &run.err {
                if e.contains("SerdeJsonDe") {
                    return Err(Fail::new(
                        "route/call-behind-nodot-not-routed",
                        format!("the call `{}` travelling behind a dot-less call in the same buffer was not routed: handle() returned {}", c.method, e),
                    ));
                }
            }
        }
    }
    let mut seen = log.lock().unwrap().clone();
    if let Some(f) = &front {
        // the call in front went to its own recorder and got that recorder's reply; what follows is judged
        // as if the case had come alone
        match seen.first() {
            Some((who, req)) if who == f && req["method"] == json!(format!("{}.Warmup", f)) => {
                seen.remove(0);
            }
            other => {
                return Err(Fail::new("route/front-call-not-routed", format!("the call `{}.Warmup` in front of the case was seen by {:?}", f, other.map(|s| &s.0))));
            }
        }
        match replies.first() {
            Some(r) if r.get("error").is_none() && r["parameters"]["seen_by"] == json!(f) => {
                replies.remove(0);
            }
            other => {
                return Err(Fail::new("route/front-call-reply", format!("the call `{}.Warmup` in front of the case was answered with {:?}", f, other)));
            }
        }
    }
    let oneway = c.flags[1] == 1;
    let more = c.flags[0] == 1;
    let closed = run.err.is_some();

    let mut registered: Vec<&str> = c.names.iter().map(|s| s.as_str()).collect();
    {
        let mut seen = BTreeSet::new();
        registered.retain(|n| seen.insert(*n));
    }
    let generated: Vec<&str> = if c.with_generated { svc::REGISTERED.to_vec() } else { vec![] };

    // --- who may have seen the call
    let target: Option<&str> = c.method.rfind('.').map(|p| &c.method[..p]);
    let expect_seen: Option<&str> = target.filter(|t| registered.contains(t));
    match (expect_seen, seen.len()) {
        (None, 0) => {}
        (None, _) => {
            return Err(Fail::new(
                "route/wrong-interface-called",
                format!("method `{}` names no registered recorder but {:?} saw a call", c.method, seen.iter().map(|s| &s.0).collect::<Vec<_>>()),
            ))
        }
        (Some(t), n) => {
            if n != 1 || seen[0].0 != t {
                return Err(Fail::new(
                    "route/not-exactly-the-named-interface",
                    format!("method `{}` must reach exactly `{}` once; calls seen: {:?}", c.method, t, seen.iter().map(|s| &s.0).collect::<Vec<_>>()),
                ));
            }
            // what was sent, as serde_json (a trusted dependency, built without `float_roundtrip`)
            // reads it back from text: the last digit of a float may differ from the generated one
            let sent: Value = serde_json::from_slice(&bytes[..bytes.len() - 1]).unwrap();
            if seen[0].1 != normalise_request(&sent) {
                return Err(Fail::new(
                    "route/request-changed",
                    format!("interface `{}` saw {} but the request was {}", t, seen[0].1, normalise_request(&sent)),
                ));
            }
        }
    }

    // --- the reply
    let one_final = |what: &str| -> Result<&Value, Fail> {
        if replies.len() != 1 {
            return Err(Fail::new(
                format!("route/{}/reply-count", what),
                format!("method `{}`: expected exactly one reply, got {} (closed={})", c.method, replies.len(), closed),
            ));
        }
        Ok(&replies[0])
    };
    if oneway {
        if !replies.is_empty() {
            return Err(Fail::new("route/reply-to-oneway", format!("oneway call `{}` got a reply {}", c.method, replies[0])));
        }
        return Ok(());
    }
    let Some(iface) = target else {
        // no dot: the statement is silent about the payload; no success reply
        for r in &replies {
            if r.get("error").map(|e| e.is_null()).unwrap_or(true) {
                return Err(Fail::new("route/nodot-success", format!("method `{}` without a dot got a success reply {}", c.method, r)));
            }
        }
        return Ok(());
    };
    let mname = &c.method[iface.len() + 1..];
    if iface == "org.varlink.service" {
        match mname {
            "GetInfo" => {
                let r = one_final("getinfo")?;
                let p = &r["parameters"];
                let ifs: Vec<&str> = p["interfaces"].as_array().map(|a| a.iter().filter_map(|x| x.as_str()).collect()).unwrap_or_default();
                let mut rest: Vec<&str> = ifs.iter().skip(1).cloned().collect();
                rest.sort();
                let mut want: Vec<&str> = registered.iter().chain(generated.iter()).cloned().collect();
                want.sort();
                let ok = r.get("error").map(|e| e.is_null()).unwrap_or(true)
                    && p["vendor"] == c.info[0].as_str()
                    && p["product"] == c.info[1].as_str()
                    && p["version"] == c.info[2].as_str()
                    && p["url"] == c.info[3].as_str()
                    && ifs.first() == Some(&"org.varlink.service")
                    && rest == want;
                if !ok {
                    return Err(Fail::new(
                        "route/getinfo-wrong",
                        format!("GetInfo returned {} for info {:?} and interfaces {:?}", r, c.info, want),
                    ));
                }
            }
            "GetInterfaceDescription" => match &c.params {
                None => {
                    let r = one_final("desc-noparams")?;
                    if !fin_matches(&Fin::Err(E_INVALID_PARAMETER.into(), Some(json!({"parameter": "parameters"}))), r) {
                        return Err(Fail::new("route/desc-noparams", format!("GetInterfaceDescription without parameters answered {}", r)));
                    }
                }
                Some(p) => {
                    let well_typed = p.as_object().map(|o| o.get("interface").map(|i| i.is_string()).unwrap_or(false)).unwrap_or(false);
                    if !well_typed {
                        // ill-typed: no success reply - and the request is not passed over in silence: an
                        // error reply, or the service ends the connection
                        if replies.is_empty() && !closed {
                            return Err(Fail::new(
                                "route/desc-illtyped-unanswered",
                                format!("GetInterfaceDescription with parameters {} got no reply and the connection stayed open", p),
                            ));
                        }
                        for r in &replies {
                            if r.get("error").map(|e| e.is_null()).unwrap_or(true) {
                                return Err(Fail::new("route/desc-illtyped-success", format!("ill-typed GetInterfaceDescription {} got a success reply", p)));
                            }
                        }
                    } else {
                        let want_name = p["interface"].as_str().unwrap();
                        let r = one_final("desc")?;
                        let idxs: Vec<usize> = c.names.iter().enumerate().filter(|(_, n)| n.as_str() == want_name).map(|(i, _)| i).collect();
                        if idxs.len() > 1 {
                            // duplicate registration: the description of either implementation
                            let ok = idxs.iter().any(|i| {
                                fin_matches(&Fin::Ok(json!({"description": desc_text(want_name, &c.descs.get(*i).cloned().unwrap_or_default())})), r)
                            });
                            if !ok {
                                return Err(Fail::new("route/desc-wrong", format!("GetInterfaceDescription({}) answered {} which is the text of none of the implementations registered under that name", want_name, r)));
                            }
                            return Ok(());
                        }
                        let idx = idxs.first().cloned();
                        let want = if let Some(i) = idx {
                            Fin::Ok(json!({"description": desc_text(want_name, &c.descs.get(i).cloned().unwrap_or_default())}))
                        } else if want_name == "org.varlink.service" {
                            Fin::Ok(json!({"description": builtin_description()}))
                        } else if let Some(g) = generated.iter().position(|n| *n == want_name) {
                            Fin::Ok(json!({"description": ([svc::IDL_TEST, svc::IDL_VERIF, svc::IDL_TEST_2, svc::IDL_TEST_UPPER][g])}))
                        } else {
                            Fin::Err(E_INVALID_PARAMETER.into(), Some(json!({"parameter": "interface"})))
                        };
                        if !fin_matches(&want, r) {
                            return Err(Fail::new(
                                "route/desc-wrong",
                                format!("GetInterfaceDescription({}) with registered {:?}: expected {:?}, got {}", want_name, registered, want, r),
                            ));
                        }
                    }
                }
            },
            _ => {
                let r = one_final("builtin-unknown-method")?;
                if !fin_matches(&Fin::Err(E_METHOD_NOT_FOUND.into(), Some(json!({"method": c.method}))), r) {
                    return Err(Fail::new("route/builtin-method-not-found", format!("`{}` answered {}", c.method, r)));
                }
            }
        }
        return Ok(());
    }
    if expect_seen.is_some() {
        let r = one_final("recorder")?;
        if !fin_matches(&Fin::Ok(json!({"seen_by": iface})), r) {
            return Err(Fail::new("route/recorder-reply", format!("`{}` answered {} instead of the reply of interface `{}`", c.method, r, iface)));
        }
        let _ = more;
        return Ok(());
    }
    if let Some(g) = generated.iter().position(|n| *n == iface) {
        let methods: &[&str] = if g == 0 { &["Echo", "Fail", "Stream", "NaiveStream", "Upgrade", "Big"] } else { &["Echo"] };
        if !methods.contains(&mname) {
            let r = one_final("generated-unknown-method")?;
            if !fin_matches(&Fin::Err(E_METHOD_NOT_FOUND.into(), Some(json!({"method": c.method}))), r) {
                return Err(Fail::new("route/generated-method-not-found", format!("`{}` answered {}", c.method, r)));
            }
        }
        // existing generated methods with arbitrary parameters are C08's business
        return Ok(());
    }
    let r = one_final("interface-not-found")?;
    if !fin_matches(&Fin::Err(E_IFACE_NOT_FOUND.into(), Some(json!({"interface": iface}))), r) {
        return Err(Fail::new(
            "route/interface-not-found",
            format!("`{}` (registered: {:?}) answered {} instead of InterfaceNotFound({})", c.method, registered, r, iface),
        ));
    }
    Ok(())
}

fn replay(ctx: &mut Ctx, v: &Value) {
    let c = Case::from_json(&v["case"]);
    ctx.case(None);
    ctx.force_sample(v["case"].clone());
    if let Err(f) = run_case(&c) {
        ctx.violation(&f.key, &f.what, "c03-replay", v["case"].clone());
    }
}

pub fn run(args: &Args) -> ! {
    let mut ctx = Ctx::new(args, "exploration");
    ctx.rule = RULE.into();
    ctx.assumptions = vec![
        "for an ill-typed `interface` parameter and for method names without a dot only 'no success reply' is asserted (the statement is silent)".into(),
        "calls of existing generator-made methods with arbitrary parameters are left to C08".into(),
    ];
    if let Some(p) = &args.replay {
        let v = load_replay(p);
        replay(&mut ctx, &v);
        ctx.finish();
    }
    let n = ctx.tier.pick(240_000, 1_000_000);
    let r = pt::check(&mut ctx, "c03", n, case_strategy(), |ctx, c| {
        let nt = is_nontrivial(c);
        ctx.case(if nt { Some(hash64(&(&c.names, c.with_generated, &c.method))) } else { None });
        let m = &c.method;
        ctx.class(if !m.contains('.') {
            "method:no-dot"
        } else if m.starts_with("org.varlink.service.") {
            "method:built-in"
        } else if c.names.iter().any(|n| m.rfind('.').map(|p| &m[..p] == n).unwrap_or(false)) {
            "method:registered-recorder"
        } else if nt {
            "method:near-miss"
        } else {
            "method:other"
        });
        ctx.sample(|| c.to_json());
        run_case(c)
    });
    if let Some((c, f)) = r {
        ctx.violation(&f.key, &f.what, "c03", c.to_json());
    }
    ctx.exhaustive = Some(false);
    ctx.finish()
}
