//! Known-finding classes of the code generator (C09), as exact predicates on the definition.

use serde_json::json;
use std::collections::{BTreeMap, BTreeSet};
use vl_model::ctx::{hash64, Ctx};
use vl_model::idl::*;

use crate::batch::*;
use crate::c09::Item;

/// does emitting this type define a new Rust item (anonymous struct / enum)?
pub fn emits_anon(t: &Ty) -> bool {
    match t {
        Ty::Struct(_) | Ty::Enum(_) => true,
        Ty::Array(x) | Ty::Opt(x) => emits_anon(x),
        Ty::Dict(x) => match &**x {
            Ty::Struct(f) if f.is_empty() => false, // string set
            _ => emits_anon(x),
        },
        _ => false,
    }
}

fn enum_variants<'a>(idl: &'a Idl, t: &'a Ty) -> Option<&'a Vec<String>> {
    match t {
        Ty::Enum(v) => Some(v),
        Ty::Named(n) => idl.members.iter().find(|m| &m.name == n).and_then(|m| match &m.def {
            Def::Type(Ty::Enum(v)) => Some(v),
            _ => None,
        }),
        _ => None,
    }
}

/// K2: an error whose parameters contain an anonymous struct / enum (emitted twice).
pub fn k2(idl: &Idl) -> bool {
    idl.members.iter().any(|m| matches!(&m.def, Def::Error(p) if p.iter().any(|(_, t)| emits_anon(t))))
}

/// K6: a function parameter whose type is an enum with a variant of the parameter's own name.
pub fn k6(idl: &Idl) -> bool {
    let check = |f: &Fields| f.iter().any(|(n, t)| enum_variants(idl, t).map(|v| v.contains(n)).unwrap_or(false));
    idl.members.iter().any(|m| match &m.def {
        Def::Method(i, o) => check(i) || check(o),
        Def::Error(p) => check(p),
        _ => false,
    })
}

fn anon_items(prefix: &str, t: &Ty, out: &mut Vec<String>) {
    match t {
        Ty::Struct(f) => {
            out.push(prefix.to_string());
            for (n, t) in f {
                anon_items(&format!("{}_{}", prefix, n), t, out);
            }
        }
        Ty::Enum(_) => out.push(prefix.to_string()),
        Ty::Array(x) | Ty::Opt(x) => anon_items(prefix, x, out),
        Ty::Dict(x) => match &**x {
            Ty::Struct(f) if f.is_empty() => {}
            _ => anon_items(prefix, x, out),
        },
        _ => {}
    }
}

/// Names of all Rust items the generator emits for a definition (errors' anonymous types once).
pub fn item_names(idl: &Idl) -> Vec<String> {
    let mut v: Vec<String> = ["Error", "ErrorKind", "Result", "VarlinkCallError", "VarlinkInterface", "VarlinkClientInterface", "VarlinkClient", "VarlinkInterfaceProxy"]
        .iter()
        .map(|s| s.to_string())
        .collect();
    for m in &idl.members {
        match &m.def {
            Def::Type(t) => anon_items(&m.name, t, &mut v),
            Def::Method(i, o) => {
                v.push(format!("{}_Args", m.name));
                v.push(format!("{}_Reply", m.name));
                v.push(format!("Call_{}", m.name));
                for (n, t) in i {
                    anon_items(&format!("{}_Args_{}", m.name, n), t, &mut v);
                }
                for (n, t) in o {
                    anon_items(&format!("{}_Reply_{}", m.name, n), t, &mut v);
                }
            }
            Def::Error(p) => {
                v.push(format!("{}_Args", m.name));
                for (n, t) in p {
                    anon_items(&format!("{}_Args_{}", m.name, n), t, &mut v);
                }
            }
        }
    }
    v
}

/// K5: two emitted items share a name.
pub fn k5(idl: &Idl) -> bool {
    let names = item_names(idl);
    let set: BTreeSet<&String> = names.iter().collect();
    set.len() != names.len()
}

pub fn known_class(idl: &Idl) -> Option<&'static str> {
    if k2(idl) {
        return Some("K2");
    }
    if k5(idl) {
        return Some("K5");
    }
    if k6(idl) {
        return Some("K6");
    }
    None
}

/// Fixed regression examples of the classes the generator's name pools avoid by construction.
pub const FIXED_EXAMPLES: [(&str, &str, &[&str]); 6] = [
    ("K1", "interface org.example.k1\nmethod M(self: int) -> ()\n", &["panic"]),
    ("K3", "interface org.example.k3\nmethod Foo() -> ()\nmethod FOO() -> ()\n", &["E0428", "E0201", "E0046", "E0308"]),
    ("K4", "interface org.example.k4\nmethod Type() -> ()\nmethod Do(a: int) -> (b: int)\nmethod Self() -> ()\nmethod Crate() -> ()\n", &["syntax"]),
    ("K5", "interface org.example.k5\ntype T (a_b: (x: int), a: (b: (y: int)))\nmethod M() -> ()\n", &["E0428", "E0119", "E0560", "E0609"]),
    ("K7", "interface org.example.k7\ntype Error (a: int)\nmethod M() -> ()\n", &["E0428", "E0119", "E0560", "E0609"]),
    ("K8", "interface org.example.k8\nmethod M() -> ()\nerror Struct ()\n", &["E0034"]),
];

fn check_fixed_examples(ctx: &mut Ctx) {
    for (k, (class, text, expected)) in FIXED_EXAMPLES.iter().enumerate() {
        ctx.case(Some(hash64(text)));
        ctx.class(&format!("known-class-example:{}", class));
        let Ok(mut b) = Batch::new(&format!("c09-fixed-{}", class.to_lowercase())) else { continue };
        let path = b.idl_path(k);
        let _ = std::fs::write(&path, text);
        let key = format!("gen/known/{}", class);
        match crate::c09::produce(FrontEnd::CliFile, text, &path) {
            Err(f) => {
                if expected.contains(&"panic") && f.key.ends_with("/panic") {
                    ctx.violation(&key, &f.what, "c09-idl", json!({"idl": text, "front_end": "CliFile"}));
                } else {
                    ctx.violation(&f.key, &f.what, "c09-idl", json!({"idl": text, "front_end": "CliFile"}));
                }
            }
            Ok(src) => {
                let _ = b.add(k, FrontEnd::CliFile, text, src.as_deref());
                let _ = b.write_manifest(None);
                if let Ok((_, diags, _)) = b.cargo(false) {
                    let codes: BTreeSet<String> = diags.iter().map(|d| if d.code.is_empty() { "syntax".to_string() } else { d.code.clone() }).collect();
                    let unexpected: Vec<&String> = codes.iter().filter(|c| !expected.contains(&c.as_str())).collect();
                    if codes.is_empty() {
                        ctx.extra.insert(format!("note_{}_compiles", class), json!("the fixed example of this class compiles now"));
                    } else if !unexpected.is_empty() {
                        ctx.violation(
                            &format!("gen/output-does-not-compile/{}", unexpected.iter().map(|s| s.as_str()).collect::<Vec<_>>().join("+")),
                            &format!("the fixed example of known class {} fails with further error codes {:?}", class, unexpected),
                            "c09-idl",
                            json!({"idl": text, "front_end": "CliFile"}),
                        );
                    } else {
                        ctx.violation(&key, &format!("class {} example", class), "c09-idl", json!({"idl": text, "front_end": "CliFile"}));
                    }
                }
            }
        }
        b.remove();
    }
}

pub fn check_known_batches(ctx: &mut Ctx, known: &BTreeMap<&'static str, Vec<&Item>>) {
    check_fixed_examples(ctx);
    // a few examples per class: the recorded diagnostics must still be the ones observed
    for (class, items) in known {
        let Ok(mut b) = Batch::new(&format!("c09-{}", class.to_lowercase())) else { continue };
        let take: Vec<&&Item> = items.iter().take(6).collect();
        for it in &take {
            let path = b.idl_path(it.idx);
            let _ = std::fs::write(&path, &it.text);
            let src = crate::c09::produce(FrontEnd::LibToSource, &it.text, &path).ok().flatten();
            let _ = b.add(it.idx, FrontEnd::LibToSource, &it.text, src.as_deref());
        }
        let _ = b.write_manifest(None);
        if let Ok((_, diags, _)) = b.cargo(false) {
            let per = by_module(&diags);
            for it in &take {
                let codes: BTreeSet<String> = per.get(&Some(it.idx)).map(|v| v.iter().map(|d| if d.code.is_empty() { "syntax".to_string() } else { d.code.clone() }).collect()).unwrap_or_default();
                ctx.case(Some(hash64(&it.text)));
                ctx.class(&format!("known-class-example:{}", class));
                let expected: &[&str] = match *class {
                    "K2" => &["E0428", "E0119"],
                    "K5" => &["E0428", "E0119"],
                    "K6" => &["E0170"],
                    _ => &[],
                };
                let unexpected: Vec<&String> = codes.iter().filter(|c| !expected.contains(&c.as_str()) && !(class == &"K2" && c.as_str() == "E0170")).collect();
                if codes.is_empty() {
                    ctx.extra.insert(format!("note_{}_compiles", class), json!("an example of this class compiles now"));
                } else if !unexpected.is_empty() {
                    ctx.violation(
                        &format!("gen/output-does-not-compile/{}", unexpected.iter().map(|s| s.as_str()).collect::<Vec<_>>().join("+")),
                        &format!("a definition of known class {} fails with further error codes {:?}", class, unexpected),
                        "c09-idl",
                        json!({"idl": it.text, "front_end": "LibToSource"}),
                    );
                } else {
                    let key = format!("gen/known/{}", class);
                    ctx.violation(&key, &format!("class {} example", class), "c09-idl", json!({"idl": it.text, "front_end": "LibToSource"}));
                }
            }
        }
        b.remove();
    }
}
