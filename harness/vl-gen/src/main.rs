//! Generator checks (C08, C09): batch crates compiled with cargo.
use vl_model::ctx::parse_args;

mod batch;
mod c08;
mod c09;
mod driver;
mod known;

fn main() {
    // `vl-gen buildscript-child <helper> <out dir> <definition file>`: what a build.rs does
    let raw: Vec<String> = std::env::args().collect();
    if raw.get(1).map(|s| s.as_str()) == Some("buildscript-child") {
        let (helper, out_dir, file) = (raw[2].as_str(), raw[3].as_str(), raw[4].as_str());
        std::env::set_var("OUT_DIR", out_dir);
        match helper {
            "cargo_build" => varlink_generator::cargo_build(file),
            "cargo_build_many" => {
                // further files may follow: one call with several definitions
                let files: Vec<&str> = raw[4..].iter().map(|s| s.as_str()).collect();
                varlink_generator::cargo_build_many(&files)
            }
            _ => varlink_generator::cargo_build_tosource(file, false),
        }
        std::process::exit(0);
    }
    let args = parse_args();
    std::panic::set_hook(Box::new(|_| {}));
    match args.id.as_str() {
        "C08" => c08::run(&args),
        "C09" => c09::run(&args),
        other => {
            eprintln!("vl-gen: unknown property {}", other);
            std::process::exit(2)
        }
    }
}
