//! Generator checks (C08, C09): batch crates compiled with cargo.
use vl_model::ctx::parse_args;

mod batch;
mod c08;
mod c09;
mod driver;
mod known;

fn main() {
    let args = parse_args();
    std::panic::set_hook(Box::new(|_| {}));
    match args.id.as_str() {
        "C08" => c08::run(&args),
        "C09" => c09::run(&args),
        other => {
            eprintln!("vl-gen: unknown property {}", other);
            std::process::exit(2)
        }
    }
}
