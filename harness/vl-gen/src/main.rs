fn main(){}
