//! C08 driver: Rust source emitted from the harness' own IDL model that exercises the generated
//! client and server bindings of a module over an in-process loop-back with a wire tap.

use vl_model::idl::*;

/// port of the generator's method/error name -> snake_case (cross-checked against the emitted
/// source before use)
pub fn snake(s: &str) -> String {
    let mut words: Vec<String> = vec![];
    for part in s.split('_') {
        if part.is_empty() {
            continue;
        }
        let mut buf = String::new();
        let mut last_upper = false;
        for ch in part.chars() {
            if !buf.is_empty() && ch.is_uppercase() && !last_upper {
                words.push(std::mem::take(&mut buf));
            }
            last_upper = ch.is_uppercase();
            buf.extend(ch.to_lowercase());
        }
        words.push(buf);
    }
    words.join("_")
}

/// the function name the generator gives a method: snake_case as a raw identifier (valid for ordinary
/// names and keywords alike), a trailing underscore for the three names that cannot be raw
pub fn method_fn(name: &str) -> String {
    let sn = snake(name);
    if ["self", "super", "crate"].contains(&sn.as_str()) {
        format!("{}_", sn)
    } else {
        format!("r#{}", sn)
    }
}

/// Rust spelling of a field's type as the generator names it.
pub fn rust_ty(t: &Ty, path: &str, m: &str) -> String {
    match t {
        Ty::Bool => "bool".into(),
        Ty::Int => "i64".into(),
        Ty::Float => "f64".into(),
        Ty::Str => "String".into(),
        Ty::Object => "serde_json::Value".into(),
        Ty::Named(n) => format!("{}::r#{}", m, n),
        Ty::Struct(_) | Ty::Enum(_) => format!("{}::r#{}", m, path),
        Ty::Array(x) => format!("Vec<{}>", rust_ty(x, path, m)),
        Ty::Dict(x) => match &**x {
            Ty::Struct(f) if f.is_empty() => "varlink::StringHashSet".into(),
            _ => format!("varlink::StringHashMap<{}>", rust_ty(x, path, m)),
        },
        Ty::Opt(x) => format!("Option<{}>", rust_ty(x, path, m)),
    }
}

/// Source of `drv_m<i>`: server implementation + client entry points for module `m<i>`.
pub fn driver_source(i: usize, idl: &Idl) -> String {
    let m = format!("crate::m{}", i);
    let mut s = String::new();
    s.push_str(&format!("// driver for {}\nuse serde_json::{{json, Value}};\nuse std::sync::{{Arc, RwLock}};\nuse {}::VarlinkClientInterface;\nuse {}::VarlinkCallError;\nuse varlink::CallTrait;\n\n", idl.name, m, m));
    s.push_str("pub struct Srv;\n\n");
    let errors: Vec<&Member> = idl.of_kind("error");
    // server
    s.push_str(&format!("impl {}::VarlinkInterface for Srv {{\n", m));
    for mem in idl.of_kind("method") {
        let Def::Method(inp, _out) = &mem.def else { continue };
        let fname = method_fn(&mem.name);
        let params: Vec<String> = inp.iter().map(|(n, t)| format!("r#{}: {}", n, rust_ty(t, &format!("{}_Args_{}", mem.name, n), &m))).collect();
        s.push_str(&format!(
            "    fn {}(&self, call: &mut dyn {}::Call_{}{}{}) -> varlink::Result<()> {{\n",
            fname,
            m,
            mem.name,
            if params.is_empty() { "" } else { ", " },
            params.join(", ")
        ));
        let fields: Vec<String> = inp.iter().map(|(n, _)| format!("r#{}", n)).collect();
        s.push_str(&format!("        let got = {}::{}_Args {{ {} }};\n", m, mem.name, fields.join(", ")));
        s.push_str("        let sc = crate::rt::script();\n");
        s.push_str(&format!("        let want: Result<{}::{}_Args, _> = serde_json::from_value(sc.args.clone());\n", m, mem.name));
        s.push_str("        crate::rt::server_saw(serde_json::to_value(&got).unwrap_or(Value::Null), want.map(|w| w == got).unwrap_or(false));\n");
        s.push_str("        match sc.reply_kind.as_str() {\n");
        s.push_str("            \"reply\" => {\n");
        s.push_str("                if call.wants_more() {\n                    for v in &sc.continues {\n                        call.set_continues(true);\n");
        s.push_str(&reply_call(&m, mem, "v.clone()", 24));
        s.push_str("                    }\n                    call.set_continues(false);\n                }\n");
        s.push_str(&reply_call(&m, mem, "sc.value.clone()", 16));
        s.push_str("                Ok(())\n            }\n");
        for e in &errors {
            let Def::Error(p) = &e.def else { continue };
            s.push_str(&format!("            \"error:{}\" => {{\n", e.name));
            let args: Vec<String> = p.iter().map(|(n, _)| format!("a.r#{}", n)).collect();
            if p.is_empty() {
                s.push_str(&format!("                call.reply_{}()\n", snake(&e.name)));
            } else {
                s.push_str(&format!("                let a: {}::{}_Args = serde_json::from_value(sc.value.clone()).map_err(|_| varlink::context!(varlink::ErrorKind::Generic))?;\n", m, e.name));
                s.push_str(&format!("                call.reply_{}({})\n", snake(&e.name), args.join(", ")));
            }
            s.push_str("            }\n");
        }
        s.push_str("            _ => Ok(()),\n        }\n    }\n");
    }
    s.push_str("}\n\n");
    // service constructor
    s.push_str(&format!(
        "pub fn service() -> varlink::VarlinkService {{\n    varlink::VarlinkService::new(\"v\", \"p\", \"1\", \"u\", vec![Box::new({}::new(Box::new(Srv)))])\n}}\n\n",
        m
    ));
    // error rendering
    s.push_str(&format!("fn render_error(e: &{}::Error) -> Value {{\n    match e.kind() {{\n", m));
    for e in &errors {
        s.push_str(&format!(
            "        {}::ErrorKind::{}(a) => json!({{\"error\": \"{}\", \"args\": a.as_ref().map(|x| serde_json::to_value(x).unwrap_or(Value::Null))}}),\n",
            m, e.name, e.name
        ));
    }
    s.push_str(&format!(
        "        {}::ErrorKind::Varlink_Error => json!({{\"error\": \"Varlink_Error\", \"varlink_kind\": format!(\"{{:?}}\", e.source_varlink_kind())}}),\n        {}::ErrorKind::VarlinkReply_Error => json!({{\"error\": \"VarlinkReply_Error\"}}),\n    }}\n}}\n\n",
        m, m
    ));
    // does a client-side error equal the scripted one (typed comparison)?
    s.push_str(&format!("fn error_equal(e: &{}::Error, sc: &crate::rt::Script) -> bool {{\n    match e.kind() {{\n", m));
    for e in &errors {
        let Def::Error(p) = &e.def else { continue };
        if p.is_empty() {
            s.push_str(&format!("        {}::ErrorKind::{}(_) => sc.reply_kind == \"error:{}\",\n", m, e.name, e.name));
        } else {
            s.push_str(&format!(
                "        {}::ErrorKind::{}(Some(a)) => sc.reply_kind == \"error:{}\" && serde_json::from_value::<{}::{}_Args>(sc.value.clone()).map(|w| &w == a).unwrap_or(false),\n",
                m, e.name, e.name, m, e.name
            ));
        }
    }
    s.push_str("        _ => false,\n    }\n}\n\n");
    // client entry
    s.push_str("pub fn client(conn: Arc<RwLock<varlink::Connection>>, method: &str, mode: &str, sc: &crate::rt::Script) -> Value {\n");
    s.push_str(&format!("    let mut c = {}::VarlinkClient::new(conn);\n    match method {{\n", m));
    for mem in idl.of_kind("method") {
        let Def::Method(inp, _) = &mem.def else { continue };
        s.push_str(&format!("        \"{}\" => {{\n", mem.name));
        s.push_str(&format!(
            "            let a: {}::{}_Args = match serde_json::from_value(sc.args.clone()) {{ Ok(a) => a, Err(e) => return json!({{\"harness_error\": format!(\"arguments do not fit the generated type: {{}}\", e)}}) }};\n",
            m, mem.name
        ));
        let args: Vec<String> = inp.iter().map(|(n, _)| format!("a.r#{}", n)).collect();
        s.push_str(&format!("            let mut call = c.{}({});\n", method_fn(&mem.name), args.join(", ")));
        s.push_str("            match mode {\n");
        s.push_str("                \"oneway\" => match call.oneway() { Ok(()) => json!({\"results\": [], \"oneway_ok\": true}), Err(e) => json!({\"results\": [render_error(&e)], \"oneway_ok\": false}) },\n");
        s.push_str("                \"more\" => {\n                    let mut results = vec![];\n                    let mut equal = vec![];\n                    match call.more() {\n                        Err(e) => { results.push(render_error(&e)); equal.push(false); }\n                        Ok(it) => {\n                            let mut k = 0usize;\n                            for r in it {\n                                match r {\n");
        s.push_str(&format!(
            "                                    Ok(rep) => {{\n                                        let want = if k < sc.continues.len() {{ sc.continues[k].clone() }} else {{ sc.value.clone() }};\n                                        equal.push(sc.reply_kind == \"reply\" && serde_json::from_value::<{}::{}_Reply>(want).map(|w| w == rep).unwrap_or(false));\n                                        results.push(json!({{\"ok\": serde_json::to_value(&rep).unwrap_or(Value::Null)}}));\n                                    }}\n",
            m, mem.name
        ));
        s.push_str("                                    Err(e) => { equal.push(error_equal(&e, sc)); results.push(render_error(&e)); }\n                                }\n                                k += 1;\n                                if k > 64 { break; }\n                            }\n                        }\n                    }\n                    json!({\"results\": results, \"equal\": equal})\n                }\n");
        s.push_str(&format!(
            "                _ => match call.call() {{\n                    Ok(rep) => json!({{\"results\": [{{\"ok\": serde_json::to_value(&rep).unwrap_or(Value::Null)}}], \"equal\": [sc.reply_kind == \"reply\" && serde_json::from_value::<{}::{}_Reply>(sc.value.clone()).map(|w| w == rep).unwrap_or(false)]}}),\n                    Err(e) => json!({{\"results\": [render_error(&e)], \"equal\": [error_equal(&e, sc)]}}),\n                }},\n",
            m, mem.name
        ));
        s.push_str("            }\n        }\n");
    }
    s.push_str("        _ => json!({\"harness_error\": \"unknown method\"}),\n    }\n}\n");
    s
}

fn reply_call(m: &str, mem: &Member, value_expr: &str, indent: usize) -> String {
    let Def::Method(_, out) = &mem.def else { return String::new() };
    let pad = " ".repeat(indent);
    if out.is_empty() {
        return format!("{}call.reply()?;\n", pad);
    }
    let args: Vec<String> = out.iter().map(|(n, _)| format!("r.r#{}", n)).collect();
    format!(
        "{}let r: {}::{}_Reply = serde_json::from_value({}).map_err(|_| varlink::context!(varlink::ErrorKind::Generic))?;\n{}call.reply({})?;\n",
        pad,
        m,
        mem.name,
        value_expr,
        pad,
        args.join(", ")
    )
}

/// The runtime shared by all drivers (`crate::rt`) and the binary's main.
pub const RUNTIME: &str = r##"
pub mod rt {
    use serde_json::Value;
    use std::cell::RefCell;
    use std::collections::VecDeque;
    use std::io::{Read, Write};
    use std::sync::{Arc, Mutex};
    use varlink::ConnectionHandler;

    #[derive(Clone, Default)]
    pub struct Script {
        pub args: Value,
        pub reply_kind: String,
        pub value: Value,
        pub continues: Vec<Value>,
    }

    thread_local! {
        static SCRIPT: RefCell<Script> = RefCell::new(Script::default());
        static SEEN: RefCell<Vec<(Value, bool)>> = RefCell::new(vec![]);
    }

    pub fn set_script(s: Script) { SCRIPT.with(|c| *c.borrow_mut() = s); SEEN.with(|c| c.borrow_mut().clear()); }
    pub fn script() -> Script { SCRIPT.with(|c| c.borrow().clone()) }
    pub fn server_saw(v: Value, equal: bool) { SEEN.with(|c| c.borrow_mut().push((v, equal))); }
    pub fn seen() -> Vec<(Value, bool)> { SEEN.with(|c| c.borrow().clone()) }

    /// Loop-back transport: a complete request written by the client is handled synchronously by
    /// the service; both directions are logged.
    pub struct Wire {
        pub svc: varlink::VarlinkService,
        pub pending: Vec<u8>,
        pub requests: Vec<u8>,
        pub replies: Vec<u8>,
        pub outbox: VecDeque<u8>,
        pub handler_error: Option<String>,
    }

    pub struct W(pub Arc<Mutex<Wire>>);
    pub struct R(pub Arc<Mutex<Wire>>);

    impl Write for W {
        fn write(&mut self, b: &[u8]) -> std::io::Result<usize> {
            let mut w = self.0.lock().unwrap();
            w.pending.extend_from_slice(b);
            w.requests.extend_from_slice(b);
            Ok(b.len())
        }
        fn flush(&mut self) -> std::io::Result<()> {
            let mut w = self.0.lock().unwrap();
            if w.pending.contains(&0) {
                let input = std::mem::take(&mut w.pending);
                let mut out = vec![];
                let mut rd: &[u8] = &input;
                match w.svc.handle(&mut rd, &mut out, None) {
                    Ok((rest, _)) => { w.pending = rest; }
                    Err(e) => { w.handler_error = Some(format!("{:?}", e.kind())); }
                }
                w.replies.extend_from_slice(&out);
                w.outbox.extend(out);
            }
            Ok(())
        }
    }

    impl Read for R {
        fn read(&mut self, b: &mut [u8]) -> std::io::Result<usize> {
            let mut w = self.0.lock().unwrap();
            let mut n = 0;
            while n < b.len() {
                match w.outbox.pop_front() { Some(x) => { b[n] = x; n += 1; } None => break }
            }
            Ok(n) // 0 = EOF: the service wrote nothing (closed)
        }
    }

    pub fn connect(svc: varlink::VarlinkService) -> (Arc<std::sync::RwLock<varlink::Connection>>, Arc<Mutex<Wire>>) {
        let wire = Arc::new(Mutex::new(Wire { svc, pending: vec![], requests: vec![], replies: vec![], outbox: VecDeque::new(), handler_error: None }));
        let mut c = varlink::Connection::default();
        let r: Box<dyn Read + Send + Sync> = Box::new(R(wire.clone()));
        c.reader = Some(std::io::BufReader::new(r));
        c.writer = Some(Box::new(W(wire.clone())));
        (Arc::new(std::sync::RwLock::new(c)), wire)
    }

    pub fn split(bytes: &[u8]) -> Vec<Value> {
        bytes.split(|b| *b == 0).filter(|p| !p.is_empty()).map(|p| serde_json::from_slice(p).unwrap_or(Value::String(String::from_utf8_lossy(p).to_string()))).collect()
    }
}
"##;
