//! Batch crates: many generated modules in one crate, checked / built with cargo.

use serde_json::Value;
use std::collections::BTreeMap;
use std::path::{Path, PathBuf};
use std::process::Command;

pub fn cache_dir() -> PathBuf {
    vl_model::ctx::verif_root().join(".cache")
}

pub fn repo_bin(name: &str) -> Option<PathBuf> {
    let dir = std::env::var_os("VERIF_REPO_BIN")?;
    let p = Path::new(&dir).join(name);
    if p.exists() {
        Some(p)
    } else {
        None
    }
}

#[derive(Clone, Copy, Debug, PartialEq, Eq, Hash)]
pub enum FrontEnd {
    LibNoSource,
    LibToSource,
    LibCompile,
    CliStdin,
    CliFile,
    BuildMany,
    BuildToSource,
    MacroInline,
    MacroFile,
}

pub const FRONT_ENDS: [FrontEnd; 9] = [
    FrontEnd::LibNoSource,
    FrontEnd::LibToSource,
    FrontEnd::LibCompile,
    FrontEnd::CliStdin,
    FrontEnd::CliFile,
    FrontEnd::BuildMany,
    FrontEnd::BuildToSource,
    FrontEnd::MacroInline,
    FrontEnd::MacroFile,
];

pub struct Batch {
    pub dir: PathBuf,
    pub mods: Vec<(usize, FrontEnd)>,
    build_many: Vec<usize>,
    build_tosource: Vec<usize>,
    extra_lib: String,
    pub with_driver: bool,
}

#[derive(Debug, Clone)]
pub struct Diag {
    pub module: Option<usize>,
    pub code: String,
    pub message: String,
}

impl Batch {
    pub fn new(tag: &str) -> std::io::Result<Batch> {
        let dir = cache_dir().join(format!("gen-{}", tag));
        let _ = std::fs::remove_dir_all(&dir);
        std::fs::create_dir_all(dir.join("idl"))?;
        std::fs::create_dir_all(dir.join("src/gen"))?;
        std::fs::create_dir_all(dir.join("src/mac"))?;
        Ok(Batch { dir, mods: vec![], build_many: vec![], build_tosource: vec![], extra_lib: String::new(), with_driver: false })
    }

    pub fn idl_path(&self, i: usize) -> PathBuf {
        self.dir.join("idl").join(format!("m{}.varlink", i))
    }

    /// Register module `i` whose IDL text is `idl`; for file-producing front-ends `source` is the
    /// generated Rust text.
    pub fn add(&mut self, i: usize, fe: FrontEnd, idl: &str, source: Option<&str>) -> std::io::Result<()> {
        std::fs::write(self.idl_path(i), idl)?;
        match fe {
            FrontEnd::LibNoSource | FrontEnd::LibToSource | FrontEnd::LibCompile | FrontEnd::CliStdin | FrontEnd::CliFile => {
                std::fs::write(self.dir.join("src/gen").join(format!("m{}.rs", i)), source.unwrap_or(""))?;
            }
            FrontEnd::BuildMany => self.build_many.push(i),
            FrontEnd::BuildToSource => self.build_tosource.push(i),
            FrontEnd::MacroInline => {
                let hashes = "#".repeat(1 + max_hash_run(idl));
                let _ = hashes;
                std::fs::write(self.dir.join("src/mac").join(format!("m{}.rs", i)), format!("varlink_derive::varlink!(m{}_inner, r#\"{}\"#);\n", i, idl))?;
            }
            FrontEnd::MacroFile => {
                std::fs::write(self.dir.join("src/mac").join(format!("m{}.rs", i)), format!("varlink_derive::varlink_file!(m{}_inner, \"idl/m{}.varlink\");\n", i, i))?;
            }
        }
        self.mods.push((i, fe));
        Ok(())
    }

    pub fn add_lib_text(&mut self, s: &str) {
        self.extra_lib.push_str(s);
    }

    pub fn write_manifest(&self, bin_main: Option<&str>) -> std::io::Result<()> {
        let mut toml = String::from(
            "[package]\nname = \"vlbatch\"\nversion = \"0.0.0\"\nedition = \"2021\"\nbuild = \"build.rs\"\n\n[workspace]\n\n[dependencies]\n\
             varlink = { path = \"/repo/varlink\" }\nvarlink_derive = { path = \"/repo/varlink_derive\" }\nserde = \"1\"\nserde_derive = \"1\"\nserde_json = \"1\"\n\n\
             [build-dependencies]\nvarlink_generator = { path = \"/repo/varlink_generator\" }\n\n[profile.dev]\ndebug = false\nincremental = false\n",
        );
        if bin_main.is_some() {
            toml.push_str("\n[[bin]]\nname = \"vldriver\"\npath = \"src/main.rs\"\n");
        }
        std::fs::write(self.dir.join("Cargo.toml"), toml)?;
        // offline resolution needs a lock file that names cached versions
        let lock = vl_model::ctx::verif_root().join("harness/Cargo.lock");
        let _ = std::fs::copy(lock, self.dir.join("Cargo.lock"));
        std::fs::create_dir_all(self.dir.join(".cargo"))?;
        std::fs::write(self.dir.join(".cargo/config.toml"), "[net]\noffline = true\n")?;
        let mut build = String::from("fn main() {\n");
        if !self.build_many.is_empty() {
            build.push_str("    varlink_generator::cargo_build_many(&[\n");
            for i in &self.build_many {
                build.push_str(&format!("        \"idl/m{}.varlink\",\n", i));
            }
            build.push_str("    ]);\n");
        }
        for i in &self.build_tosource {
            build.push_str(&format!("    varlink_generator::cargo_build_tosource(\"idl/m{}.varlink\", false);\n", i));
        }
        build.push_str("}\n");
        std::fs::write(self.dir.join("build.rs"), build)?;
        let mut lib = String::from("#![allow(non_camel_case_types, non_snake_case, dead_code, unused_imports, unused_variables)]\n");
        for (i, fe) in &self.mods {
            match fe {
                FrontEnd::LibNoSource => lib.push_str(&format!("#[path = \"gen/m{}.rs\"]\npub mod m{};\n", i, i)),
                FrontEnd::LibToSource | FrontEnd::LibCompile | FrontEnd::CliStdin | FrontEnd::CliFile => lib.push_str(&format!("#[path = \"gen/m{}.rs\"]\npub mod m{};\n", i, i)),
                FrontEnd::BuildMany => lib.push_str(&format!("pub mod m{} {{ include!(concat!(env!(\"OUT_DIR\"), \"/m{}.rs\")); }}\n", i, i)),
                FrontEnd::BuildToSource => lib.push_str(&format!("#[path = \"../idl/m{}.rs\"]\npub mod m{};\n", i, i)),
                FrontEnd::MacroInline | FrontEnd::MacroFile => lib.push_str(&format!("#[path = \"mac/m{}.rs\"]\npub mod m{};\n", i, i)),
            }
        }
        lib.push_str(&self.extra_lib);
        std::fs::write(self.dir.join("src/lib.rs"), lib)?;
        if let Some(m) = bin_main {
            std::fs::write(self.dir.join("src/main.rs"), m)?;
        }
        Ok(())
    }

    /// `cargo check` (or build); returns error diagnostics and whether cargo succeeded.
    pub fn cargo(&self, build: bool) -> std::io::Result<(bool, Vec<Diag>, String)> {
        let out = Command::new("cargo")
            .arg(if build { "build" } else { "check" })
            .args(["--offline", "--message-format=json", "--lib"])
            .args(if build { vec!["--bins"] } else { vec![] })
            .arg("--target-dir")
            .arg(cache_dir().join("gen-target"))
            .current_dir(&self.dir)
            .env("CARGO_NET_OFFLINE", "true")
            .env("RUSTFLAGS", "")
            .env_remove("CARGO_ENCODED_RUSTFLAGS")
            .output()?;
        let mut diags = vec![];
        for line in String::from_utf8_lossy(&out.stdout).lines() {
            let Ok(v) = serde_json::from_str::<Value>(line) else { continue };
            if v["reason"] != "compiler-message" {
                continue;
            }
            let m = &v["message"];
            if m["level"] != "error" {
                continue;
            }
            let text = m["message"].as_str().unwrap_or("").to_string();
            if text.starts_with("aborting due to") || text.starts_with("could not compile") {
                continue;
            }
            let mut module = None;
            let mut stack = vec![m.clone()];
            while let Some(x) = stack.pop() {
                if let Some(spans) = x["spans"].as_array() {
                    for s in spans {
                        let mut cur = s.clone();
                        loop {
                            if let Some(f) = cur["file_name"].as_str() {
                                if let Some(i) = module_of(f) {
                                    module = module.or(Some(i));
                                }
                            }
                            let next = cur["expansion"]["span"].clone();
                            if next.is_null() {
                                break;
                            }
                            cur = next;
                        }
                    }
                }
                if let Some(ch) = x["children"].as_array() {
                    stack.extend(ch.iter().cloned());
                }
            }
            diags.push(Diag { module, code: m["code"]["code"].as_str().unwrap_or("").to_string(), message: text });
        }
        Ok((out.status.success(), diags, String::from_utf8_lossy(&out.stderr).to_string()))
    }

    pub fn remove(&self) {
        let _ = std::fs::remove_dir_all(&self.dir);
    }
}

fn max_hash_run(s: &str) -> usize {
    let mut best = 0;
    let mut cur = 0;
    for c in s.chars() {
        if c == '#' {
            cur += 1;
            best = best.max(cur);
        } else {
            cur = 0;
        }
    }
    best
}

pub fn module_of(file: &str) -> Option<usize> {
    let name = Path::new(file).file_name()?.to_str()?;
    let stem = name.strip_suffix(".rs")?;
    // m<N>.rs is a generated module, drv_m<N>.rs the round-trip driver written against its definition
    stem.strip_prefix("drv_m").or_else(|| stem.strip_prefix('m'))?.parse().ok()
}

pub fn by_module(diags: &[Diag]) -> BTreeMap<Option<usize>, Vec<&Diag>> {
    let mut m: BTreeMap<Option<usize>, Vec<&Diag>> = BTreeMap::new();
    for d in diags {
        m.entry(d.module).or_default().push(d);
    }
    m
}
