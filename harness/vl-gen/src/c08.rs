//! C08 — generated bindings put exactly the IDL on the wire (client/server round trip).

use proptest::prelude::*;
use serde_json::{json, Map, Value};
use std::io::{BufRead, BufReader, Write};
use std::process::{Child, ChildStdin, ChildStdout, Command, Stdio};
use vl_model::ctx::{hash64, load_replay, Args, Ctx};
use vl_model::idl::*;
use vl_model::jsongen::stabilise;
use vl_model::pt::{self, Fail};

use crate::batch::*;
use crate::c09::gen_items;
use crate::driver::{driver_source, RUNTIME};

pub const RULE: &str = "must-pass interface definitions from C09's generator (a fixed set per seed so that the driver \
crate is compiled once) x for every method generated argument / reply / error values (type-directed value \
generator: boundary ints, floats, empty and non-ASCII strings, empty and nested collections, every optional set / \
null / absent, enums by name, maps, string sets, arbitrary `object` values) x call modes {call, more with 0-3 \
continues replies, oneway} x {reply, each declared error}. The generated client stub and the generated server proxy \
talk over an in-process loop-back whose two directions are recorded. Oracle: (1) the request on the wire has method \
`<interface>.<Method>`, the mode's flag and parameters equal to the generated argument object under a type-directed \
comparison (optional members absent or null, floats as f64, ints as i64); (2) the server implementation received \
values equal (derived PartialEq) to the same JSON read into the generated types; (3) the reply / declared error on \
the wire equals the scripted JSON and the client returns the matching reply struct / ErrorKind variant; (4) raw \
requests with a required member dropped or a leaf retyped to a JSON type its IDL type cannot accept are answered \
with org.varlink.service.InvalidParameter. Two hand-written definitions (an error named like a standard error, map of nullable values, objects with null members, methods named Type / Self / Do whose snake_case form is a Rust keyword) are part of every run. Non-trivial: a value tuple containing a set optional, a non-empty \
collection, an enum or a keyword-named field; distinct by (definition, method, mode, value hash). Every call is made a second time on the same connection and must be served like the first.";

// ------------------------------------------------------------------------------------------------
// type-directed values

pub struct ValGen<'a, 'b> {
    pub idl: &'a Idl,
    pub t: &'a mut Tape<'b>,
}

impl ValGen<'_, '_> {
    fn lookup(&self, n: &str) -> Option<Ty> {
        self.idl.members.iter().find(|m| m.name == n).and_then(|m| match &m.def {
            Def::Type(t) => Some(t.clone()),
            _ => None,
        })
    }
    pub fn value(&mut self, ty: &Ty, depth: usize) -> Value {
        match ty {
            Ty::Bool => json!(self.t.chance(1, 2)),
            Ty::Int => {
                let c = [0i64, 1, -1, 42, i64::MAX, i64::MIN, (1 << 53) + 1, -((1 << 53) + 1), 1_000_000_007];
                if self.t.chance(1, 2) {
                    json!(c[self.t.pick(c.len())])
                } else {
                    json!((self.t.next() as i64) - (1 << 31))
                }
            }
            Ty::Float => {
                let c = [0.0f64, -0.0, 1.5, -2.25, 0.1, 1e300, 5e-324, 123456.789, 1.0, 3.0];
                stabilise(&json!(c[self.t.pick(c.len())]))
            }
            Ty::Str => {
                let c = ["", "a", "hello world", "\u{e9}\u{4e2d}\u{6587}\u{1F600}", "quote\" back\\slash \n\t", "nul\u{0}inside", "null", "{}", "\u{2028}\u{feff}"];
                json!(c[self.t.pick(c.len())])
            }
            Ty::Object => {
                let c = [
                    json!(null), json!(1), json!("s"), json!([1, "two", null]), json!({"k": {"nested": [true]}}), json!({}), json!(false),
                    json!({"unset": null, "in": {"deep": null, "list": [null, {"x": null}]}}), json!([[], {}, ""]),
                ];
                c[self.t.pick(c.len())].clone()
            }
            Ty::Named(n) => match self.lookup(n) {
                Some(t) => self.value(&t, depth + 1),
                None => Value::Null,
            },
            Ty::Struct(f) => {
                let mut m = Map::new();
                for (n, t) in f {
                    if let Ty::Opt(inner) = t {
                        match self.t.pick(3) {
                            0 => {} // absent
                            1 => {
                                m.insert(n.clone(), Value::Null);
                            }
                            _ => {
                                let v = self.value(inner, depth + 1);
                                m.insert(n.clone(), v);
                            }
                        }
                    } else {
                        let v = self.value(t, depth + 1);
                        m.insert(n.clone(), v);
                    }
                }
                Value::Object(m)
            }
            Ty::Enum(v) => json!(v[self.t.pick(v.len())]),
            Ty::Array(x) => {
                let n = if depth > 5 { 0 } else { self.t.pick(4) };
                Value::Array((0..n).map(|_| self.value(x, depth + 1)).collect())
            }
            Ty::Dict(x) => {
                let n = if depth > 5 { 0 } else { self.t.pick(4) };
                let keys = ["", "k", "key two", "\u{e9}", "type"];
                let mut m = Map::new();
                for _ in 0..n {
                    let k = keys[self.t.pick(keys.len())].to_string();
                    let v = match &**x {
                        Ty::Struct(f) if f.is_empty() => json!({}),
                        _ => self.value(x, depth + 1),
                    };
                    m.insert(k, v);
                }
                Value::Object(m)
            }
            Ty::Opt(x) => {
                if self.t.chance(1, 3) {
                    Value::Null
                } else {
                    self.value(x, depth + 1)
                }
            }
        }
    }
    pub fn fields(&mut self, f: &Fields) -> Value {
        self.value(&Ty::Struct(f.clone()), 0)
    }
}

/// Type-directed equivalence of two JSON values of IDL type `ty`.
pub fn equiv(idl: &Idl, ty: &Ty, a: &Value, b: &Value) -> bool {
    let lookup = |n: &str| {
        idl.members.iter().find(|m| m.name == n).and_then(|m| match &m.def {
            Def::Type(t) => Some(t.clone()),
            _ => None,
        })
    };
    match ty {
        Ty::Float => match (a.as_f64(), b.as_f64()) {
            (Some(x), Some(y)) => x == y || (x - y).abs() <= f64::EPSILON * x.abs().max(y.abs()),
            _ => false,
        },
        Ty::Int => a.as_i64().is_some() && a.as_i64() == b.as_i64(),
        Ty::Bool | Ty::Str | Ty::Object | Ty::Enum(_) => a == b,
        Ty::Named(n) => lookup(n).map(|t| equiv(idl, &t, a, b)).unwrap_or(false),
        Ty::Struct(f) => {
            let (Some(x), Some(y)) = (a.as_object(), b.as_object()) else { return false };
            for (n, t) in f {
                let (va, vb) = (x.get(n), y.get(n));
                match t {
                    Ty::Opt(inner) => {
                        let na = va.map(|v| v.is_null()).unwrap_or(true);
                        let nb = vb.map(|v| v.is_null()).unwrap_or(true);
                        if na != nb {
                            return false;
                        }
                        if !na && !equiv(idl, inner, va.unwrap(), vb.unwrap()) {
                            return false;
                        }
                    }
                    _ => match (va, vb) {
                        (Some(p), Some(q)) => {
                            if !equiv(idl, t, p, q) {
                                return false;
                            }
                        }
                        _ => return false,
                    },
                }
            }
            // no members beyond the declared ones
            x.keys().all(|k| f.iter().any(|(n, _)| n == k)) && y.keys().all(|k| f.iter().any(|(n, _)| n == k))
        }
        Ty::Array(x) => match (a.as_array(), b.as_array()) {
            (Some(p), Some(q)) => p.len() == q.len() && p.iter().zip(q.iter()).all(|(u, v)| equiv(idl, x, u, v)),
            _ => false,
        },
        Ty::Dict(x) => match (a.as_object(), b.as_object()) {
            (Some(p), Some(q)) => {
                p.len() == q.len()
                    && p.iter().all(|(k, u)| match q.get(k) {
                        Some(v) => match &**x {
                            Ty::Struct(f) if f.is_empty() => u.is_object() && v.is_object(),
                            _ => equiv(idl, x, u, v),
                        },
                        None => false,
                    })
            }
            _ => false,
        },
        Ty::Opt(x) => (a.is_null() && b.is_null()) || (!a.is_null() && !b.is_null() && equiv(idl, x, a, b)),
    }
}

fn value_nontrivial(v: &Value) -> bool {
    match v {
        Value::Array(a) => !a.is_empty(),
        Value::Object(o) => o.iter().any(|(k, x)| FIELD_RUST_KW.contains(&k.as_str()) || FIELD_IDL_KW.contains(&k.as_str()) || value_nontrivial(x) || x.is_string()),
        _ => false,
    }
}

// ------------------------------------------------------------------------------------------------
// driver process

pub struct Driver {
    child: Child,
    stdin: ChildStdin,
    stdout: BufReader<ChildStdout>,
}

impl Driver {
    fn ask(&mut self, req: &Value) -> Result<Value, Fail> {
        writeln!(self.stdin, "{}", req).map_err(|e| Fail::new("HARNESS/driver-write", e.to_string()))?;
        self.stdin.flush().map_err(|e| Fail::new("HARNESS/driver-write", e.to_string()))?;
        let mut line = String::new();
        let n = self.stdout.read_line(&mut line).map_err(|e| Fail::new("HARNESS/driver-read", e.to_string()))?;
        if n == 0 {
            return Err(Fail::new("driver/died", format!("the round-trip driver process died while handling {}", req)));
        }
        serde_json::from_str(&line).map_err(|e| Fail::new("HARNESS/driver-output", format!("{}: {}", e, line)))
    }
}

impl Drop for Driver {
    fn drop(&mut self) {
        let _ = self.child.kill();
        let _ = self.child.wait();
    }
}

fn main_source(mods: &[usize]) -> String {
    let mut s = String::from("use serde_json::{json, Value};\nuse std::io::{BufRead, Write};\nuse vlbatch::rt;\n\nfn main() {\n    let stdin = std::io::stdin();\n    let stdout = std::io::stdout();\n    for line in stdin.lock().lines() {\n        let Ok(line) = line else { break };\n        let Ok(req) = serde_json::from_str::<Value>(&line) else { continue };\n        let module = req[\"module\"].as_u64().unwrap_or(0);\n        let out = std::panic::catch_unwind(|| handle(module, &req)).unwrap_or_else(|_| json!({\"panic\": true}));\n        let mut o = stdout.lock();\n        let _ = writeln!(o, \"{}\", out);\n        let _ = o.flush();\n    }\n}\n\nfn handle(module: u64, req: &Value) -> Value {\n    let svc = match module {\n");
    for i in mods {
        s.push_str(&format!("        {} => vlbatch::drv_m{}::service(),\n", i, i));
    }
    s.push_str("        _ => return json!({\"harness_error\": \"unknown module\"}),\n    };\n    let (conn, wire) = rt::connect(svc);\n    if req[\"op\"] == \"raw\" {\n        use std::io::Write as _;\n        let mut w = rt::W(wire.clone());\n        let _ = w.write_all(req[\"request\"].as_str().unwrap_or(\"\").as_bytes());\n        let _ = w.write_all(&[0]);\n        let _ = w.flush();\n        let g = wire.lock().unwrap();\n        return json!({\"wire_replies\": rt::split(&g.replies), \"handler_error\": g.handler_error});\n    }\n    let sc = rt::Script {\n        args: req[\"args\"].clone(),\n        reply_kind: req[\"reply_kind\"].as_str().unwrap_or(\"\").to_string(),\n        value: req[\"value\"].clone(),\n        continues: req[\"continues\"].as_array().cloned().unwrap_or_default(),\n    };\n    rt::set_script(sc.clone());\n    let method = req[\"method\"].as_str().unwrap_or(\"\");\n    let mode = req[\"mode\"].as_str().unwrap_or(\"call\");\n    let client = match module {\n");
    for i in mods {
        s.push_str(&format!("        {} => vlbatch::drv_m{}::client(conn.clone(), method, mode, &sc),\n", i, i));
    }
    s.push_str("        _ => json!(null),\n    };\n    let first = {\n        let g = wire.lock().unwrap();\n        (rt::split(&g.requests), rt::split(&g.replies), g.handler_error.clone())\n    };\n    let seen = rt::seen();\n    // the same call once more on the same connection: it must be served like the first\n    let again = if first.2.is_none() && req[\"again\"] == json!(true) {\n        rt::set_script(sc.clone());\n        match module {\n");
    for i in mods {
        s.push_str(&format!("            {} => vlbatch::drv_m{}::client(conn.clone(), method, mode, &sc),\n", i, i));
    }
    s.push_str("            _ => json!(null),\n        }\n    } else { json!(null) };\n    struct G { requests: Vec<Value>, replies: Vec<Value>, handler_error: Option<String> }\n    let g = G { requests: first.0, replies: first.1, handler_error: first.2 };\n    json!({\n        \"client\": client,\n        \"client_again\": again,\n        \"wire_requests\": g.requests,\n        \"wire_replies\": g.replies,\n        \"server_calls\": seen.len(),\n        \"server_args\": seen.iter().map(|s| s.0.clone()).collect::<Vec<_>>(),\n        \"server_args_equal\": seen.iter().all(|s| s.1),\n        \"handler_error\": g.handler_error,\n    })\n}\n");
    s
}

pub struct Built {
    pub items: Vec<crate::c09::Item>,
    pub driver: Driver,
    pub batch: Batch,
}

/// Hand-written definitions that are part of every run: shapes the random definitions reach only now
/// and then (an error that carries the local name of a standard error, a map of nullable values, an
/// `object` member, an error without parameters, a method with neither input nor output).
fn fixed_items() -> Vec<crate::c09::Item> {
    let f = |n: &str, t: Ty| (n.to_string(), t);
    let opt = |t: Ty| Ty::Opt(Box::new(t));
    let named = |n: &str| Ty::Named(n.to_string());
    let m = |name: &str, def: Def| Member { name: name.to_string(), docs: vec![], def };
    let idl1 = Idl {
        name: "org.example.fixed-1".into(),
        docs: vec![],
        members: vec![
            m("T", Def::Type(Ty::Struct(vec![f("a", Ty::Int), f("b", opt(Ty::Str)), f("any", Ty::Object), f("tags", Ty::Dict(Box::new(Ty::Struct(vec![]))))]))),
            m("Get", Def::Method(vec![f("name", Ty::Str)], vec![f("t", named("T"))])),
            m("List", Def::Method(vec![f("filter", opt(named("T")))], vec![f("items", Ty::Array(Box::new(named("T")))), f("index", Ty::Dict(Box::new(opt(Ty::Int))))])),
            m("Nothing", Def::Method(vec![], vec![])),
            m("InterfaceNotFound", Def::Error(vec![f("interface", Ty::Str), f("n", Ty::Int)])),
            m("NotFound", Def::Error(vec![f("name", Ty::Str), f("t", opt(named("T")))])),
            m("Busy", Def::Error(vec![])),
        ],
    };
    let idl2 = Idl {
        name: "org.example.fixed2".into(),
        docs: vec![],
        members: vec![
            m("State", Def::Type(Ty::Enum(vec!["on".into(), "off".into(), "type".into()]))),
            m("Set", Def::Method(vec![f("state", named("State")), f("values", Ty::Dict(Box::new(opt(Ty::Float)))), f("extra", opt(Ty::Object))], vec![f("previous", opt(named("State")))])),
            // methods whose snake_case form is a Rust keyword (former known class K4 of the generator)
            m("Type", Def::Method(vec![f("type", Ty::Str)], vec![f("match", Ty::Int)])),
            m("Self", Def::Method(vec![f("state", opt(named("State")))], vec![])),
            m("Do", Def::Method(vec![], vec![f("done", Ty::Bool)])),
            m("InterfaceNotFound", Def::Error(vec![])),
            m("Failed", Def::Error(vec![f("reason", opt(Ty::Str)), f("states", Ty::Array(Box::new(opt(named("State")))))])),
        ],
    };
    [idl1, idl2]
        .into_iter()
        .enumerate()
        .map(|(k, idl)| {
            let text = print_idl(&idl);
            crate::c09::Item { idx: 9000 + k, class: crate::known::known_class(&idl), idl, text, fe: FrontEnd::LibToSource }
        })
        .collect()
}

/// Build the batch crate with the driver for the seed's fixed definition set.
pub fn build(ctx: &mut Ctx, n: usize) -> Option<Built> {
    // draw definitions until `n` of them are outside the known classes
    let mut items = fixed_items();
    let n = n + items.len();
    let mut start = 0;
    while items.len() < n && start < n * 8 {
        for it in gen_items(ctx.seed, "c08", n, start) {
            if it.class.is_none() && items.len() < n {
                items.push(it);
            } else if it.class.is_some() {
                ctx.exclude(&format!("known-class:{}", it.class.unwrap()));
            }
        }
        start += n;
    }
    let mut b = Batch::new("c08").ok()?;
    let mut extra = String::from(RUNTIME);
    for it in items.iter_mut() {
        it.fe = FrontEnd::LibToSource;
        let path = b.idl_path(it.idx);
        let _ = std::fs::write(&path, &it.text);
        let src = match crate::c09::produce(FrontEnd::LibToSource, &it.text, &path) {
            Ok(s) => s,
            Err(f) => {
                ctx.violation(&f.key, &f.what, "c08", json!({"idl": it.text}));
                return None;
            }
        };
        // self-check of the snake_case port against the emitted source
        for m in it.idl.of_kind("method") {
            let f = crate::driver::method_fn(&m.name);
            let plain = f.trim_start_matches("r#").to_string();
            let text = src.clone().unwrap_or_default();
            if ![format!("fn {} (", f), format!("fn {}(", f), format!("fn {} (", plain), format!("fn {}(", plain)].iter().any(|n| text.contains(n.as_str())) {
                ctx.inconclusive(&format!("HARNESS: snake_case port disagrees with the generator for method {}", m.name));
                return None;
            }
        }
        b.add(it.idx, FrontEnd::LibToSource, &it.text, src.as_deref()).ok()?;
        let drv = driver_source(it.idx, &it.idl);
        std::fs::write(b.dir.join("src/gen").join(format!("drv_m{}.rs", it.idx)), drv).ok()?;
        extra.push_str(&format!("#[path = \"gen/drv_m{}.rs\"]\npub mod drv_m{};\n", it.idx, it.idx));
    }
    b.add_lib_text(&extra);
    let mods: Vec<usize> = items.iter().map(|i| i.idx).collect();
    b.write_manifest(Some(&main_source(&mods))).ok()?;
    match b.cargo(true) {
        Err(e) => {
            ctx.inconclusive(&format!("cargo: {}", e));
            None
        }
        Ok((ok, diags, stderr)) => {
            if !ok {
                // an error inside a generated module is the generator's (C09 reports it too); an error
                // inside a driver module means the bindings do not have the shape the IDL prescribes
                let per = by_module(&diags);
                let first = diags.first().map(|d| format!("[{}] {}", d.code, d.message)).unwrap_or_else(|| stderr.lines().rev().take(6).collect::<Vec<_>>().join(" | "));
                let in_generated = diags.iter().any(|d| d.module.is_some());
                let _ = per;
                if in_generated {
                    ctx.violation(
                        "bindings/driver-does-not-compile",
                        &format!("the round-trip driver written against the IDL's shape does not compile against the generated bindings: {}", first),
                        "c08",
                        json!({"first_error": first}),
                    );
                } else {
                    ctx.inconclusive(&format!("the driver crate does not build: {}", first));
                }
                return None;
            }
            let exe = cache_dir().join("gen-target/debug/vldriver");
            let mut child = Command::new(exe).stdin(Stdio::piped()).stdout(Stdio::piped()).stderr(Stdio::null()).spawn().ok()?;
            let stdin = child.stdin.take()?;
            let stdout = BufReader::new(child.stdout.take()?);
            Some(Built { items, driver: Driver { child, stdin, stdout }, batch: b })
        }
    }
}

#[derive(Clone, Debug)]
pub struct Case {
    pub module: usize,
    pub method: String,
    pub mode: String,
    pub args: Value,
    pub reply_kind: String,
    pub value: Value,
    pub continues: Vec<Value>,
}

fn case_json(c: &Case, idl_text: &str) -> Value {
    json!({"idl": idl_text, "module": c.module, "method": c.method, "mode": c.mode, "args": c.args, "reply_kind": c.reply_kind, "value": c.value, "continues": c.continues})
}

pub fn make_case(it: &crate::c09::Item, tape: &[u32]) -> Case {
    let mut t = Tape::new(tape);
    let methods = it.idl.of_kind("method");
    let errors = it.idl.of_kind("error");
    let m = methods[t.pick(methods.len())];
    let Def::Method(inp, out) = &m.def else { unreachable!() };
    let mode = ["call", "more", "oneway", "call"][t.pick(4)].to_string();
    let use_err = !errors.is_empty() && t.chance(1, 3);
    let ncont = if mode == "more" { t.pick(4) } else { 0 };
    let mut vg = ValGen { idl: &it.idl, t: &mut t };
    let args = vg.fields(inp);
    let continues: Vec<Value> = (0..ncont).map(|_| vg.fields(out)).collect();
    let (reply_kind, value) = if use_err {
        let e = errors[vg.t.pick(errors.len())];
        let Def::Error(p) = &e.def else { unreachable!() };
        (format!("error:{}", e.name), vg.fields(p))
    } else {
        ("reply".to_string(), vg.fields(out))
    };
    Case { module: it.idx, method: m.name.clone(), mode, args, reply_kind, value, continues }
}

pub fn check_case(d: &mut Driver, it: &crate::c09::Item, c: &Case) -> Result<(), Fail> {
    let idl = &it.idl;
    let m = idl.members.iter().find(|x| x.name == c.method && x.kind() == "method").ok_or_else(|| Fail::new("HARNESS/no-method", c.method.clone()))?;
    let Def::Method(inp, out) = &m.def else { unreachable!() };
    let obs = d.ask(&json!({"op": "call", "module": c.module, "method": c.method, "mode": c.mode, "args": c.args, "reply_kind": c.reply_kind, "value": c.value, "continues": c.continues, "again": true}))?;
    if obs["panic"] == json!(true) {
        return Err(Fail::new("bindings/panic", "the generated bindings (or the runtime under them) panicked during the round trip".to_string()));
    }
    if let Some(h) = obs["client"]["harness_error"].as_str() {
        return Err(Fail::new("bindings/arguments-rejected-by-generated-type", format!("{} (method {}, args {})", h, c.method, c.args)));
    }
    // (1) request on the wire
    let reqs = obs["wire_requests"].as_array().cloned().unwrap_or_default();
    if reqs.len() != 1 {
        return Err(Fail::new("bindings/request-count", format!("{} requests on the wire for one call", reqs.len())));
    }
    let r = &reqs[0];
    let want_method = format!("{}.{}", idl.name, c.method);
    if r["method"] != want_method.as_str() {
        return Err(Fail::new("bindings/wire-method", format!("request carries method {} instead of {}", r["method"], want_method)));
    }
    let flag = |k: &str| r.get(k) == Some(&json!(true));
    if flag("more") != (c.mode == "more") || flag("oneway") != (c.mode == "oneway") || flag("upgrade") {
        return Err(Fail::new("bindings/wire-flags", format!("mode {} but request is {}", c.mode, r)));
    }
    let wire_params = r.get("parameters").cloned().unwrap_or(json!({}));
    if !equiv(idl, &Ty::Struct(inp.clone()), &wire_params, &c.args) {
        return Err(Fail::new(
            "bindings/wire-request-parameters",
            format!("method {}: parameters on the wire {} are not the arguments {} in the IDL's JSON shape", c.method, wire_params, c.args),
        ));
    }
    // (2) what the server implementation received
    if obs["server_calls"] != json!(1) {
        return Err(Fail::new("bindings/server-not-called-once", format!("method {}: the implementation was called {} times (handler error {})", c.method, obs["server_calls"], obs["handler_error"])));
    }
    if obs["server_args_equal"] != json!(true) {
        return Err(Fail::new(
            "bindings/server-args-differ",
            format!("method {}: the implementation received {} for arguments {}", c.method, obs["server_args"], c.args),
        ));
    }
    // (3) replies on the wire and what the client returned
    let wire_replies = obs["wire_replies"].as_array().cloned().unwrap_or_default();
    let mut want: Vec<(bool, Option<String>, Value)> = vec![];
    if c.mode != "oneway" {
        if c.reply_kind == "reply" && c.mode == "more" {
            for v in &c.continues {
                want.push((true, None, v.clone()));
            }
        }
        if c.reply_kind == "reply" {
            want.push((false, None, c.value.clone()));
        } else {
            want.push((false, Some(format!("{}.{}", idl.name, c.reply_kind.trim_start_matches("error:"))), c.value.clone()));
        }
    }
    if wire_replies.len() != want.len() {
        return Err(Fail::new("bindings/wire-reply-count", format!("method {} mode {}: {} replies on the wire, {} scripted: {:?}", c.method, c.mode, wire_replies.len(), want.len(), wire_replies)));
    }
    for (k, (cont, err, val)) in want.iter().enumerate() {
        let w = &wire_replies[k];
        let is_cont = w.get("continues") == Some(&json!(true));
        let werr = w.get("error").and_then(|e| e.as_str()).map(String::from);
        let ty = match err {
            None => Ty::Struct(out.clone()),
            Some(_) => {
                let en = c.reply_kind.trim_start_matches("error:");
                match idl.members.iter().find(|x| x.name == en && x.kind() == "error").map(|x| &x.def) {
                    Some(Def::Error(p)) => Ty::Struct(p.clone()),
                    _ => Ty::Struct(vec![]),
                }
            }
        };
        let wp = w.get("parameters").cloned().filter(|p| !p.is_null()).unwrap_or(json!({}));
        if is_cont != *cont || werr != *err || !equiv(idl, &ty, &wp, val) {
            return Err(Fail::new(
                if err.is_some() { "bindings/wire-error-reply" } else { "bindings/wire-reply" },
                format!("method {}: reply #{} on the wire is {} but the implementation replied {} (continues={}, error={:?})", c.method, k, w, val, cont, err),
            ));
        }
    }
    if !obs["client_again"].is_null() && obs["client_again"] != obs["client"] {
        return Err(Fail::new(
            "bindings/second-call-on-connection-differs",
            format!("method {} ({}): the same call made again on the same connection returned {} - the first returned {}", c.method, c.mode, obs["client_again"], obs["client"]),
        ));
    }
    let results = obs["client"]["results"].as_array().cloned().unwrap_or_default();
    if c.mode == "oneway" {
        if obs["client"]["oneway_ok"] != json!(true) || !results.is_empty() {
            return Err(Fail::new("bindings/client-oneway", format!("oneway call returned {}", obs["client"])));
        }
        return Ok(());
    }
    if results.len() != want.len() {
        return Err(Fail::new("bindings/client-result-count", format!("client yielded {} results for {} replies", results.len(), want.len())));
    }
    let equal = obs["client"]["equal"].as_array().cloned().unwrap_or_default();
    for (k, (_, err, _)) in want.iter().enumerate() {
        let res = &results[k];
        match err {
            None => {
                if res.get("ok").is_none() {
                    return Err(Fail::new("bindings/client-error-for-reply", format!("method {}: client returned {} for a success reply", c.method, res)));
                }
            }
            Some(_) => {
                let en = c.reply_kind.trim_start_matches("error:");
                if res["error"] != en {
                    return Err(Fail::new("bindings/client-wrong-error-variant", format!("method {}: declared error {} arrived at the client as {}", c.method, en, res)));
                }
            }
        }
        if equal.get(k) != Some(&json!(true)) {
            return Err(Fail::new(
                "bindings/client-value-differs",
                format!("method {}: result #{} at the client is {} but the implementation sent {}", c.method, k, res, want[k].2),
            ));
        }
    }
    Ok(())
}

/// (4) malformed raw requests must be answered with InvalidParameter
pub fn check_invalid(d: &mut Driver, it: &crate::c09::Item, c: &Case) -> Result<usize, Fail> {
    let idl = &it.idl;
    let m = idl.members.iter().find(|x| x.name == c.method && x.kind() == "method").unwrap();
    let Def::Method(inp, _) = &m.def else { unreachable!() };
    let mut n = 0;
    let mut mutants: Vec<(String, Value)> = vec![];
    for (name, ty) in inp {
        if !matches!(ty, Ty::Opt(_)) {
            let mut a = c.args.clone();
            a.as_object_mut().unwrap().remove(name);
            mutants.push((format!("drop-required:{}", name), a));
        }
        // retype to a JSON type the IDL type cannot accept
        let bad: Option<Value> = match resolve(idl, ty) {
            Ty::Bool => Some(json!("x")),
            Ty::Int => Some(json!("x")),
            Ty::Float => Some(json!("x")),
            Ty::Str => Some(json!(5)),
            Ty::Enum(_) => Some(json!(5)),
            Ty::Struct(_) => Some(json!("x")),
            Ty::Array(_) => Some(json!({"a": 1})),
            Ty::Dict(_) => Some(json!([1])),
            Ty::Opt(inner) => match resolve(idl, &inner) {
                Ty::Object => None,
                Ty::Str => Some(json!(5)),
                _ => Some(json!("x")).filter(|_| !matches!(resolve(idl, &inner), Ty::Enum(_))).or(Some(json!(5))),
            },
            Ty::Object => None,
            Ty::Named(_) => None,
        };
        if let Some(b) = bad {
            let mut a = c.args.clone();
            a.as_object_mut().unwrap().insert(name.clone(), b);
            mutants.push((format!("retype:{}", name), a));
        }
    }
    for (what, a) in mutants {
        let req = json!({"method": format!("{}.{}", idl.name, c.method), "parameters": a});
        let obs = d.ask(&json!({"op": "raw", "module": c.module, "request": req.to_string()}))?;
        let replies = obs["wire_replies"].as_array().cloned().unwrap_or_default();
        n += 1;
        let ok = replies.len() == 1 && replies[0]["error"] == "org.varlink.service.InvalidParameter";
        if !ok {
            return Err(Fail::new(
                "bindings/invalid-parameter-not-reported",
                format!("method {} with {} ({}): answered {:?} instead of org.varlink.service.InvalidParameter", c.method, what, req, replies),
            ));
        }
    }
    Ok(n)
}

fn resolve(idl: &Idl, t: &Ty) -> Ty {
    match t {
        Ty::Named(n) => idl
            .members
            .iter()
            .find(|m| &m.name == n)
            .and_then(|m| match &m.def {
                Def::Type(t) => Some(t.clone()),
                _ => None,
            })
            .unwrap_or(Ty::Object),
        other => other.clone(),
    }
}

pub fn run(args: &Args) -> ! {
    let mut ctx = Ctx::new(args, "exploration");
    ctx.rule = RULE.into();
    ctx.assumptions = vec![
        "the driver is emitted from the harness' own IDL model (types, field names, snake_case method names); if it does not compile against the generated module the bindings do not have the shape the IDL prescribes".into(),
        "definitions in the generator's known-finding classes (C09) are excluded, counted in excluded_by_construction".into(),
        "client and server run in one process over a synchronous loop-back; transport behaviour is C16's business".into(),
    ];
    let ndefs = ctx.tier.pick(12, 120);
    let Some(mut built) = build(&mut ctx, ndefs) else {
        if !ctx.failed() && ctx.inconclusive.is_empty() {
            ctx.inconclusive("could not build the driver crate");
        }
        ctx.case(None);
        ctx.finish();
    };
    if let Some(p) = &args.replay {
        let v = load_replay(p);
        let cj = &v["case"];
        ctx.case(None);
        ctx.force_sample(cj.clone());
        // the replay names the definition by text: find it in this seed's set
        if let Some(it) = built.items.iter().find(|i| json!(i.text) == cj["idl"]) {
            let c = Case {
                module: it.idx,
                method: cj["method"].as_str().unwrap_or("").to_string(),
                mode: cj["mode"].as_str().unwrap_or("call").to_string(),
                args: cj["args"].clone(),
                reply_kind: cj["reply_kind"].as_str().unwrap_or("reply").to_string(),
                value: cj["value"].clone(),
                continues: cj["continues"].as_array().cloned().unwrap_or_default(),
            };
            if let Err(f) = check_case(&mut built.driver, it, &c).and_then(|_| check_invalid(&mut built.driver, it, &c).map(|_| ())) {
                ctx.violation(&f.key, &f.what, "c08-replay", cj.clone());
            }
        } else {
            ctx.inconclusive("the replay's definition is not in this seed's definition set (use the seed recorded in the replay file)");
        }
        ctx.finish();
    }
    let per_def = ctx.tier.pick(400, 3_000);
    let items = std::mem::take(&mut built.items);
    let driver = std::cell::RefCell::new(built.driver);
    let mut invalid_total = 0usize;
    for it in &items {
        let inv = std::cell::Cell::new(0usize);
        let r = pt::check(&mut ctx, &format!("c08-{}", it.idx), per_def, prop::collection::vec(any::<u32>(), 0..120), |ctx, tape| {
            let c = make_case(it, tape);
            let nt = value_nontrivial(&c.args) || value_nontrivial(&c.value);
            ctx.case(if nt { Some(hash64(&(it.idx, &c.method, &c.mode, c.args.to_string(), c.value.to_string()))) } else { None });
            ctx.class(&format!("mode:{}", c.mode));
            ctx.class(if c.reply_kind == "reply" { "outcome:reply" } else { "outcome:declared-error" });
            ctx.sample(|| case_json(&c, &it.text));
            let mut d = driver.borrow_mut();
            check_case(&mut d, it, &c)?;
            if ctx.evaluations % 8 == 0 {
                inv.set(inv.get() + check_invalid(&mut d, it, &c)?);
            }
            Ok(())
        });
        invalid_total += inv.get();
        if let Some((tape, f)) = r {
            let c = make_case(it, &tape);
            ctx.violation(&f.key, &f.what, "c08", case_json(&c, &it.text));
        }
        if ctx.violations.len() >= 4 {
            break;
        }
    }
    ctx.section("definitions", json!({"count": items.len(), "cases_per_definition": per_def, "invalid_parameter_requests": invalid_total}));
    if std::env::var_os("VL_KEEP").is_none() {
        built.batch.remove();
    }
    ctx.exhaustive = Some(false);
    ctx.finish()
}
