//! C09 — the generator is total and its output compiles.

use proptest::prelude::*;
use serde_json::{json, Value};
use std::collections::{BTreeMap, BTreeSet};
use std::io::Write;
use std::process::{Command, Stdio};
use vl_model::ctx::{hash64, load_replay, Args, Ctx};
use vl_model::idl::*;
use vl_model::pt::{self, Fail};

use crate::batch::*;
use crate::known::known_class;

pub const RULE: &str = "interface definitions from the grammar-directed generator (resolving type references, finite \
types, distinct sibling names; anonymous structs/enums in every position: method input, output, error parameters, \
typedef fields, under array/map/optional; names from ordinary identifiers, IDL keywords and Rust keywords) pushed \
through every front-end in rotation: library generate() with and without source header, compile(), the \
varlink-rust-generator binary (stdin and file), the build-script helpers cargo_build_many and cargo_build_tosource \
(in the batch crate's build.rs) and the varlink! / varlink_file! macros; the emitted modules are collected in one \
batch crate and `cargo check --message-format=json` must report no error (diagnostics are attributed to modules by \
file name). Definitions that fall into a recorded known-finding class are generated too, but go to a separate \
batch; their diagnostics must have the recorded shape. Rejection half: texts without any definition (empty, blank, comments only), near-miss texts and duplicate definitions \
must make generate()/compile() return Err without output, the binary exit non-zero with a diagnostic and empty \
stdout, a build-script helper exit 1, a macro fail to expand. Histories of build-script helper runs sharing one output directory (rejected / valid / rejected-not-newer): each run succeeds exactly when its definition is valid. Non-trivial: a definition with an anonymous type \
under array/map/optional or a keyword-like name; distinct by definition text.";

pub fn opts() -> GenOpts {
    GenOpts { resolvable: true, ..GenOpts::default() }
}

fn has_anon_under_container(t: &Ty, under: bool) -> bool {
    match t {
        Ty::Struct(f) => under || f.iter().any(|(_, t)| has_anon_under_container(t, false)),
        Ty::Enum(_) => under,
        Ty::Array(x) | Ty::Dict(x) | Ty::Opt(x) => has_anon_under_container(x, true),
        _ => false,
    }
}

pub fn nontrivial(idl: &Idl) -> bool {
    let kw: BTreeSet<&str> = FIELD_IDL_KW.iter().chain(FIELD_RUST_KW.iter()).cloned().collect();
    let tkw: BTreeSet<&str> = TYPE_KW_LIKE.iter().cloned().collect();
    fn names<'a>(t: &'a Ty, out: &mut Vec<&'a str>) {
        match t {
            Ty::Struct(f) => {
                for (n, t) in f {
                    out.push(n);
                    names(t, out);
                }
            }
            Ty::Enum(e) => out.extend(e.iter().map(|s| s.as_str())),
            Ty::Array(x) | Ty::Dict(x) | Ty::Opt(x) => names(x, out),
            _ => {}
        }
    }
    for m in &idl.members {
        if tkw.contains(m.name.as_str()) {
            return true;
        }
        let tys: Vec<Ty> = match &m.def {
            Def::Type(t) => vec![t.clone()],
            Def::Method(i, o) => vec![Ty::Struct(i.clone()), Ty::Struct(o.clone())],
            Def::Error(p) => vec![Ty::Struct(p.clone())],
        };
        for t in &tys {
            let mut ns = vec![];
            names(t, &mut ns);
            if ns.iter().any(|n| kw.contains(n)) {
                return true;
            }
            if let Ty::Struct(f) = t {
                if f.iter().any(|(_, t)| has_anon_under_container(t, false)) {
                    return true;
                }
            }
        }
    }
    false
}

/// Run one front-end that produces source text in this process / via the CLI.
pub fn produce(fe: FrontEnd, idl_text: &str, idl_path: &std::path::Path) -> Result<Option<String>, Fail> {
    let guard = |what: &str, f: &mut dyn FnMut() -> Result<String, String>| -> Result<String, Fail> {
        match std::panic::catch_unwind(std::panic::AssertUnwindSafe(f)) {
            Ok(Ok(s)) => Ok(s),
            Ok(Err(e)) => Err(Fail::new(format!("gen/{}/rejects-valid-definition", what), format!("{} failed on a valid definition: {}", what, e))),
            Err(p) => Err(Fail::new(format!("gen/{}/panic", what), format!("{} panicked: {}", what, pt::panic_text(&p)))),
        }
    };
    match fe {
        FrontEnd::LibNoSource | FrontEnd::LibToSource => {
            let tosource = fe == FrontEnd::LibToSource;
            Ok(Some(guard("generate", &mut || {
                let mut out = vec![];
                varlink_generator::generate(&mut idl_text.as_bytes(), &mut out, tosource).map_err(|e| e.to_string())?;
                Ok(String::from_utf8_lossy(&out).to_string())
            })?))
        }
        FrontEnd::LibCompile => Ok(Some(guard("compile", &mut || varlink_generator::compile(idl_text.to_string()).map(|t| t.to_string()).map_err(|e| e.to_string()))?)),
        FrontEnd::CliStdin | FrontEnd::CliFile => {
            let exe = repo_bin("varlink-rust-generator").ok_or_else(|| Fail::new("HARNESS/no-generator-binary", "VERIF_REPO_BIN/varlink-rust-generator missing".to_string()))?;
            let mut cmd = Command::new(exe);
            if fe == FrontEnd::CliFile {
                cmd.arg(idl_path);
                cmd.stdin(Stdio::null());
            } else {
                cmd.stdin(Stdio::piped());
            }
            cmd.stdout(Stdio::piped()).stderr(Stdio::piped());
            let mut child = cmd.spawn().map_err(|e| Fail::new("HARNESS/spawn-generator", e.to_string()))?;
            if fe == FrontEnd::CliStdin {
                let mut si = child.stdin.take().unwrap();
                let _ = si.write_all(idl_text.as_bytes());
            }
            let out = child.wait_with_output().map_err(|e| Fail::new("HARNESS/wait-generator", e.to_string()))?;
            if !out.status.success() {
                let err = String::from_utf8_lossy(&out.stderr).to_string();
                let key = if err.contains("panicked") { "gen/cli/panic" } else { "gen/cli/rejects-valid-definition" };
                return Err(Fail::new(key, format!("varlink-rust-generator exited with {:?}: {}", out.status.code(), err.lines().take(4).collect::<Vec<_>>().join(" | "))));
            }
            Ok(Some(String::from_utf8_lossy(&out.stdout).to_string()))
        }
        _ => Ok(None),
    }
}

pub struct Item {
    pub idx: usize,
    pub idl: Idl,
    pub text: String,
    pub fe: FrontEnd,
    pub class: Option<&'static str>,
}

pub fn gen_items(seed: u64, salt: &str, n: usize, start: usize) -> Vec<Item> {
    let o = opts();
    let tapes = pt::draw(seed, salt, &prop::collection::vec(any::<u32>(), 0..500), n);
    tapes
        .iter()
        .enumerate()
        .map(|(k, tape)| {
            let mut t = Tape::new(tape);
            // three of four definitions keep anonymous types out of error parameters (known class K2)
            let mut o = o.clone();
            o.plain_error_params = (start + k) % 4 != 0;
            let mut idl = gen_idl(&mut t, &o);
            if (start + k) % 2 == 1 {
                // every other definition starts with a documentation comment (so the text handed to
                // a front-end does not begin with the keyword) and documents its first member
                idl.docs = vec!["# Definition for tests".to_string(), "# (generated)".to_string()];
                // ... and documents its members with texts that mean something to Rust's lexer
                const DOC_TEXTS: [&str; 8] = [
                    "# first member",
                    "# a path C:\\dir\\file and a pattern \\w+\\d",
                    "# ends in a backslash \\",
                    "# \"quoted\" 'single' \\\"escaped\\\"",
                    "# {braces} {} {0} %s $x",
                    "# */ /* // #[attr] #![inner] r#raw",
                    "# \u{e9}\u{4e2d}\u{6587}\u{1F600} and a tab\there",
                    "#",
                ];
                for (j, m) in idl.members.iter_mut().enumerate() {
                    if j == 0 || (start + k + j) % 3 != 0 {
                        m.docs = vec![DOC_TEXTS[if j == 0 && (start + k) % 4 == 1 { 0 } else { (start + k + j) % DOC_TEXTS.len() }].to_string()];
                        if (start + k + j) % 5 == 0 {
                            m.docs.push(DOC_TEXTS[(start + k + 2 * j + 1) % DOC_TEXTS.len()].to_string());
                        }
                    }
                }
            }
            let text = print_idl(&idl);
            let class = known_class(&idl);
            Item { idx: start + k, idl, text, fe: FRONT_ENDS[(start + k) % FRONT_ENDS.len()], class }
        })
        .collect()
}

fn normalise_tokens(s: &str) -> String {
    // the same token stream may be spelled with or without the source header
    let s = s.replace("# ! [doc = \"This file was automatically generated by the varlink rust generator\"] # ! [allow (non_camel_case_types)] # ! [allow (non_snake_case)]", "");
    s.split_whitespace().collect::<Vec<_>>().join(" ")
}

/// Acceptance half. Returns (must-pass modules checked, known-class modules checked).
fn acceptance(ctx: &mut Ctx, n: usize) {
    let items = gen_items(ctx.seed, "c09", n, 0);
    let mut pass = match Batch::new("c09-pass") {
        Ok(b) => b,
        Err(e) => {
            ctx.inconclusive(&format!("cannot create batch dir: {}", e));
            return;
        }
    };
    let mut known: BTreeMap<&'static str, Vec<&Item>> = BTreeMap::new();
    for it in &items {
        if let Some(c) = it.class {
            known.entry(c).or_default().push(it);
            ctx.exclude(&format!("known-class:{}", c));
            continue;
        }
        // every text-producing front-end must agree with the library on this definition
        let path = pass.idl_path(it.idx);
        let _ = std::fs::write(&path, &it.text);
        match produce(it.fe, &it.text, &path) {
            Ok(src) => {
                if let Some(s) = &src {
                    if it.idx % 3 == 0 {
                        // cross-check against a second front-end
                        let other = if it.fe == FrontEnd::LibCompile { FrontEnd::CliStdin } else { FrontEnd::LibCompile };
                        if let Ok(Some(s2)) = produce(other, &it.text, &path) {
                            if normalise_tokens(s) != normalise_tokens(&s2) {
                                ctx.violation(
                                    "gen/front-ends-disagree",
                                    &format!("{:?} and {:?} emit different code for the same definition", it.fe, other),
                                    "c09-idl",
                                    json!({"idl": it.text, "front_ends": [format!("{:?}", it.fe), format!("{:?}", other)]}),
                                );
                            }
                        }
                    }
                }
                if let Err(e) = pass.add(it.idx, it.fe, &it.text, src.as_deref()) {
                    ctx.inconclusive(&format!("batch io: {}", e));
                    return;
                }
            }
            Err(f) => {
                ctx.case(None);
                ctx.violation(&f.key, &f.what, "c09-idl", json!({"idl": it.text, "front_end": format!("{:?}", it.fe)}));
            }
        }
    }
    if let Err(e) = pass.write_manifest(None) {
        ctx.inconclusive(&format!("batch io: {}", e));
        return;
    }
    match pass.cargo(false) {
        Err(e) => ctx.inconclusive(&format!("cannot run cargo: {}", e)),
        Ok((ok, diags, stderr)) => {
            let per = by_module(&diags);
            for (i, fe) in &pass.mods {
                let it = items.iter().find(|x| x.idx == *i).unwrap();
                let errs = per.get(&Some(*i));
                ctx.case(if nontrivial(&it.idl) { Some(hash64(&it.text)) } else { None });
                ctx.class(&format!("front-end:{:?}", fe));
                if *i % 11 == 0 {
                    ctx.force_sample(json!({"idl": it.text, "front_end": format!("{:?}", fe)}));
                }
                if let Some(errs) = errs {
                    let codes: BTreeSet<String> = errs.iter().map(|d| if d.code.is_empty() { "syntax".to_string() } else { d.code.clone() }).collect();
                    ctx.violation(
                        &format!("gen/output-does-not-compile/{}", codes.iter().cloned().collect::<Vec<_>>().join("+")),
                        &format!("code generated by {:?} does not compile: {}", fe, errs.iter().take(3).map(|d| format!("[{}] {}", d.code, d.message)).collect::<Vec<_>>().join(" | ")),
                        "c09-idl",
                        json!({"idl": it.text, "front_end": format!("{:?}", fe)}),
                    );
                }
            }
            if let Some(un) = per.get(&None) {
                ctx.inconclusive(&format!("{} compiler errors could not be attributed to a module, e.g. {}", un.len(), un[0].message));
            }
            if !ok && diags.is_empty() {
                // build script failure etc.
                let tail: String = stderr.lines().rev().take(12).collect::<Vec<_>>().into_iter().rev().collect::<Vec<_>>().join(" | ");
                if stderr.contains("Could not generate rust code") || stderr.contains("panicked") {
                    ctx.violation("gen/build-script-helper-failed", &format!("the build script of the must-pass batch failed: {}", tail), "c09-idl", json!({"stderr": tail}));
                } else {
                    ctx.inconclusive(&format!("cargo check failed without compiler diagnostics: {}", tail));
                }
            }
        }
    }
    ctx.section("must_pass_batch", json!({"modules": pass.mods.len(), "generated": n}));
    if std::env::var_os("VL_KEEP").is_none() {
        pass.remove();
    }
    // known-class definitions: one small batch per class (so a syntax error cannot hide others)
    crate::known::check_known_batches(ctx, &known);
}

fn rejection(ctx: &mut Ctx, n: usize) {
    // invalid texts: near misses of valid definitions and duplicate definitions
    let base = gen_items(ctx.seed, "c09-rej", n, 10_000);
    let exe = repo_bin("varlink-rust-generator");
    let mut count = 0;
    for it in &base {
        let mut bad: Vec<(String, String)> = vec![];
        bad.push(("unbalanced".into(), it.text.replacen(')', "", 1)));
        bad.push(("lowercase-type-name".into(), it.text.replacen("method ", "method x", 1)));
        bad.push(("duplicate-member".into(), {
            let m = &it.idl.members[0];
            format!("{}\n{}\n", it.text, print_member(&Member { docs: vec![], ..m.clone() }))
        }));
        bad.push(("no-interface".into(), it.text.replacen("interface ", "interfac ", 1)));
        // a comment needs its line end: a text cut off inside a trailing comment is not a definition
        bad.push(("cut-off-inside-trailing-comment".into(), format!("{}# cut off here", it.text)));
        bad.push(("cut-off-inside-trailing-comment-crlf".into(), format!("{}# cut off here", it.text.replace('\n', "\r\n"))));
        if count == 0 {
            // texts without any definition at all
            for (k, t) in ["", " ", "\n", "\t \r\n\n", "# only a comment\n", "\n\n# a comment\n\n   \n"].iter().enumerate() {
                bad.push((format!("no-definition-at-all-{}", k), t.to_string()));
            }
        }
        for (why, text) in bad {
            if matches!(recognise(&text), Verdict::Accept(ref a) if a.duplicated_names().is_empty()) {
                continue; // the mutation happened to stay valid
            }
            if matches!(recognise(&text), Verdict::Unspecified(_)) {
                // where the documented grammar is silent the statement's own yardstick decides:
                // "every input the parser rejects"
                let parser_rejects = std::panic::catch_unwind(|| {
                    use std::convert::TryFrom;
                    varlink_parser::IDL::try_from(text.as_str()).is_err()
                })
                .unwrap_or(false);
                if !parser_rejects {
                    continue;
                }
            }
            count += 1;
            ctx.case(Some(hash64(&text)));
            ctx.class(&format!("reject:{}", why));
            // library
            for tosource in [false, true] {
                let mut out = vec![];
                let r = std::panic::catch_unwind(std::panic::AssertUnwindSafe(|| varlink_generator::generate(&mut text.as_bytes(), &mut out, tosource)));
                match r {
                    Err(p) => {
                        ctx.violation("gen/generate/panic-on-invalid", &format!("generate() panicked on an invalid definition: {}", pt::panic_text(&p)), "c09-idl", json!({"idl": text}));
                    }
                    Ok(Ok(())) => {
                        ctx.violation("gen/generate/accepts-invalid", &format!("generate() emitted code for an invalid definition ({})", why), "c09-idl", json!({"idl": text}));
                    }
                    Ok(Err(_)) => {
                        if !out.is_empty() {
                            ctx.violation("gen/generate/output-despite-error", "generate() returned Err but wrote output", "c09-idl", json!({"idl": text}));
                        }
                    }
                }
            }
            let r = std::panic::catch_unwind(|| varlink_generator::compile(text.clone()).map(|_| ()));
            match r {
                Err(p) => {
                    ctx.violation("gen/compile/panic-on-invalid", &format!("compile() panicked: {}", pt::panic_text(&p)), "c09-idl", json!({"idl": text}));
                }
                Ok(Ok(())) => {
                    ctx.violation("gen/compile/accepts-invalid", "compile() accepted an invalid definition", "c09-idl", json!({"idl": text}));
                }
                Ok(Err(_)) => {}
            }
            // binary
            if let Some(exe) = &exe {
                if let Ok(mut child) = Command::new(exe).stdin(Stdio::piped()).stdout(Stdio::piped()).stderr(Stdio::piped()).spawn() {
                    {
                        let mut si = child.stdin.take().unwrap();
                        let _ = si.write_all(text.as_bytes());
                    }
                    if let Ok(out) = child.wait_with_output() {
                        if out.status.success() || !out.stdout.is_empty() || out.stderr.is_empty() {
                            ctx.violation(
                                "gen/cli/invalid-not-rejected-cleanly",
                                &format!("varlink-rust-generator on an invalid definition ({}): exit {:?}, {} bytes on stdout, {} bytes on stderr", why, out.status.code(), out.stdout.len(), out.stderr.len()),
                                "c09-idl",
                                json!({"idl": text}),
                            );
                        }
                    }
                }
            }
        }
    }
    // build-script helper and macros on one invalid definition each (a crate per case)
    let bad_text = "interface org.example.bad\nmethod broken( -> ()\n";
    for fe in [FrontEnd::BuildMany, FrontEnd::MacroInline, FrontEnd::MacroFile] {
        if let Ok(mut b) = Batch::new(&format!("c09-rej-{:?}", fe).to_lowercase()) {
            let _ = b.add(0, fe, bad_text, None);
            let _ = b.write_manifest(None);
            count += 1;
            ctx.case(Some(hash64(&(bad_text, format!("{:?}", fe)))));
            ctx.class(&format!("reject-via:{:?}", fe));
            match b.cargo(false) {
                Ok((ok, _, _)) => {
                    if ok {
                        ctx.violation("gen/helper-accepts-invalid", &format!("{:?} built a crate from an invalid definition", fe), "c09-idl", json!({"idl": bad_text, "front_end": format!("{:?}", fe)}));
                    }
                }
                Err(e) => ctx.inconclusive(&format!("cargo: {}", e)),
            }
            b.remove();
        }
    }
    // histories of build-script runs that share an output directory and a file name: whatever an
    // earlier run left behind, a rejected definition fails and a valid one succeeds
    let good_text = "interface org.example.hist\nmethod Ping(ping: string) -> (pong: string)\n";
    let me = std::env::current_exe().ok();
    for helper in ["cargo_build", "cargo_build_many", "cargo_build_tosource"] {
        for (hname, history) in [
            ("bad,bad,bad", vec![false, false, false]),
            ("good,bad(not newer),bad", vec![true, false, false]),
            ("bad,good,bad(not newer),good", vec![false, true, false, true]),
        ] {
            let Some(me) = &me else { break };
            let scratch = vl_model::sock::Scratch::new("c09h");
            let out_dir = scratch.path.join("out");
            let src_dir = scratch.path.join("src");
            let _ = std::fs::create_dir_all(&out_dir);
            let _ = std::fs::create_dir_all(&src_dir);
            let file = src_dir.join("org.example.hist.varlink");
            count += 1;
            ctx.case(Some(hash64(&(helper, hname))));
            ctx.class("reject-via:build-script-history");
            let stamp = std::time::SystemTime::now() - std::time::Duration::from_secs(3600);
            for (k, good) in history.iter().enumerate() {
                let _ = std::fs::write(&file, if *good { good_text } else { bad_text });
                if !*good {
                    // a replaced file need not be newer than what an earlier run wrote (mv, cp -p, git checkout)
                    if let Ok(f) = std::fs::File::options().write(true).open(&file) {
                        let _ = f.set_modified(stamp);
                    }
                }
                let out = Command::new(me).args(["buildscript-child", helper]).arg(&out_dir).arg(&file).stdin(Stdio::null()).stdout(Stdio::piped()).stderr(Stdio::piped()).output();
                let Ok(out) = out else {
                    ctx.inconclusive("cannot run the build-script child");
                    break;
                };
                let ok = out.status.success();
                if ok != *good {
                    let key = if *good { "gen/helper-rejects-valid-in-history" } else { "gen/helper-accepts-invalid" };
                    ctx.violation(
                        key,
                        &format!("{} in one output directory, history [{}]: run #{} ({} definition) exited with {:?}; stderr: {}", helper, hname, k + 1, if *good { "valid" } else { "rejected" }, out.status.code(), String::from_utf8_lossy(&out.stderr).lines().next().unwrap_or("")),
                        "c09-idl",
                        json!({"idl": bad_text, "front_end": helper, "history": hname}),
                    );
                    break;
                }
                if !*good && out.stderr.is_empty() {
                    ctx.violation("gen/helper-rejects-without-diagnostic", &format!("{} history [{}] run #{}: failed without a diagnostic", helper, hname, k + 1), "c09-idl", json!({"idl": bad_text, "front_end": helper, "history": hname}));
                    break;
                }
            }
        }
    }
    // one cargo_build_many call with several definitions: one rejected definition anywhere in the list
    // makes the call fail
    if let Some(me) = &me {
        for (oname, order) in [("rejected,valid", vec![false, true]), ("valid,rejected", vec![true, false]), ("valid,rejected,valid", vec![true, false, true])] {
            let scratch = vl_model::sock::Scratch::new("c09m");
            let out_dir = scratch.path.join("out");
            let _ = std::fs::create_dir_all(&out_dir);
            let mut files = vec![];
            for (k, good) in order.iter().enumerate() {
                let f = scratch.path.join(format!("org.example.many{}.varlink", k));
                let text = if *good { format!("interface org.example.many{}\nmethod Ping(ping: string) -> (pong: string)\n", k) } else { format!("interface org.example.many{}\nmethod broken( -> ()\n", k) };
                let _ = std::fs::write(&f, text);
                files.push(f);
            }
            count += 1;
            ctx.case(Some(hash64(&("many", oname))));
            ctx.class("reject-via:cargo_build_many(several files)");
            let out = Command::new(me).args(["buildscript-child", "cargo_build_many"]).arg(&out_dir).args(&files).stdin(Stdio::null()).stdout(Stdio::piped()).stderr(Stdio::piped()).output();
            match out {
                Ok(o) => {
                    if o.status.success() {
                        ctx.violation(
                            "gen/helper-accepts-invalid",
                            &format!("cargo_build_many([{}]) exited successfully although one definition is rejected", oname),
                            "c09-idl",
                            json!({"idl": bad_text, "front_end": "cargo_build_many", "files": oname}),
                        );
                    }
                }
                Err(_) => ctx.inconclusive("cannot run the build-script child"),
            }
        }
    }
    ctx.section("rejection_half", json!({"invalid_inputs": count}));
}

pub fn replay(ctx: &mut Ctx, v: &Value) {
    let cj = &v["case"];
    ctx.case(None);
    ctx.force_sample(cj.clone());
    let text = cj["idl"].as_str().unwrap_or("").to_string();
    let fe = FRONT_ENDS.iter().cloned().find(|f| json!(format!("{:?}", f)) == cj["front_end"]).unwrap_or(FrontEnd::LibToSource);
    let Ok(mut b) = Batch::new("c09-replay") else { return };
    let path = b.idl_path(0);
    let _ = std::fs::write(&path, &text);
    match produce(fe, &text, &path) {
        Err(f) => {
            ctx.violation(&f.key, &f.what, "c09-replay", cj.clone());
        }
        Ok(src) => {
            let _ = b.add(0, fe, &text, src.as_deref());
            let _ = b.write_manifest(None);
            if let Ok((_, diags, _)) = b.cargo(false) {
                if !diags.is_empty() {
                    let codes: BTreeSet<String> = diags.iter().map(|d| if d.code.is_empty() { "syntax".to_string() } else { d.code.clone() }).collect();
                    ctx.violation(
                        &format!("gen/output-does-not-compile/{}", codes.iter().cloned().collect::<Vec<_>>().join("+")),
                        &diags.iter().take(3).map(|d| d.message.clone()).collect::<Vec<_>>().join(" | "),
                        "c09-replay",
                        cj.clone(),
                    );
                }
            }
        }
    }
    b.remove();
}

pub fn run(args: &Args) -> ! {
    let mut ctx = Ctx::new(args, "exploration");
    ctx.rule = RULE.into();
    ctx.assumptions = vec![
        "compile checks use the installed rustc only".into(),
        "definitions in a recorded known-finding class are excluded from the must-pass batch by exact predicates on the definition (counts in `excluded_by_construction`) and checked separately against the recorded diagnostic shape".into(),
    ];
    if let Some(p) = &args.replay {
        let v = load_replay(p);
        replay(&mut ctx, &v);
        ctx.finish();
    }
    let n = ctx.tier.pick(90, 1_500);
    acceptance(&mut ctx, n);
    let n = ctx.tier.pick(12, 120);
    rejection(&mut ctx, n);
    ctx.exhaustive = Some(false);
    ctx.finish()
}
