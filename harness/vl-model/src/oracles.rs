//! Oracles shared between the proptest engines and the libFuzzer targets (C06, C11, C12).

use crate::classify::{classify, Class};
use crate::idl::*;
use crate::pt::{self, Fail};
use crate::wire::*;
use serde_json::json;
use std::collections::HashMap;
use std::convert::TryFrom;
use varlink_parser::IDL;

// ---- C06

pub struct InputVerdict {
    pub malformed: Option<&'static str>,
    pub unspecified: bool,
    pub closed_early: bool,
}

/// The oracle for one (possibly mutated) byte stream fed to handle() in one piece.
pub fn check_bytes(
    svc: &varlink::VarlinkService,
    originals: &HashMap<Vec<u8>, (Sym, usize)>,
    bytes: &[u8],
    where_: &str,
) -> Result<InputVerdict, Fail> {
    let run = run_chunks(svc, &[bytes]);
    if let Some(p) = &run.panicked {
        return Err(Fail::new(format!("{}/panic", where_), format!("handle() panicked: {}", p)));
    }
    judge(originals, bytes, &run.out, run.err.is_some(), Some(&run.tail), where_)
}

/// Judge observed reply bytes for an input stream. `closed` = the service ended the connection
/// (in memory: handle() returned Err).
pub fn judge(
    originals: &HashMap<Vec<u8>, (Sym, usize)>,
    bytes: &[u8],
    out: &[u8],
    closed: bool,
    tail: Option<&Vec<u8>>,
    where_: &str,
) -> Result<InputVerdict, Fail> {
    let replies = split_replies(where_, out)?;
    for r in &replies {
        if let Err(e) = reply_shape(r) {
            return Err(Fail::new(format!("{}/malformed-reply", where_), e));
        }
    }
    let mut syms = vec![];
    let mut exps = vec![];
    let mut malformed = None;
    let mut unspecified = false;
    let last_nul = bytes.iter().rposition(|b| *b == 0).map(|p| p + 1).unwrap_or(0);
    let mut start = 0usize;
    while start < last_nul {
        let end = start + bytes[start..].iter().position(|b| *b == 0).unwrap();
        let piece = &bytes[start..end];
        let with_nul = &bytes[start..=end];
        start = end + 1;
        match classify(piece) {
            Class::Malformed(why) => {
                malformed = Some(why);
                break;
            }
            Class::Unspecified(_) => {
                unspecified = true;
                break;
            }
            Class::WellFormed(v) => {
                if let Some((s, i)) = originals.get(with_nul) {
                    syms.push(*s);
                    exps.push(expect(*s, *i));
                } else {
                    let more = v["more"] == json!(true);
                    let oneway = v["oneway"] == json!(true);
                    syms.push(Sym { kind: Kind::Echo, flag: if more { Flag::More } else if oneway { Flag::Oneway } else { Flag::None } });
                    exps.push(Exp { oneway, conts: vec![], any_conts: more, fin: Fin::Any, may_close_instead: true, upgrades: false });
                    if v["method"] == "org.verif.test.Upgrade" {
                        unspecified = true;
                        break;
                    }
                }
            }
        }
    }
    if unspecified {
        // nothing can be aligned past an unspecified piece; the absence of a panic was checked
        return Ok(InputVerdict { malformed: None, unspecified: true, closed_early: closed });
    }
    let end = if closed { End::Closed } else { End::Open };
    let st = check_replies(where_, &syms, &exps, &replies, end)?;
    // C06 is stricter than C01 about an early close: every well-formed message that precedes the
    // malformed one must still be answered, unless the close is explained by one of those
    // messages itself (a kind after which the service closes, or a mutated-but-well-formed piece)
    if st.closed_early && st.unanswered_after_close > 0 {
        let i = syms.len() - st.unanswered_after_close;
        let excused = exps[i].may_close_instead || (i > 0 && (syms[i - 1].closes() || exps[i - 1].may_close_instead)) || exps[..i].iter().any(|e| e.fin == Fin::Any);
        if !excused {
            return Err(Fail::new(
                format!("{}/preceding-message-unanswered", where_),
                format!(
                    "well-formed message #{} ({}) that precedes the faulty one was not answered: {} replies for {} well-formed messages, connection closed",
                    i,
                    syms[i].name(),
                    replies.len(),
                    syms.len()
                ),
            ));
        }
    }
    if let Some(why) = malformed {
        if !closed {
            return Err(Fail::new(
                format!("{}/malformed-accepted", where_),
                format!("a malformed message ({}) did not end the connection: the handler returned Ok after {} replies", why, replies.len()),
            ));
        }
    } else if !closed {
        if let Some(t) = tail {
            if t[..] != bytes[last_nul..] {
                return Err(Fail::new(
                    format!("{}/tail", where_),
                    format!("unprocessed tail is {} bytes, the stream has {} bytes after its last complete message", t.len(), bytes.len() - last_nul),
                ));
            }
        }
    }
    Ok(InputVerdict { malformed, unspecified: false, closed_early: st.closed_early })
}


// ---- C11

#[derive(Debug, PartialEq, Clone, Copy)]
pub enum Outcome {
    BothAccept,
    BothReject,
    Duplicate,
    Unspecified,
}

fn reason_class(msg: &str) -> String {
    let cut = msg.find(|c: char| c == '`' || c.is_ascii_digit()).unwrap_or(msg.len());
    msg[..cut].trim().replace(' ', "-")
}

pub fn parse_guarded(text: &str) -> Result<Result<Parsed, varlink_parser::Error>, String> {
    std::panic::catch_unwind(|| IDL::try_from(text).map(|i| from_parsed(&i))).map_err(|p| pt::panic_text(&p))
}

/// The documentation text attached to a definition is the comment block, not the blanks and line
/// breaks around it: it is empty or runs from the first `#` to the last character of the last comment
/// that is not a blank. Returns the first documentation text that has blanks or line ends at an edge.
pub fn doc_with_loose_edges(text: &str) -> Option<(String, String)> {
    let Ok(Ok(v)) = std::panic::catch_unwind(|| {
        IDL::try_from(text).map(|i| {
            let mut v = vec![("interface".to_string(), i.doc.to_string())];
            v.extend(i.typedefs.iter().map(|(k, t)| (format!("type {}", k), t.doc.to_string())));
            v.extend(i.methods.iter().map(|(k, m)| (format!("method {}", k), m.doc.to_string())));
            v.extend(i.errors.iter().map(|(k, e)| (format!("error {}", k), e.doc.to_string())));
            v
        })
    }) else {
        return None;
    };
    let edge = |c: char| is_blank(c) || is_eol_char(c);
    v.into_iter().find(|(_, d)| !d.is_empty() && (!d.starts_with('#') || d.chars().last().map(edge).unwrap_or(false)))
}

/// Differential oracle. `intended` (when the text was generated from a known AST) is compared too.
pub fn differential(text: &str, intended: Option<&Idl>) -> Result<Outcome, Fail> {
    let verdict = recognise(text);
    let parsed = parse_guarded(text).map_err(|p| Fail::new("parser/panic", format!("IDL::try_from panicked: {}", p)))?;
    if let Some(want) = intended {
        // self-check of the harness: the recogniser must agree with the generator
        match &verdict {
            Verdict::Accept(a) if a == want => {}
            other => {
                return Err(Fail::new(
                    "HARNESS/recogniser-disagrees-with-generator",
                    format!("reference recogniser says {:?} for a text generated from {:?}", other, want),
                ))
            }
        }
    }
    match (verdict, parsed) {
        (Verdict::Unspecified(_), _) => Ok(Outcome::Unspecified),
        (Verdict::Accept(ast), Ok(got)) => {
            let dup = ast.duplicated_names();
            if !dup.is_empty() {
                return Err(Fail::new(
                    "parser/duplicate-accepted",
                    format!("names {:?} are defined more than once but the text was accepted", dup),
                ));
            }
            if let Some(d) = diff_parsed(&split_kinds(&ast), &got, true) {
                let class = if d.contains("documentation") {
                    "documentation"
                } else if d.contains("order of appearance") {
                    "member-order"
                } else if d.contains("interface name") {
                    "interface-name"
                } else {
                    "definition"
                };
                return Err(Fail::new(format!("parser/structure-differs/{}", class), d));
            }
            if let Some((what, doc)) = doc_with_loose_edges(text) {
                return Err(Fail::new(
                    "parser/structure-differs/documentation-edges",
                    format!("documentation of {} is {:?}: it does not run from the first `#` to the last non-blank character of the comment block", what, doc),
                ));
            }
            Ok(Outcome::BothAccept)
        }
        (Verdict::Accept(ast), Err(varlink_parser::Error::Idl(msg))) => {
            let dup = ast.duplicated_names();
            if dup.is_empty() {
                return Err(Fail::new(
                    "parser/valid-text-reported-as-duplicate",
                    format!("no name is defined twice but the parser reports: {}", msg),
                ));
            }
            for d in &dup {
                if !msg.contains(&format!("`{}`", d)) {
                    return Err(Fail::new(
                        "parser/duplicate-not-named",
                        format!("`{}` is defined more than once but the error does not name it: {}", d, msg),
                    ));
                }
            }
            Ok(Outcome::Duplicate)
        }
        (Verdict::Accept(_), Err(varlink_parser::Error::Parse { line, column })) => Err(Fail::new(
            "parser/rejects-grammatical",
            format!("text follows the grammar but the parser reports a syntax error at column {} of line {:?}", column, line),
        )),
        (Verdict::Reject(why), Ok(_)) | (Verdict::Reject(why), Err(varlink_parser::Error::Idl(_))) => Err(Fail::new(
            format!("parser/accepts-ungrammatical/{}", reason_class(&why)),
            format!("text violates the grammar ({}) but the parser accepted it", why),
        )),
        (Verdict::Reject(_), Err(varlink_parser::Error::Parse { .. })) => Ok(Outcome::BothReject),
    }
}


// ---- C12

pub fn check_total(text: &str) -> Result<&'static str, Fail> {
    let res = std::panic::catch_unwind(|| IDL::try_from(text).map(|_| ()));
    let res = match res {
        Ok(r) => r,
        Err(p) => {
            let msg = pt::panic_text(&p);
            let class = if msg.contains("unwrap") || msg.contains("None") { "unwrap-on-none" } else { "other" };
            return Err(Fail::new(format!("parse/panic/{}", class), format!("IDL::try_from panicked: {}", msg)));
        }
    };
    match res {
        Ok(()) => Ok("accepted"),
        Err(e) => {
            let rendered = std::panic::catch_unwind(std::panic::AssertUnwindSafe(|| e.to_string()))
                .map_err(|p| Fail::new("parse/display-panic", format!("rendering the error panicked: {}", pt::panic_text(&p))))?;
            match &e {
                varlink_parser::Error::Parse { line, column } => {
                    if !text.split('\n').any(|l| l == line) {
                        return Err(Fail::new(
                            "parse/line-not-in-input",
                            format!("reported line {:?} is not a line of the input", line),
                        ));
                    }
                    let n = line.chars().count();
                    if *column < 1 || *column > n + 1 {
                        return Err(Fail::new(
                            "parse/column-out-of-line",
                            format!("reported column {} is outside the reported line ({} characters): {:?}", column, n, line),
                        ));
                    }
                    if !rendered.contains(line.as_str()) {
                        return Err(Fail::new("parse/rendering-lacks-line", format!("rendered error {:?} does not show the line {:?}", rendered, line)));
                    }
                    Ok("syntax-error")
                }
                varlink_parser::Error::Idl(_) => Ok("definition-error"),
            }
        }
    }
}


// ---------------------------------------------------------------------------------------------
// C10: formatting

use crate::ctx::hash64;
use std::collections::HashSet;
use varlink_parser::{Format, FormatColored};

/// The colored renderings are compared with escape sequences on, whatever the terminal is.
pub fn force_color() {
    colored::control::set_override(true);
}

pub fn strip_ansi(s: &str) -> String {
    let mut out = String::with_capacity(s.len());
    let cs: Vec<char> = s.chars().collect();
    let mut i = 0;
    while i < cs.len() {
        if cs[i] == '\u{1b}' && cs.get(i + 1) == Some(&'[') {
            i += 2;
            while i < cs.len() && !(cs[i].is_ascii_alphabetic()) {
                i += 1;
            }
            i += 1;
        } else {
            out.push(cs[i]);
            i += 1;
        }
    }
    out
}

fn fmt_guard<T>(what: &str, w: usize, f: impl FnOnce() -> T + std::panic::UnwindSafe) -> Result<T, Fail> {
    std::panic::catch_unwind(f).map_err(|p| Fail::new(format!("format/panic/{}", what), format!("{} panicked at width {}: {}", what, w, pt::panic_text(&p))))
}

/// Returns the distinct layouts seen.
/// C10 oracle for one definition text over the given widths.
pub fn check_format(text: &str, intended: Option<&Idl>, ws: &[usize]) -> Result<HashSet<u64>, Fail> {
    let a = match IDL::try_from(text) {
        Ok(a) => a,
        Err(e) => {
            return Err(Fail::new("HARNESS/format-input-rejected", format!("{}", e)));
        }
    };
    let pa = from_parsed(&a);
    if let Some(want) = intended {
        if let Some(d) = diff_parsed(&split_kinds(want), &pa, true) {
            // the parser did not read the original as written (C11's subject). One consequence is
            // visible without trusting the parser: the order in which the formatted text declares
            // the members of each kind, read off the text itself.
            let want = split_kinds(want);
            let text = fmt_guard("get_multiline", usize::MAX, std::panic::AssertUnwindSafe(|| a.get_multiline(0, usize::MAX)))?;
            for (kw, members) in [("type", &want.types), ("method", &want.methods), ("error", &want.errors)] {
                let printed: Vec<&str> = text
                    .lines()
                    .filter_map(|l| l.strip_prefix(kw).and_then(|r| r.strip_prefix(' ')))
                    .map(|r| r.split(|c: char| !(c.is_ascii_alphanumeric() || c == '_')).next().unwrap_or(""))
                    .collect();
                let declared: Vec<&str> = members.iter().map(|m| m.name.as_str()).collect();
                if printed != declared && printed.len() == declared.len() {
                    return Err(Fail::new(
                        "format/definition-changed/member-order",
                        format!("the original declares its {} members in the order {:?}, the formatted text in the order {:?}", kw, declared, printed),
                    ));
                }
            }
            return Err(Fail::new("HARNESS/format-input-misparsed", d));
        }
    }
    let mut layouts = HashSet::new();
    // the renderings are independent of each other and of what the thread rendered before: for every
    // other definition the colored rendering of a width is taken before the plain one, and Display last
    let colored_first = hash64(&text) % 2 == 0;
    let disp_first = if colored_first { None } else { Some(fmt_guard("to_string", 80, std::panic::AssertUnwindSafe(|| a.to_string()))?) };
    for &w in ws {
        let c_early = if colored_first { Some(fmt_guard("get_multiline_colored", w, std::panic::AssertUnwindSafe(|| a.get_multiline_colored(0, w)))?) } else { None };
        let t1 = fmt_guard("get_multiline", w, std::panic::AssertUnwindSafe(|| a.get_multiline(0, w)))?;
        layouts.insert(hash64(&t1));
        let b = match IDL::try_from(t1.as_str()) {
            Ok(b) => b,
            Err(e) => {
                return Err(Fail::new(
                    "format/output-does-not-parse",
                    format!("width {}: the formatted text is rejected by the parser ({}) -- text: {:?}", w, e.to_string().lines().next().unwrap_or(""), t1),
                ));
            }
        };
        let pb = from_parsed(&b);
        if let Some(d) = diff_parsed(&pa, &pb, true) {
            let class = if d.contains("documentation") { "documentation" } else if d.contains("order of appearance") { "member-order" } else if d.contains("interface name") { "interface-name" } else { "definition" };
            return Err(Fail::new(format!("format/definition-changed/{}", class), format!("width {}: {}", w, d)));
        }
        // the documentation blocks as the parser hands them out, character for character
        let raw = |i: &IDL| -> Vec<(String, String)> {
            let mut v = vec![("interface".to_string(), i.doc.to_string())];
            v.extend(i.typedefs.iter().map(|(k, t)| (format!("type {}", k), t.doc.to_string())));
            v.extend(i.methods.iter().map(|(k, m)| (format!("method {}", k), m.doc.to_string())));
            v.extend(i.errors.iter().map(|(k, e)| (format!("error {}", k), e.doc.to_string())));
            v
        };
        for ((what, da), (_, db)) in raw(&a).into_iter().zip(raw(&b)) {
            if da != db {
                return Err(Fail::new("format/definition-changed/documentation-text", format!("width {}: documentation of {} is {:?} in the original and {:?} after formatting", w, what, da, db)));
            }
        }
        let t2 = fmt_guard("get_multiline", w, std::panic::AssertUnwindSafe(|| b.get_multiline(0, w)))?;
        if t2 != t1 {
            return Err(Fail::new(
                "format/not-idempotent",
                format!("width {}: formatting the formatted text changes it: {:?} -> {:?}", w, t1, t2),
            ));
        }
        let c = match c_early {
            Some(c) => c,
            None => fmt_guard("get_multiline_colored", w, std::panic::AssertUnwindSafe(|| a.get_multiline_colored(0, w)))?,
        };
        let stripped = strip_ansi(&c);
        if stripped != t1 {
            let at = stripped.chars().zip(t1.chars()).position(|(x, y)| x != y).unwrap_or(stripped.len().min(t1.len()));
            return Err(Fail::new(
                "format/colored-differs-from-plain",
                format!("width {}: colored rendering without escape sequences differs from the plain one at char {}: {:?} vs {:?}", w, at, stripped, t1),
            ));
        }
        if c == t1 {
            return Err(Fail::new("format/colored-has-no-color", format!("width {}: colored rendering contains no escape sequence", w)));
        }
        let disp = match &disp_first {
            Some(d) => d.clone(),
            None if w == 80 => fmt_guard("to_string", 80, std::panic::AssertUnwindSafe(|| a.to_string()))?,
            None => String::new(),
        };
        if w == 80 && disp != t1 {
            return Err(Fail::new("format/display-differs", "Display differs from get_multiline(0, 80)".to_string()));
        }
    }
    Ok(layouts)
}

