//! IDL model: own AST, canonical printer, conversion from the parser's public structures,
//! choice-tape driven generator, trivia decorator and a hand-written reference recogniser.

use std::collections::BTreeSet;

#[derive(Clone, Debug, PartialEq, Eq, Hash)]
pub enum Ty {
    Bool,
    Int,
    Float,
    Str,
    Object,
    Named(String),
    Struct(Vec<(String, Ty)>),
    Enum(Vec<String>),
    Array(Box<Ty>),
    Dict(Box<Ty>),
    Opt(Box<Ty>),
}

pub type Fields = Vec<(String, Ty)>;

#[derive(Clone, Debug, PartialEq, Eq, Hash)]
pub enum Def {
    /// Struct or Enum
    Type(Ty),
    Method(Fields, Fields),
    Error(Fields),
}

#[derive(Clone, Debug, PartialEq, Eq, Hash)]
pub struct Member {
    pub name: String,
    /// documentation comments attached to the member (each `#...` without its line end), in order
    pub docs: Vec<String>,
    pub def: Def,
}

impl Member {
    pub fn kind(&self) -> &'static str {
        match self.def {
            Def::Type(_) => "type",
            Def::Method(..) => "method",
            Def::Error(_) => "error",
        }
    }
}

#[derive(Clone, Debug, PartialEq, Eq, Hash)]
pub struct Idl {
    pub name: String,
    pub docs: Vec<String>,
    pub members: Vec<Member>,
}

impl Idl {
    pub fn of_kind(&self, kind: &str) -> Vec<&Member> {
        self.members.iter().filter(|m| m.kind() == kind).collect()
    }
    /// names defined more than once across all members
    pub fn duplicated_names(&self) -> BTreeSet<String> {
        let mut seen = BTreeSet::new();
        let mut dup = BTreeSet::new();
        for m in &self.members {
            if !seen.insert(m.name.clone()) {
                dup.insert(m.name.clone());
            }
        }
        dup
    }
}

// ------------------------------------------------------------------------------------------------
// canonical printer

pub fn print_ty(t: &Ty) -> String {
    match t {
        Ty::Bool => "bool".into(),
        Ty::Int => "int".into(),
        Ty::Float => "float".into(),
        Ty::Str => "string".into(),
        Ty::Object => "object".into(),
        Ty::Named(n) => n.clone(),
        Ty::Struct(f) => print_fields(f),
        Ty::Enum(e) => format!("({})", e.join(", ")),
        Ty::Array(t) => format!("[]{}", print_ty(t)),
        Ty::Dict(t) => format!("[string]{}", print_ty(t)),
        Ty::Opt(t) => format!("?{}", print_ty(t)),
    }
}

pub fn print_fields(f: &Fields) -> String {
    format!(
        "({})",
        f.iter().map(|(n, t)| format!("{}: {}", n, print_ty(t))).collect::<Vec<_>>().join(", ")
    )
}

pub fn print_member(m: &Member) -> String {
    let mut s = String::new();
    for d in &m.docs {
        s.push_str(d);
        s.push('\n');
    }
    match &m.def {
        Def::Type(t) => s.push_str(&format!("type {} {}", m.name, print_ty(t))),
        Def::Method(i, o) => s.push_str(&format!("method {}{} -> {}", m.name, print_fields(i), print_fields(o))),
        Def::Error(p) => s.push_str(&format!("error {} {}", m.name, print_fields(p))),
    }
    s
}

/// Canonical text (one member per line, LF line ends, single blanks).
pub fn print_idl(i: &Idl) -> String {
    let mut s = String::new();
    for d in &i.docs {
        s.push_str(d);
        s.push('\n');
    }
    s.push_str(&format!("interface {}\n", i.name));
    for m in &i.members {
        s.push('\n');
        s.push_str(&print_member(m));
        s.push('\n');
    }
    s
}

// ------------------------------------------------------------------------------------------------
// conversion from the parser's public AST

pub const BLANKS: [char; 20] = [
    ' ', '\t', '\u{00A0}', '\u{FEFF}', '\u{1680}', '\u{180E}', '\u{2000}', '\u{2001}', '\u{2002}', '\u{2003}',
    '\u{2004}', '\u{2005}', '\u{2006}', '\u{2007}', '\u{2008}', '\u{2009}', '\u{200A}', '\u{202F}', '\u{205F}',
    '\u{3000}',
];

pub fn is_blank(c: char) -> bool {
    BLANKS.contains(&c)
}

pub fn is_eol_char(c: char) -> bool {
    matches!(c, '\n' | '\r' | '\u{2028}' | '\u{2029}')
}

/// The documentation comments contained in a raw doc text: every line that, after trimming
/// blanks, starts with `#`.
pub fn doc_comments(doc: &str) -> Vec<String> {
    doc.split(is_eol_char)
        .map(|l| l.trim_matches(is_blank))
        .filter(|l| l.starts_with('#'))
        .map(|l| l.to_string())
        .collect()
}

fn conv_vtype(t: &varlink_parser::VType) -> Ty {
    use varlink_parser::VType as V;
    match t {
        V::Bool => Ty::Bool,
        V::Int => Ty::Int,
        V::Float => Ty::Float,
        V::String => Ty::Str,
        V::Object => Ty::Object,
        V::Typename(n) => Ty::Named(n.to_string()),
        V::Struct(s) => Ty::Struct(conv_struct(s)),
        V::Enum(e) => Ty::Enum(e.elts.iter().map(|x| x.to_string()).collect()),
    }
}

fn conv_ext(t: &varlink_parser::VTypeExt) -> Ty {
    use varlink_parser::VTypeExt as E;
    match t {
        E::Plain(v) => conv_vtype(v),
        E::Array(v) => Ty::Array(Box::new(conv_ext(v))),
        E::Dict(v) => Ty::Dict(Box::new(conv_ext(v))),
        E::Option(v) => Ty::Opt(Box::new(conv_ext(v))),
    }
}

pub fn conv_struct(s: &varlink_parser::VStruct) -> Fields {
    s.elts.iter().map(|a| (a.name.to_string(), conv_ext(&a.vtype))).collect()
}

/// The parser's result, per kind in the order its `*_keys` record.
#[derive(Clone, Debug, PartialEq)]
pub struct Parsed {
    pub name: String,
    pub docs: Vec<String>,
    pub types: Vec<Member>,
    pub methods: Vec<Member>,
    pub errors: Vec<Member>,
}

pub fn from_parsed(p: &varlink_parser::IDL) -> Parsed {
    let types = p
        .typedef_keys
        .iter()
        .filter_map(|k| p.typedefs.get(k))
        .map(|t| Member {
            name: t.name.to_string(),
            docs: doc_comments(t.doc),
            def: Def::Type(match &t.elt {
                varlink_parser::VStructOrEnum::VStruct(s) => Ty::Struct(conv_struct(s)),
                varlink_parser::VStructOrEnum::VEnum(e) => Ty::Enum(e.elts.iter().map(|x| x.to_string()).collect()),
            }),
        })
        .collect();
    let methods = p
        .method_keys
        .iter()
        .filter_map(|k| p.methods.get(k))
        .map(|m| Member {
            name: m.name.to_string(),
            docs: doc_comments(m.doc),
            def: Def::Method(conv_struct(&m.input), conv_struct(&m.output)),
        })
        .collect();
    let errors = p
        .error_keys
        .iter()
        .filter_map(|k| p.errors.get(k))
        .map(|e| Member { name: e.name.to_string(), docs: doc_comments(e.doc), def: Def::Error(conv_struct(&e.parm)) })
        .collect();
    Parsed { name: p.name.to_string(), docs: doc_comments(p.doc), types, methods, errors }
}

pub fn split_kinds(i: &Idl) -> Parsed {
    Parsed {
        name: i.name.clone(),
        docs: i.docs.clone(),
        types: i.of_kind("type").into_iter().cloned().collect(),
        methods: i.of_kind("method").into_iter().cloned().collect(),
        errors: i.of_kind("error").into_iter().cloned().collect(),
    }
}

/// First difference between what was intended and what the parser produced.
pub fn diff_parsed(want: &Parsed, got: &Parsed, with_docs: bool) -> Option<String> {
    if want.name != got.name {
        return Some(format!("interface name `{}` parsed as `{}`", want.name, got.name));
    }
    if with_docs && want.docs != got.docs {
        return Some(format!("interface documentation {:?} parsed as {:?}", want.docs, got.docs));
    }
    for (kind, w, g) in [("type", &want.types, &got.types), ("method", &want.methods, &got.methods), ("error", &want.errors, &got.errors)] {
        let wn: Vec<&str> = w.iter().map(|m| m.name.as_str()).collect();
        let gn: Vec<&str> = g.iter().map(|m| m.name.as_str()).collect();
        if wn != gn {
            return Some(format!("{} members in order of appearance {:?} parsed as {:?}", kind, wn, gn));
        }
        for (a, b) in w.iter().zip(g.iter()) {
            if a.def != b.def {
                return Some(format!("{} `{}`: definition `{}` parsed as `{}`", kind, a.name, print_member(&Member { docs: vec![], ..a.clone() }), print_member(&Member { docs: vec![], ..b.clone() })));
            }
            if with_docs && a.docs != b.docs {
                return Some(format!("{} `{}`: documentation {:?} parsed as {:?}", kind, a.name, a.docs, b.docs));
            }
        }
    }
    None
}

// ------------------------------------------------------------------------------------------------
// choice tape

/// A sequence of generated choices; smaller numbers select simpler alternatives, an exhausted
/// tape selects the simplest, so that shrinking the tape shrinks the generated structure.
pub struct Tape<'a> {
    data: &'a [u32],
    pos: usize,
}

impl<'a> Tape<'a> {
    pub fn new(data: &'a [u32]) -> Tape<'a> {
        Tape { data, pos: 0 }
    }
    pub fn next(&mut self) -> u32 {
        let v = self.data.get(self.pos).cloned().unwrap_or(0);
        self.pos += 1;
        v
    }
    /// uniform-ish choice in 0..n, monotone in the tape value
    pub fn pick(&mut self, n: usize) -> usize {
        if n <= 1 {
            return 0;
        }
        ((self.next() as u64 * n as u64) >> 32) as usize
    }
    pub fn chance(&mut self, num: u32, den: u32) -> bool {
        // true for the top num/den of the range, so that 0 (exhausted) means "no"
        let v = self.next() as u64;
        v * den as u64 >= ((den - num) as u64) << 32
    }
    pub fn used(&self) -> usize {
        self.pos
    }
}

// ------------------------------------------------------------------------------------------------
// generator

pub const FIELD_ORDINARY: [&str; 14] = ["a", "b", "c", "client_id", "fooBar", "a_b", "x1", "value", "name", "count", "id", "data", "items", "B"];
pub const FIELD_IDL_KW: [&str; 9] = ["type", "method", "error", "interface", "bool", "int", "float", "string", "object"];
pub const FIELD_RUST_KW: [&str; 30] = [
    "fn", "match", "struct", "async", "dyn", "try", "loop", "impl", "ref", "mod", "use", "pub", "let", "mut", "move", "where",
    "while", "for", "in", "if", "else", "enum", "const", "static", "trait", "unsafe", "as", "return", "true", "await",
];
/// names that cannot be raw identifiers in Rust (known class K1 of the generator)
pub const FIELD_RUST_NONRAW: [&str; 4] = ["self", "Self", "super", "crate"];
pub const TYPE_ORDINARY: [&str; 12] = ["Foo", "Bar", "NetDev", "T", "T1", "State", "Info", "MyType", "Item", "Config", "A", "Z9"];
pub const TYPE_KW_LIKE: [&str; 14] = ["Type", "Method", "Interface", "Bool", "Int", "Float", "Object", "Fn", "Match", "Struct", "Async", "Dyn", "Try", "Enum"];
pub const METHOD_ORDINARY: [&str; 12] = ["Ping", "GetInfo", "Start", "Stop", "TestMore", "List", "Get", "Set", "Monitor", "Run", "Q", "DoIt2"];
/// method names whose snake_case form is a Rust keyword (strict, reserved, or one that cannot be a raw
/// identifier): the generator's former known class K4, repaired in /repo
pub const METHOD_KW_LIKE: [&str; 30] = [
    "Type", "Match", "Fn", "Do", "Loop", "Move", "Self", "Super", "Crate", "Async", "Try", "Yield", "Box", "Ref", "Use", "Mod", "Impl", "Where", "In",
    "As", "If", "For", "Let", "Static", "Struct", "Return", "True", "Await", "Abstract", "Override",
];
/// includes `InterfaceNotFound`: an interface may declare its own error with the local name of a
/// standard one (`org.example.InterfaceNotFound` is not `org.varlink.service.InterfaceNotFound`). The
/// other three standard names fall into the generator's known class K8 (`reply_method_not_found` ...
/// clash with `CallTrait`) and stay out of the pool like `Struct`.
pub const ERROR_ORDINARY: [&str; 9] = ["NotFound", "Failed", "Busy", "InvalidState", "E", "ErrorFoo", "PermissionDenied", "Timeout2", "InterfaceNotFound"];
pub const IFACE_ELEMS: [&str; 12] = ["org", "example", "a", "b2", "x-y", "A", "Test", "co9", "b--1", "net", "io", "Z"];
pub const IFACE_ELEMS_LATER: [&str; 4] = ["0ex", "21", "1", "0"];

#[derive(Clone, Debug)]
pub struct GenOpts {
    /// type references resolve to declared typedefs and all types are finitely sized
    pub resolvable: bool,
    pub max_depth: usize,
    pub idl_keywords: bool,
    pub rust_keywords: bool,
    pub max_types: usize,
    pub max_methods: usize,
    pub max_errors: usize,
    pub max_fields: usize,
    /// error parameters use no anonymous struct / enum types (named, basic and container types only)
    pub plain_error_params: bool,
    /// one definition in 24 has 32..61 members (sorting / grouping code paths that only differ for long lists)
    pub big: bool,
}

impl Default for GenOpts {
    fn default() -> Self {
        GenOpts { resolvable: false, max_depth: 3, idl_keywords: true, rust_keywords: true, max_types: 4, max_methods: 4, max_errors: 3, max_fields: 4, plain_error_params: false, big: false }
    }
}

fn field_name(t: &mut Tape, o: &GenOpts) -> String {
    let pool = t.pick(10);
    if pool >= 8 && o.rust_keywords {
        FIELD_RUST_KW[t.pick(FIELD_RUST_KW.len())].to_string()
    } else if pool >= 6 && o.idl_keywords {
        FIELD_IDL_KW[t.pick(FIELD_IDL_KW.len())].to_string()
    } else {
        FIELD_ORDINARY[t.pick(FIELD_ORDINARY.len())].to_string()
    }
}

fn distinct(base: String, used: &mut BTreeSet<String>) -> String {
    if used.insert(base.clone()) {
        return base;
    }
    for i in 2.. {
        let n = format!("{}{}", base, i);
        if used.insert(n.clone()) {
            return n;
        }
    }
    unreachable!()
}

fn gen_fields(t: &mut Tape, o: &GenOpts, depth: usize, avail: &[String], later_ok: &[String]) -> Fields {
    let n = t.pick(o.max_fields + 1);
    let mut used = BTreeSet::new();
    (0..n)
        .map(|_| {
            let name = distinct(field_name(t, o), &mut used);
            (name, gen_ty(t, o, depth, avail, later_ok, false))
        })
        .collect()
}

/// `avail`: typedef names that may be referenced directly; `later_ok`: names that may be
/// referenced only behind an array / map (finite size). `behind`: we are behind one.
fn gen_ty(t: &mut Tape, o: &GenOpts, depth: usize, avail: &[String], later_ok: &[String], behind: bool) -> Ty {
    let leaf = |t: &mut Tape| -> Ty {
        match t.pick(7) {
            0 => Ty::Str,
            1 => Ty::Int,
            2 => Ty::Bool,
            3 => Ty::Float,
            4 => Ty::Object,
            _ => {
                let names: Vec<&String> = if behind { avail.iter().chain(later_ok.iter()).collect() } else { avail.iter().collect() };
                if o.resolvable {
                    if names.is_empty() {
                        Ty::Int
                    } else {
                        Ty::Named(names[t.pick(names.len())].clone())
                    }
                } else if t.chance(1, 2) && !names.is_empty() {
                    Ty::Named(names[t.pick(names.len())].clone())
                } else {
                    Ty::Named(TYPE_ORDINARY[t.pick(TYPE_ORDINARY.len())].to_string())
                }
            }
        }
    };
    if depth == 0 {
        return leaf(t);
    }
    match t.pick(12) {
        0..=4 => leaf(t),
        5 => Ty::Array(Box::new(gen_ty(t, o, depth - 1, avail, later_ok, true))),
        6 => Ty::Dict(Box::new(gen_ty(t, o, depth - 1, avail, later_ok, true))),
        7 => {
            // `?` is never directly nested
            let inner = gen_ty(t, o, depth - 1, avail, later_ok, behind);
            match inner {
                Ty::Opt(_) => inner,
                x => Ty::Opt(Box::new(x)),
            }
        }
        8 => Ty::Dict(Box::new(Ty::Struct(vec![]))), // string set
        9 => {
            let n = 1 + t.pick(3);
            let mut used = BTreeSet::new();
            Ty::Enum((0..n).map(|_| distinct(field_name(t, o), &mut used)).collect())
        }
        _ => Ty::Struct(gen_fields(t, o, depth - 1, avail, later_ok)),
    }
}

/// Replace anonymous struct / enum types by `string` (string sets stay).
pub fn strip_anon(t: &Ty) -> Ty {
    match t {
        Ty::Struct(_) | Ty::Enum(_) => Ty::Str,
        Ty::Array(x) => Ty::Array(Box::new(strip_anon(x))),
        Ty::Dict(x) => match &**x {
            Ty::Struct(f) if f.is_empty() => t.clone(),
            _ => Ty::Dict(Box::new(strip_anon(x))),
        },
        Ty::Opt(x) => Ty::Opt(Box::new(strip_anon(x))),
        other => other.clone(),
    }
}

pub fn gen_iface_name(t: &mut Tape) -> String {
    let n = 2 + t.pick(3);
    let mut parts = vec![];
    for i in 0..n {
        if i > 0 && t.chance(1, 8) {
            parts.push(IFACE_ELEMS_LATER[t.pick(IFACE_ELEMS_LATER.len())].to_string());
        } else {
            parts.push(IFACE_ELEMS[t.pick(IFACE_ELEMS.len())].to_string());
        }
    }
    parts.join(".")
}

pub fn gen_idl(t: &mut Tape, o: &GenOpts) -> Idl {
    let name = gen_iface_name(t);
    let mut nt = t.pick(o.max_types + 1);
    let mut nm = 1 + t.pick(o.max_methods);
    let mut ne = t.pick(o.max_errors + 1);
    let small;
    let o = if o.big && t.chance(1, 24) {
        nt = 10 + t.pick(11);
        nm = 12 + t.pick(13);
        ne = 10 + t.pick(11);
        small = GenOpts { max_fields: 1, max_depth: 1, ..o.clone() };
        &small
    } else {
        o
    };
    let mut used = BTreeSet::new();
    let tname = |t: &mut Tape| -> String {
        if t.chance(1, 4) && o.rust_keywords {
            TYPE_KW_LIKE[t.pick(TYPE_KW_LIKE.len())].to_string()
        } else {
            TYPE_ORDINARY[t.pick(TYPE_ORDINARY.len())].to_string()
        }
    };
    let type_names: Vec<String> = (0..nt).map(|_| distinct(tname(t), &mut used)).collect();
    let mut members = vec![];
    for (i, n) in type_names.iter().enumerate() {
        let avail = &type_names[..i];
        let later = &type_names[i..];
        let def = if t.chance(1, 4) {
            let k = 1 + t.pick(4);
            let mut u = BTreeSet::new();
            Ty::Enum((0..k).map(|_| distinct(field_name(t, o), &mut u)).collect())
        } else {
            Ty::Struct(gen_fields(t, o, o.max_depth, avail, later))
        };
        members.push(Member { name: n.clone(), docs: vec![], def: Def::Type(def) });
    }
    for _ in 0..nm {
        let n = if o.rust_keywords && t.chance(1, 6) {
            distinct(METHOD_KW_LIKE[t.pick(METHOD_KW_LIKE.len())].to_string(), &mut used)
        } else {
            distinct(METHOD_ORDINARY[t.pick(METHOD_ORDINARY.len())].to_string(), &mut used)
        };
        let mut i = gen_fields(t, o, o.max_depth, &type_names, &[]);
        let mut out = gen_fields(t, o, o.max_depth, &type_names, &[]);
        // every so often a method whose inputs (or outputs) are all optional
        for f in [&mut i, &mut out] {
            if t.chance(1, 5) {
                for (_, ty) in f.iter_mut() {
                    if !matches!(ty, Ty::Opt(_)) {
                        *ty = Ty::Opt(Box::new(ty.clone()));
                    }
                }
            }
        }
        members.push(Member { name: n, docs: vec![], def: Def::Method(i, out) });
    }
    for _ in 0..ne {
        let n = distinct(ERROR_ORDINARY[t.pick(ERROR_ORDINARY.len())].to_string(), &mut used);
        let mut p = gen_fields(t, o, o.max_depth.min(2), &type_names, &[]);
        if o.plain_error_params {
            for f in p.iter_mut() {
                f.1 = strip_anon(&f.1);
            }
        }
        members.push(Member { name: n, docs: vec![], def: Def::Error(p) });
    }
    if members.len() >= 32 {
        // long definitions: kinds interleaved round-robin even when the tape is used up
        let mut by_kind: [Vec<Member>; 3] = [vec![], vec![], vec![]];
        for m in members.drain(..) {
            let k = match m.def {
                Def::Type(_) => 0,
                Def::Method(..) => 1,
                Def::Error(_) => 2,
            };
            by_kind[k].push(m);
        }
        let mut its: Vec<_> = by_kind.into_iter().map(|v| v.into_iter()).collect();
        loop {
            let mut any = false;
            for it in its.iter_mut() {
                if let Some(m) = it.next() {
                    members.push(m);
                    any = true;
                }
            }
            if !any {
                break;
            }
        }
    }
    // order of appearance: a tape-driven shuffle (identity when the tape is exhausted)
    for i in (1..members.len()).rev() {
        let j = i - t.pick(i + 1).min(i);
        members.swap(i, j);
    }
    Idl { name, docs: vec![], members }
}

// ------------------------------------------------------------------------------------------------
// trivia decorator

pub const EOLS: [&str; 5] = ["\n", "\r\n", "\r", "\u{2028}", "\u{2029}"];

const COMMENT_TEXTS: [&str; 10] = [
    "# a comment",
    "#",
    "# with # hash and (parens) -> : ,",
    "#no blank",
    "#   indented text  ",
    "# type method error interface",
    "# \u{e9}\u{4e2d}\u{6587}\u{1F600}",
    "# []?[string](a: int)",
    "## double",
    "#\ttab",
];

pub struct Deco<'a, 'b> {
    pub t: &'a mut Tape<'b>,
    /// how rich the trivia is: 0 = none (canonical), 1 = blanks and LF only, 2 = everything
    pub level: u8,
    pub out: String,
}

impl Deco<'_, '_> {
    fn blank(&mut self) -> char {
        if self.level >= 2 {
            BLANKS[self.t.pick(BLANKS.len())]
        } else {
            [' ', '\t'][self.t.pick(2)]
        }
    }
    fn eol(&mut self) -> &'static str {
        if self.level >= 2 {
            EOLS[self.t.pick(EOLS.len())]
        } else {
            "\n"
        }
    }
    fn comment(&mut self) -> String {
        COMMENT_TEXTS[self.t.pick(COMMENT_TEXTS.len())].to_string()
    }
    /// `wce()*` / `wce()+`: returns the comments it wrote
    fn wce(&mut self, at_least_one: bool, default: &str) -> Vec<String> {
        let mut comments = vec![];
        if self.level == 0 {
            self.out.push_str(default);
            return comments;
        }
        let mut n = self.t.pick(4);
        if n == 0 {
            self.out.push_str(default);
            return comments;
        }
        if n == 3 {
            // longer runs: comment blocks with blank-only and empty lines between their comment lines
            n += self.t.pick(5);
        }
        for _ in 0..n {
            match self.t.pick(6) {
                0..=2 => {
                    let c = self.blank();
                    self.out.push(c);
                }
                3 => {
                    let e = self.eol();
                    self.out.push_str(e);
                }
                _ => {
                    let c = self.comment();
                    self.out.push_str(&c);
                    comments.push(c.trim_matches(is_blank).to_string());
                    let e = self.eol();
                    self.out.push_str(e);
                }
            }
        }
        if at_least_one && self.out.chars().last().map(|c| !(is_blank(c) || is_eol_char(c))).unwrap_or(true) {
            self.out.push(' ');
        }
        comments
    }
    /// the `eol` that ends the interface line and separates members
    fn line_end(&mut self) {
        if self.level == 0 {
            self.out.push('\n');
            return;
        }
        match self.t.pick(8) {
            7 => {
                // a comment directly after the token is itself an end of line
                let c = self.comment();
                self.out.push_str(&c);
                let e = self.eol();
                self.out.push_str(e);
            }
            k => {
                for _ in 0..(k % 3) {
                    let c = self.blank();
                    self.out.push(c);
                }
                let e = self.eol();
                self.out.push_str(e);
            }
        }
    }
    fn ty(&mut self, t: &Ty) {
        match t {
            Ty::Struct(f) => self.fields(f),
            Ty::Enum(e) => {
                self.out.push('(');
                self.wce(false, "");
                for (i, x) in e.iter().enumerate() {
                    if i > 0 {
                        self.out.push(',');
                        self.wce(false, " ");
                    }
                    self.out.push_str(x);
                }
                self.wce(false, "");
                self.out.push(')');
            }
            Ty::Array(x) => {
                self.out.push_str("[]");
                self.ty(x);
            }
            Ty::Dict(x) => {
                self.out.push_str("[string]");
                self.ty(x);
            }
            Ty::Opt(x) => {
                self.out.push('?');
                self.ty(x);
            }
            other => self.out.push_str(&print_ty(other)),
        }
    }
    fn fields(&mut self, f: &Fields) {
        self.out.push('(');
        self.wce(false, "");
        for (i, (n, t)) in f.iter().enumerate() {
            if i > 0 {
                self.out.push(',');
            }
            self.wce(false, if i > 0 { " " } else { "" });
            self.out.push_str(n);
            self.wce(false, "");
            self.out.push(':');
            self.wce(false, " ");
            self.ty(t);
        }
        self.wce(false, "");
        self.out.push(')');
    }
}

/// Write `idl` with generated legal trivia. Returns the text and the IDL with the documentation
/// comments that were attached to the interface and to each member.
pub fn decorate(idl: &Idl, t: &mut Tape, level: u8) -> (String, Idl) {
    let mut d = Deco { t, level, out: String::new() };
    let mut res = idl.clone();
    res.docs = d.wce(false, "");
    d.out.push_str("interface");
    d.wce(true, " ");
    d.out.push_str(&idl.name);
    d.line_end();
    for (i, m) in idl.members.iter().enumerate() {
        if i > 0 {
            d.line_end();
        }
        res.members[i].docs = d.wce(false, if i > 0 || level == 0 { "\n" } else { "" });
        d.out.push_str(m.kind());
        d.wce(true, " ");
        d.out.push_str(&m.name);
        match &m.def {
            Def::Type(t) => {
                d.wce(false, " ");
                d.ty(t);
            }
            Def::Method(i, o) => {
                d.wce(false, "");
                d.fields(i);
                d.wce(false, " ");
                d.out.push_str("->");
                d.wce(false, " ");
                d.fields(o);
            }
            Def::Error(p) => {
                d.wce(false, " ");
                d.fields(p);
            }
        }
    }
    // trailing trivia; a trailing comment needs its line end
    d.wce(false, "\n");
    (d.out, res)
}

// ------------------------------------------------------------------------------------------------
// reference recogniser (hand-written recursive descent; shares no code with the peg grammar)

#[derive(Clone, Debug, PartialEq)]
pub enum Verdict {
    Accept(Idl),
    Reject(String),
    /// parses only under a reading of the grammar that is more liberal than what the property
    /// clauses decide (see DESIGN.md 3.5)
    Unspecified(&'static str),
}

struct Rec<'a> {
    s: &'a [char],
    p: usize,
    lenient: Option<&'static str>,
}

type R<T> = Result<T, String>;

impl<'a> Rec<'a> {
    fn peek(&self) -> Option<char> {
        self.s.get(self.p).cloned()
    }
    fn eat(&mut self, c: char) -> bool {
        if self.peek() == Some(c) {
            self.p += 1;
            true
        } else {
            false
        }
    }
    fn lit(&mut self, l: &str) -> bool {
        let cs: Vec<char> = l.chars().collect();
        if self.s[self.p..].starts_with(&cs) {
            self.p += cs.len();
            true
        } else {
            false
        }
    }
    fn eol_r(&mut self) -> bool {
        if self.lit("\r\n") {
            return true;
        }
        match self.peek() {
            Some(c) if is_eol_char(c) => {
                self.p += 1;
                true
            }
            _ => false,
        }
    }
    /// `#...<eol>`; returns the comment text. A comment that runs into the end of the input is
    /// accepted leniently.
    fn comment(&mut self) -> Option<String> {
        if self.peek() != Some('#') {
            return None;
        }
        let start = self.p;
        while let Some(c) = self.peek() {
            if is_eol_char(c) {
                break;
            }
            self.p += 1;
        }
        let text: String = self.s[start..self.p].iter().collect();
        if !self.eol_r() {
            self.lenient = Some("comment ended by the end of the input");
        }
        Some(text)
    }
    /// blanks, line ends and comments; returns the comments and how many elements were consumed
    fn trivia(&mut self) -> (Vec<String>, usize) {
        let mut comments = vec![];
        let mut n = 0;
        loop {
            if let Some(c) = self.peek() {
                if is_blank(c) {
                    self.p += 1;
                    n += 1;
                    continue;
                }
            }
            if self.eol_r() {
                n += 1;
                continue;
            }
            if let Some(c) = self.comment() {
                comments.push(c.trim_matches(is_blank).to_string());
                n += 1;
                continue;
            }
            break;
        }
        (comments, n)
    }
    /// end of a line after the interface name / between members: blanks then a line end, or a
    /// comment right away. With `lenient`, a comment after blanks is accepted too (and flagged).
    fn line_end(&mut self, lenient: bool) -> R<()> {
        if self.comment().is_some() {
            return Ok(());
        }
        let mut blanks = 0;
        while let Some(c) = self.peek() {
            if is_blank(c) {
                self.p += 1;
                blanks += 1;
            } else {
                break;
            }
        }
        if self.eol_r() {
            return Ok(());
        }
        if lenient && blanks > 0 && self.peek() == Some('#') {
            self.comment();
            self.lenient = Some("comment after blanks at the end of a member's line");
            return Ok(());
        }
        Err(format!("expected end of line at {}", self.p))
    }
    fn ident(&mut self) -> String {
        let start = self.p;
        while let Some(c) = self.peek() {
            if c.is_ascii_alphanumeric() || c == '_' {
                self.p += 1;
            } else {
                break;
            }
        }
        self.s[start..self.p].iter().collect()
    }
    fn field_name(&mut self) -> R<String> {
        let id = self.ident();
        let cs: Vec<char> = id.chars().collect();
        let ok = !cs.is_empty()
            && cs[0].is_ascii_alphabetic()
            && *cs.last().unwrap() != '_'
            && !id.contains("__");
        if ok {
            Ok(id)
        } else {
            Err(format!("bad field name `{}` at {}", id, self.p))
        }
    }
    fn type_name(&mut self) -> R<String> {
        let id = self.ident();
        let cs: Vec<char> = id.chars().collect();
        if !cs.is_empty() && cs[0].is_ascii_uppercase() && !id.contains('_') {
            Ok(id)
        } else {
            Err(format!("bad name `{}` at {}", id, self.p))
        }
    }
    fn interface_name(&mut self) -> R<String> {
        let start = self.p;
        while let Some(c) = self.peek() {
            if c.is_ascii_alphanumeric() || c == '-' || c == '.' {
                self.p += 1;
            } else {
                break;
            }
        }
        let name: String = self.s[start..self.p].iter().collect();
        let elems: Vec<&str> = name.split('.').collect();
        let elem_ok = |e: &str| !e.is_empty() && !e.starts_with('-') && !e.ends_with('-');
        let ok = elems.len() >= 2
            && elems.iter().all(|e| elem_ok(e))
            && elems[0].chars().next().map(|c| c.is_ascii_alphabetic()).unwrap_or(false);
        if ok {
            Ok(name)
        } else {
            Err(format!("bad interface name `{}`", name))
        }
    }
    fn ty(&mut self, allow_opt: bool) -> R<Ty> {
        if self.peek() == Some('?') {
            if !allow_opt {
                return Err(format!("nested optional at {}", self.p));
            }
            self.p += 1;
            return Ok(Ty::Opt(Box::new(self.ty(false)?)));
        }
        if self.lit("[]") {
            return Ok(Ty::Array(Box::new(self.ty(true)?)));
        }
        if self.lit("[string]") {
            return Ok(Ty::Dict(Box::new(self.ty(true)?)));
        }
        if self.peek() == Some('(') {
            return self.struct_or_enum();
        }
        let save = self.p;
        let id = self.ident();
        match id.as_str() {
            "bool" => Ok(Ty::Bool),
            "int" => Ok(Ty::Int),
            "float" => Ok(Ty::Float),
            "string" => Ok(Ty::Str),
            "object" => Ok(Ty::Object),
            _ => {
                self.p = save;
                Ok(Ty::Named(self.type_name()?))
            }
        }
    }
    /// `(...)`: a struct when the first item is followed by `:`, an enum otherwise; `()` is the
    /// empty struct.
    fn struct_or_enum(&mut self) -> R<Ty> {
        if !self.eat('(') {
            return Err(format!("expected `(` at {}", self.p));
        }
        self.trivia();
        if self.eat(')') {
            return Ok(Ty::Struct(vec![]));
        }
        // look ahead: name, trivia, ':' ?
        let save = self.p;
        let save_len = self.lenient;
        let first = self.field_name()?;
        self.trivia();
        let is_struct = self.peek() == Some(':');
        self.p = save;
        self.lenient = save_len;
        let _ = first;
        if is_struct {
            let mut fields = vec![];
            loop {
                self.trivia();
                let n = self.field_name()?;
                self.trivia();
                if !self.eat(':') {
                    return Err(format!("expected `:` at {}", self.p));
                }
                self.trivia();
                let t = self.ty(true)?;
                fields.push((n, t));
                let before = self.p;
                let (_, k) = self.trivia();
                if self.eat(',') {
                    if k > 0 {
                        self.lenient = Some("blanks between a field type and the following comma");
                    }
                    continue;
                }
                if self.eat(')') {
                    return Ok(Ty::Struct(fields));
                }
                return Err(format!("expected `,` or `)` at {}", before));
            }
        } else {
            let mut items = vec![];
            loop {
                let n = self.field_name()?;
                items.push(n);
                let (_, k) = self.trivia();
                if self.eat(',') {
                    if k > 0 {
                        self.lenient = Some("blanks between an enum item and the following comma");
                    }
                    self.trivia();
                    continue;
                }
                if self.eat(')') {
                    return Ok(Ty::Enum(items));
                }
                return Err(format!("expected `,` or `)` at {}", self.p));
            }
        }
    }
    fn fields(&mut self) -> R<Fields> {
        let at = self.p;
        match self.struct_or_enum()? {
            Ty::Struct(f) => Ok(f),
            _ => Err(format!("expected a struct at {}", at)),
        }
    }
    fn member(&mut self, docs: Vec<String>) -> R<Member> {
        let kw = self.ident();
        let (_, k) = self.trivia();
        if k == 0 {
            return Err(format!("expected blank after `{}` at {}", kw, self.p));
        }
        let name = self.type_name()?;
        self.trivia();
        let def = match kw.as_str() {
            "type" => Def::Type(self.struct_or_enum()?),
            "error" => Def::Error(self.fields()?),
            "method" => {
                let i = self.fields()?;
                self.trivia();
                if !self.lit("->") {
                    return Err(format!("expected `->` at {}", self.p));
                }
                self.trivia();
                Def::Method(i, self.fields()?)
            }
            other => return Err(format!("unknown member keyword `{}`", other)),
        };
        Ok(Member { name, docs, def })
    }
    fn interface(&mut self) -> R<Idl> {
        let (docs, _) = self.trivia();
        let kw = self.ident();
        if kw != "interface" {
            return Err(format!("expected `interface`, found `{}`", kw));
        }
        let (_, k) = self.trivia();
        if k == 0 {
            return Err("expected blank after `interface`".into());
        }
        let name = self.interface_name()?;
        let mut members = vec![];
        if self.p == self.s.len() {
            self.lenient = Some("interface without members");
            return Ok(Idl { name, docs, members });
        }
        self.line_end(true)?;
        loop {
            let (mdocs, _) = self.trivia();
            if self.p == self.s.len() {
                break;
            }
            members.push(self.member(mdocs)?);
            if self.p == self.s.len() {
                break;
            }
            let save = self.p;
            let save_len = self.lenient;
            if self.line_end(false).is_ok() {
                continue;
            }
            // not a plain line end: only trivia up to the end of the input?
            self.p = save;
            self.lenient = save_len;
            self.trivia();
            if self.p == self.s.len() {
                break;
            }
            self.p = save;
            self.lenient = save_len;
            self.line_end(true).map_err(|_| format!("expected end of line after member at {}", save))?;
        }
        if members.is_empty() {
            self.lenient = Some("interface without members");
        }
        Ok(Idl { name, docs, members })
    }
}

pub fn recognise(text: &str) -> Verdict {
    let chars: Vec<char> = text.chars().collect();
    let mut r = Rec { s: &chars, p: 0, lenient: None };
    match r.interface() {
        Err(e) => Verdict::Reject(e),
        Ok(idl) => {
            if r.p != chars.len() {
                return Verdict::Reject(format!("trailing input at {}", r.p));
            }
            match r.lenient {
                Some(why) => Verdict::Unspecified(why),
                None => Verdict::Accept(idl),
            }
        }
    }
}
