//! proptest plumbing: seeded runner, failure capture with key-stable shrinking.

use crate::ctx::Ctx;
use proptest::strategy::{Strategy, ValueTree};
use proptest::test_runner::{Config, RngAlgorithm, TestCaseError, TestError, TestRng, TestRunner};
use std::cell::RefCell;

#[derive(Clone, Debug)]
pub struct Fail {
    /// signature of the failure (call site + input class); matched against KNOWN_FINDINGS.json
    pub key: String,
    pub what: String,
}

impl Fail {
    pub fn new(key: impl Into<String>, what: impl Into<String>) -> Fail {
        Fail {
            key: key.into(),
            what: what.into(),
        }
    }
}

pub type CaseResult = Result<(), Fail>;

pub fn rng(seed: u64, salt: &str) -> TestRng {
    let mut bytes = [0u8; 32];
    bytes[..8].copy_from_slice(&seed.to_le_bytes());
    let h = crate::ctx::hash64(salt);
    bytes[8..16].copy_from_slice(&h.to_le_bytes());
    bytes[16..24].copy_from_slice(&(seed ^ 0x9e37_79b9_7f4a_7c15).to_be_bytes());
    TestRng::from_seed(RngAlgorithm::ChaCha, &bytes)
}

pub fn runner(seed: u64, salt: &str, cases: u32) -> TestRunner {
    runner_with(seed, salt, cases, 4096, 0)
}

pub fn runner_with(seed: u64, salt: &str, cases: u32, shrink_iters: u32, shrink_ms: u32) -> TestRunner {
    let config = Config {
        cases,
        failure_persistence: None,
        max_shrink_iters: shrink_iters,
        max_shrink_time: shrink_ms,
        max_global_rejects: 65536,
        ..Config::default()
    };
    TestRunner::new_with_rng(config, rng(seed, salt))
}

/// Draw `n` values from a strategy without running a property (for enumerate-style loops).
pub fn draw<S: Strategy>(seed: u64, salt: &str, strat: &S, n: usize) -> Vec<S::Value> {
    let mut r = runner(seed, salt, 1);
    (0..n)
        .map(|_| strat.new_tree(&mut r).expect("strategy").current())
        .collect()
}

/// Run `f` on `cases` generated values. A failure whose key is an open known finding is reported
/// as such and the search continues. Any other failure is shrunk (keeping its key) and returned.
pub fn check<S, F>(ctx: &mut Ctx, salt: &str, cases: u32, strat: S, f: F) -> Option<(S::Value, Fail)>
where
    S: Strategy,
    S::Value: Clone,
    F: Fn(&mut Ctx, &S::Value) -> CaseResult,
{
    check_with(ctx, salt, cases, 4096, 0, strat, f)
}

/// Like `check`, with a bound on shrinking effort (for cases whose execution is expensive).
pub fn check_with<S, F>(
    ctx: &mut Ctx,
    salt: &str,
    cases: u32,
    shrink_iters: u32,
    shrink_ms: u32,
    strat: S,
    f: F,
) -> Option<(S::Value, Fail)>
where
    S: Strategy,
    S::Value: Clone,
    F: Fn(&mut Ctx, &S::Value) -> CaseResult,
{
    let mut r = runner_with(ctx.seed, salt, cases, shrink_iters, shrink_ms);
    let state: RefCell<(&mut Ctx, Option<Fail>)> = RefCell::new((ctx, None));
    let res = r.run(&strat, |v| {
        let mut st = state.borrow_mut();
        let (ctx, first) = &mut *st;
        let res = std::panic::catch_unwind(std::panic::AssertUnwindSafe(|| f(ctx, &v))).unwrap_or_else(|p| {
            Err(Fail::new(panic_key(), format!("panic while executing a case: {}", panic_text(&p))))
        });
        match res {
            Ok(()) => Ok(()),
            Err(fail) => {
                if first.is_none() && ctx.is_known_open(&fail.key).is_some() {
                    ctx.violation(&fail.key, &fail.what, "known", serde_json::Value::Null);
                    return Ok(());
                }
                match first {
                    None => {
                        ctx.counting = false;
                        let k = fail.key.clone();
                        *first = Some(fail);
                        Err(TestCaseError::fail(k))
                    }
                    Some(f0) if f0.key == fail.key => {
                        *f0 = fail.clone();
                        Err(TestCaseError::fail(fail.key))
                    }
                    // a different failure met while shrinking: not the one being minimised
                    Some(_) => Ok(()),
                }
            }
        }
    });
    let (ctx, first) = state.into_inner();
    ctx.counting = true;
    match res {
        Ok(()) => None,
        Err(TestError::Fail(_, v)) => {
            // re-run the minimal value to get its exact message
            ctx.counting = false;
            let rerun = std::panic::catch_unwind(std::panic::AssertUnwindSafe(|| f(ctx, &v))).unwrap_or_else(|p| {
                Err(Fail::new(panic_key(), format!("panic while executing a case: {}", panic_text(&p))))
            });
            let fail = match rerun {
                Err(fl) => fl,
                Ok(()) => first.unwrap_or_else(|| Fail::new("unknown", "failure did not reproduce on the shrunk value")),
            };
            ctx.counting = true;
            Some((v, fail))
        }
        Err(TestError::Abort(reason)) => {
            ctx.inconclusive(&format!("proptest aborted ({}): {}", salt, reason));
            None
        }
    }
}

pub fn panic_text(p: &Box<dyn std::any::Any + Send>) -> String {
    p.downcast_ref::<String>()
        .cloned()
        .or_else(|| p.downcast_ref::<&str>().map(|s| s.to_string()))
        .unwrap_or_else(|| "non-string panic payload".into())
}

/// Run one case of an enumeration, turning a panic in the code under test into a failure.
pub fn guard<T>(f: impl FnOnce() -> Result<T, Fail>) -> Result<T, Fail> {
    std::panic::catch_unwind(std::panic::AssertUnwindSafe(f)).unwrap_or_else(|p| {
        Err(Fail::new(panic_key(), format!("panic while executing a case: {}", panic_text(&p))))
    })
}

static CODE_UNDER_TEST_IN_PROCESS: std::sync::atomic::AtomicBool = std::sync::atomic::AtomicBool::new(true);

/// Engines that only talk to child processes call this with `false`: a panic inside a case is then
/// a harness defect (inconclusive), not a finding about the code under test.
pub fn set_code_under_test_in_process(b: bool) {
    CODE_UNDER_TEST_IN_PROCESS.store(b, std::sync::atomic::Ordering::SeqCst);
}

pub fn panic_key() -> &'static str {
    if CODE_UNDER_TEST_IN_PROCESS.load(std::sync::atomic::Ordering::SeqCst) {
        "panic"
    } else {
        "HARNESS/panic"
    }
}
