//! Request alphabet, reference model of the T-service (written from the property statements) and
//! the reply-stream checker.

use crate::pt::Fail;
use crate::svc;
use serde_json::{json, Map, Value};
use std::io::Write;
use varlink::ConnectionHandler;

#[derive(Clone, Copy, Debug, PartialEq, Eq, Hash, PartialOrd, Ord)]
pub enum Kind {
    GetInfo,
    DescKnown,
    DescBuiltin,
    DescUnknown,
    DescNoParams,
    Echo,
    EchoVariant,
    /// a method without output parameters whose implementation replies (an empty reply object)
    Ack,
    Fail,
    Stream0,
    Stream2,
    NaiveStream,
    UnknownIface,
    UnknownMethodBuiltin,
    UnknownMethodGen,
    NoDot,
    BadMissing,
    BadType,
    NoParams,
    /// payload size class 0..4 : 100, 8 KiB-1, 8 KiB, 8 KiB+1, 3*8 KiB (whole message sizes differ)
    Big(u8),
    Upgrade,
}

pub const KINDS: [Kind; 19] = [
    Kind::GetInfo,
    Kind::DescKnown,
    Kind::DescBuiltin,
    Kind::DescUnknown,
    Kind::DescNoParams,
    Kind::Echo,
    Kind::EchoVariant,
    Kind::Ack,
    Kind::Fail,
    Kind::Stream0,
    Kind::Stream2,
    Kind::NaiveStream,
    Kind::UnknownIface,
    Kind::UnknownMethodBuiltin,
    Kind::UnknownMethodGen,
    Kind::NoDot,
    Kind::BadMissing,
    Kind::BadType,
    Kind::NoParams,
];

#[derive(Clone, Copy, Debug, PartialEq, Eq, Hash, PartialOrd, Ord)]
pub enum Flag {
    None,
    More,
    Oneway,
    /// `more: true` and `oneway: true` on one request: oneway wins, nothing is replied
    MoreOneway,
}

impl Flag {
    pub fn more(self) -> bool {
        matches!(self, Flag::More | Flag::MoreOneway)
    }
    pub fn oneway(self) -> bool {
        matches!(self, Flag::Oneway | Flag::MoreOneway)
    }
}

pub const FLAGS: [Flag; 4] = [Flag::None, Flag::More, Flag::Oneway, Flag::MoreOneway];

#[derive(Clone, Copy, Debug, PartialEq, Eq, Hash, PartialOrd, Ord)]
pub struct Sym {
    pub kind: Kind,
    pub flag: Flag,
}

impl Sym {
    pub fn name(&self) -> String {
        let f = match self.flag {
            Flag::None => "",
            Flag::More => "+more",
            Flag::Oneway => "+oneway",
            Flag::MoreOneway => "+more+oneway",
        };
        format!("{:?}{}", self.kind, f)
    }
    pub fn from_name(s: &str) -> Option<Sym> {
        alphabet_ext().into_iter().find(|x| x.name() == s)
    }
    /// After this request the T-service is expected to close the connection (the generated
    /// dispatch returns Err after its InvalidParameter reply; a `continues` reply without `more`
    /// fails).
    pub fn closes(&self) -> bool {
        matches!(self.kind, Kind::BadMissing | Kind::BadType) || (self.kind == Kind::NaiveStream && !self.flag.more())
    }
    /// error-producing or streaming (the C01 non-triviality rule looks for one of these before
    /// another request)
    pub fn is_error_or_stream(&self) -> bool {
        !matches!(
            self.kind,
            Kind::GetInfo
                | Kind::DescKnown
                | Kind::DescBuiltin
                | Kind::Echo
                | Kind::EchoVariant
                | Kind::Ack
                | Kind::Big(_)
                | Kind::Upgrade
        ) || (self.flag.more() && matches!(self.kind, Kind::Stream0 | Kind::Stream2))
    }
}

/// The token of request number `i`; every third one carries multi-byte characters, so that segment
/// boundaries and byte mutations also fall inside a character.
pub fn token(i: usize) -> String {
    if i % 3 == 1 {
        format!("t{}-\u{e9}\u{4e2d}\u{1F600}", i)
    } else {
        format!("t{}", i)
    }
}

/// The C01 alphabet: 19 kinds x 4 flag combinations.
pub fn alphabet() -> Vec<Sym> {
    let mut v = vec![];
    for k in KINDS {
        for f in FLAGS {
            v.push(Sym { kind: k, flag: f });
        }
    }
    v
}

/// C01 alphabet plus Big / Upgrade (C02).
pub fn alphabet_ext() -> Vec<Sym> {
    let mut v = alphabet();
    for b in 0..5u8 {
        for f in FLAGS {
            v.push(Sym {
                kind: Kind::Big(b),
                flag: f,
            });
        }
    }
    for f in FLAGS {
        v.push(Sym {
            kind: Kind::Upgrade,
            flag: f,
        });
    }
    v
}

pub fn big_len(class: u8) -> usize {
    match class {
        0 => 100,
        1 => 8191,
        2 => 8192,
        3 => 8193,
        _ => 3 * 8192,
    }
}

pub fn big_blob(class: u8, i: usize) -> String {
    let n = big_len(class);
    let mut s = format!("b{}:", i);
    let mut x = i as u32 * 7 + 1;
    while s.len() < n {
        x = x.wrapping_mul(1103515245).wrapping_add(12345);
        s.push((b'a' + ((x >> 16) % 26) as u8) as char);
    }
    s.truncate(n);
    s
}

/// JSON text style of a request (the same message, differently spelled).
#[derive(Clone, Copy, Debug, PartialEq, Eq, Hash)]
pub enum Style {
    Compact,
    Spaced,
    /// flags after method/parameters; unused flags spelled `more: false`, `oneway: null`
    FlagsLast,
    /// every unused flag spelled out as `false`
    FlagsFalse,
    /// `"upgrade": true` on every request to a method that does not upgrade the connection: the flag is a
    /// wish, the method decides; such a request is answered like any other and the connection goes on
    UpgradeWish,
}

/// Build the request object for symbol `s` at sequence index `i` (tokens are unique per index).
pub fn request(s: Sym, i: usize) -> Value {
    let tok = token(i);
    let (method, params): (String, Option<Value>) = match s.kind {
        Kind::GetInfo => ("org.varlink.service.GetInfo".into(), None),
        Kind::DescKnown => (
            "org.varlink.service.GetInterfaceDescription".into(),
            Some(json!({"interface": "org.verif.test"})),
        ),
        Kind::DescBuiltin => (
            "org.varlink.service.GetInterfaceDescription".into(),
            Some(json!({"interface": "org.varlink.service"})),
        ),
        Kind::DescUnknown => (
            "org.varlink.service.GetInterfaceDescription".into(),
            Some(json!({"interface": format!("org.none.{}", tok)})),
        ),
        Kind::DescNoParams => ("org.varlink.service.GetInterfaceDescription".into(), None),
        Kind::Echo => (
            "org.verif.test.Echo".into(),
            Some(json!({"token": tok, "n": i as i64})),
        ),
        Kind::EchoVariant => (
            format!("{}.Echo", ["org.verif", "org.verif.test-2", "org.verif.Test"][i % 3]),
            Some(json!({"token": tok, "n": -(i as i64)})),
        ),
        Kind::Ack => ("org.verif.test.Ack".into(), Some(json!({"token": tok}))),
        Kind::Fail => ("org.verif.test.Fail".into(), Some(json!({"token": tok}))),
        Kind::Stream0 => (
            "org.verif.test.Stream".into(),
            Some(json!({"token": tok, "k": 0})),
        ),
        Kind::Stream2 => (
            "org.verif.test.Stream".into(),
            Some(json!({"token": tok, "k": 2})),
        ),
        Kind::NaiveStream => (
            "org.verif.test.NaiveStream".into(),
            Some(json!({"token": tok})),
        ),
        Kind::UnknownIface => (format!("org.none.{}.Foo", tok), Some(json!({"x": 1}))),
        Kind::UnknownMethodBuiltin => (format!("org.varlink.service.NoSuch{}", i), None),
        Kind::UnknownMethodGen => (
            format!("org.verif.test.NoSuch{}", i),
            Some(json!({"token": tok})),
        ),
        Kind::NoDot => (format!("nodot{}", i), Some(json!({}))),
        Kind::BadMissing => ("org.verif.test.Echo".into(), Some(json!({"token": tok}))),
        Kind::BadType => (
            "org.verif.test.Echo".into(),
            Some(json!({"token": 5, "n": "x"})),
        ),
        Kind::NoParams => ("org.verif.test.Echo".into(), None),
        Kind::Big(c) => (
            "org.verif.test.Big".into(),
            Some(json!({"blob": big_blob(c, i)})),
        ),
        Kind::Upgrade => (
            "org.verif.test.Upgrade".into(),
            Some(json!({"token": tok})),
        ),
    };
    let mut m = Map::new();
    m.insert("method".into(), Value::String(method));
    if let Some(p) = params {
        m.insert("parameters".into(), p);
    }
    match s.flag {
        Flag::None => {}
        Flag::More => {
            m.insert("more".into(), Value::Bool(true));
        }
        Flag::Oneway => {
            m.insert("oneway".into(), Value::Bool(true));
        }
        Flag::MoreOneway => {
            m.insert("more".into(), Value::Bool(true));
            m.insert("oneway".into(), Value::Bool(true));
        }
    }
    if s.kind == Kind::Upgrade {
        m.insert("upgrade".into(), Value::Bool(true));
    }
    Value::Object(m)
}

pub fn encode(req: &Value, style: Style) -> Vec<u8> {
    let mut out = match style {
        Style::Compact => serde_json::to_vec(req).unwrap(),
        Style::Spaced => {
            let s = serde_json::to_string_pretty(req).unwrap();
            format!(" \t{}\r\n", s).into_bytes()
        }
        Style::FlagsFalse => {
            let o = req.as_object().unwrap();
            let mut m = o.clone();
            for k in ["more", "oneway", "upgrade"] {
                if !m.contains_key(k) {
                    m.insert(k.to_string(), Value::Bool(false));
                }
            }
            serde_json::to_vec(&Value::Object(m)).unwrap()
        }
        Style::UpgradeWish => {
            let o = req.as_object().unwrap();
            let mut m = o.clone();
            let upgrading = m.get("method").and_then(|x| x.as_str()).map(|x| x.ends_with(".Upgrade")).unwrap_or(false);
            if !upgrading && !m.contains_key("upgrade") {
                m.insert("upgrade".to_string(), Value::Bool(true));
            }
            serde_json::to_vec(&Value::Object(m)).unwrap()
        }
        Style::FlagsLast => {
            // flags after method/parameters, explicit false/null for the unused flags
            let o = req.as_object().unwrap();
            let mut parts = vec![];
            for k in ["parameters", "method"] {
                if let Some(v) = o.get(k) {
                    parts.push(format!("{}:{}", json!(k), v));
                }
            }
            for k in ["more", "oneway", "upgrade"] {
                match o.get(k) {
                    Some(v) => parts.push(format!("{}:{}", json!(k), v)),
                    None => {
                        if k == "more" {
                            parts.push(format!("{}:false", json!(k)))
                        } else if k == "oneway" {
                            parts.push(format!("{}:null", json!(k)))
                        }
                    }
                }
            }
            format!("{{{}}}", parts.join(",")).into_bytes()
        }
    };
    out.push(0);
    out
}

// ------------------------------------------------------------------------------------------------
// reference model

#[derive(Clone, Debug, PartialEq)]
pub enum Fin {
    /// success reply with exactly these parameters (an absent member equals `{}`)
    Ok(Value),
    /// success reply of GetInfo for the T-service
    OkGetInfo,
    /// error reply with this name and, when given, exactly these parameters
    Err(String, Option<Value>),
    /// some error reply (the statement does not fix which)
    AnyErr,
    /// any well-shaped final reply (used for mutated-but-well-formed requests)
    Any,
}

#[derive(Clone, Debug, PartialEq)]
pub struct Exp {
    /// request is oneway: no reply of any kind may be attributed to it
    pub oneway: bool,
    /// parameters of the `continues` replies that must precede the final one
    pub conts: Vec<Value>,
    /// any number of `continues` replies with any parameters is acceptable (only with `more`)
    pub any_conts: bool,
    pub fin: Fin,
    /// the service may close the connection instead of sending the final reply
    pub may_close_instead: bool,
    /// after this request the connection is upgraded: everything that follows goes to the
    /// interface's upgraded handler
    pub upgrades: bool,
}

pub const E_IFACE_NOT_FOUND: &str = "org.varlink.service.InterfaceNotFound";
pub const E_METHOD_NOT_FOUND: &str = "org.varlink.service.MethodNotFound";
pub const E_INVALID_PARAMETER: &str = "org.varlink.service.InvalidParameter";
pub const E_METHOD_NOT_IMPL: &str = "org.varlink.service.MethodNotImplemented";

/// What the property statements (C01, C03, C04, C05, C08) say the T-service must answer.
pub fn expect(s: Sym, i: usize) -> Exp {
    let tok = token(i);
    let more = s.flag.more();
    let mut conts = vec![];
    let mut may_close_instead = false;
    let mut upgrades = false;
    let fin = match s.kind {
        Kind::GetInfo => Fin::OkGetInfo,
        Kind::DescKnown => Fin::Ok(json!({"description": svc::IDL_TEST})),
        Kind::DescBuiltin => Fin::Ok(json!({"description": builtin_description()})),
        Kind::DescUnknown => Fin::Err(
            E_INVALID_PARAMETER.into(),
            Some(json!({"parameter": "interface"})),
        ),
        Kind::DescNoParams => Fin::Err(
            E_INVALID_PARAMETER.into(),
            Some(json!({"parameter": "parameters"})),
        ),
        Kind::Echo => Fin::Ok(json!({"token": tok, "n": i as i64})),
        Kind::EchoVariant => Fin::Ok(json!({"token": tok, "n": -(i as i64)})),
        Kind::Ack => Fin::Ok(json!({})),
        Kind::Fail => Fin::Err("org.verif.test.Failed".into(), Some(json!({"token": tok}))),
        Kind::Stream0 => Fin::Ok(json!({"token": tok, "i": 0})),
        Kind::Stream2 => {
            if more {
                conts.push(json!({"token": tok, "i": 0}));
                conts.push(json!({"token": tok, "i": 1}));
            }
            Fin::Ok(json!({"token": tok, "i": 2}))
        }
        Kind::NaiveStream => {
            if more {
                conts.push(json!({"token": tok}));
                Fin::Ok(json!({"token": tok}))
            } else {
                // the implementation asks for `continues` without `more`: the reply attempt fails
                // (C05) and the service may close; it must never put `continues` on the wire
                may_close_instead = true;
                Fin::AnyErr
            }
        }
        Kind::UnknownIface => Fin::Err(
            E_IFACE_NOT_FOUND.into(),
            Some(json!({"interface": format!("org.none.{}", tok)})),
        ),
        Kind::UnknownMethodBuiltin => Fin::Err(
            E_METHOD_NOT_FOUND.into(),
            Some(json!({"method": format!("org.varlink.service.NoSuch{}", i)})),
        ),
        Kind::UnknownMethodGen => Fin::Err(
            E_METHOD_NOT_FOUND.into(),
            Some(json!({"method": format!("org.verif.test.NoSuch{}", i)})),
        ),
        Kind::NoDot => Fin::AnyErr,
        Kind::BadMissing | Kind::BadType | Kind::NoParams => {
            Fin::Err(E_INVALID_PARAMETER.into(), None)
        }
        Kind::Big(c) => Fin::Ok(json!({"blob": big_blob(c, i)})),
        Kind::Upgrade => {
            upgrades = true;
            Fin::Ok(json!({"token": tok}))
        }
    };
    Exp {
        oneway: s.flag.oneway(),
        conts,
        any_conts: false,
        fin,
        may_close_instead,
        upgrades,
    }
}

pub fn builtin_description() -> &'static str {
    // the text of the built-in interface, as published by the varlink project
    "# The Varlink Service Interface is provided by every varlink service. It\n# describes the service and the interfaces it implements.\ninterface org.varlink.service\n\n# Get a list of all the interfaces a service provides and information\n# about the implementation.\nmethod GetInfo() -> (\n  vendor: string,\n  product: string,\n  version: string,\n  url: string,\n  interfaces: []string\n)\n\n# Get the description of an interface that is implemented by this service.\nmethod GetInterfaceDescription(interface: string) -> (description: string)\n\n# The requested interface was not found.\nerror InterfaceNotFound (interface: string)\n\n# The requested method was not found\nerror MethodNotFound (method: string)\n\n# The interface defines the requested method, but the service does not\n# implement it.\nerror MethodNotImplemented (method: string)\n\n# One of the passed parameters is invalid.\nerror InvalidParameter (parameter: string)\n"
}

fn params_eq(got: Option<&Value>, want: &Value) -> bool {
    match got {
        None | Some(Value::Null) => want.as_object().map(|o| o.is_empty()).unwrap_or(false),
        Some(g) => g == want,
    }
}

fn is_continues(r: &Value) -> bool {
    r.get("continues") == Some(&Value::Bool(true))
}

/// Shape check of one reply object: members are a subset of {continues, error, parameters} with
/// the right JSON types.
pub fn reply_shape(r: &Value) -> Result<(), String> {
    let Some(o) = r.as_object() else {
        return Err(format!("reply is not a JSON object: {}", r));
    };
    for (k, v) in o {
        match k.as_str() {
            "continues" => {
                if !(v.is_boolean() || v.is_null()) {
                    return Err(format!("continues is not a bool: {}", v));
                }
            }
            "error" => {
                if !(v.is_string() || v.is_null()) {
                    return Err(format!("error is not a string: {}", v));
                }
            }
            "parameters" => {}
            other => return Err(format!("unknown reply member `{}`", other)),
        }
    }
    Ok(())
}

pub fn fin_matches(fin: &Fin, r: &Value) -> bool {
    if reply_shape(r).is_err() || is_continues(r) {
        return false;
    }
    let err = r.get("error").and_then(|e| e.as_str());
    let params = r.get("parameters");
    match fin {
        Fin::Ok(p) => err.is_none() && params_eq(params, p),
        Fin::OkGetInfo => {
            err.is_none()
                && params
                    .map(|p| {
                        let ifs: Vec<&str> = p["interfaces"]
                            .as_array()
                            .map(|a| a.iter().filter_map(|x| x.as_str()).collect())
                            .unwrap_or_default();
                        let mut rest: Vec<&str> = ifs.iter().skip(1).cloned().collect();
                        rest.sort();
                        let mut want: Vec<&str> = svc::REGISTERED.to_vec();
                        want.sort();
                        p["vendor"] == svc::VENDOR
                            && p["product"] == svc::PRODUCT
                            && p["version"] == svc::VERSION
                            && p["url"] == svc::URL
                            && ifs.first() == Some(&"org.varlink.service")
                            && rest == want
                            && p.as_object().map(|o| o.len()) == Some(5)
                    })
                    .unwrap_or(false)
        }
        Fin::Err(name, p) => {
            err == Some(name.as_str())
                && match p {
                    Some(p) => params_eq(params, p),
                    None => true,
                }
        }
        Fin::AnyErr => err.is_some(),
        Fin::Any => true,
    }
}

/// How the observed connection ended.
#[derive(Clone, Copy, Debug, PartialEq, Eq)]
pub enum End {
    /// the service kept the connection open through the last request (in memory: every handle()
    /// call returned Ok and consumed its input; socket: the sentinel request was answered)
    Open,
    /// the service closed the connection (in memory: handle() returned Err)
    Closed,
}

#[derive(Debug, Default, Clone)]
pub struct CheckStats {
    pub answered: usize,
    pub closed_early: bool,
    pub unanswered_after_close: usize,
}

fn short(v: &Value) -> String {
    let s = v.to_string();
    if s.len() > 160 {
        format!("{}…", &s[..s.char_indices().take(160).last().map(|x| x.0).unwrap_or(0)])
    } else {
        s
    }
}

/// Check an observed reply stream against the expectations of the requests, in order.
/// `where_` prefixes the failure key (`handle`, `listen`, ...).
pub fn check_replies(
    where_: &str,
    syms: &[Sym],
    exps: &[Exp],
    replies: &[Value],
    end: End,
) -> Result<CheckStats, Fail> {
    let mut st = CheckStats::default();
    let mut pos = 0usize;
    let mut upgraded = false;
    for (i, (s, e)) in syms.iter().zip(exps.iter()).enumerate() {
        if upgraded {
            // bytes after an upgrade request are not varlink requests any more
            break;
        }
        if e.oneway {
            // a reply that only this oneway request could have caused is diagnosed below when it
            // fails to match the next expected reply
            if e.upgrades {
                upgraded = true;
            }
            continue;
        }
        // continues replies
        let mut ci = 0usize;
        while pos < replies.len() && is_continues(&replies[pos]) {
            let r = &replies[pos];
            if !s.flag.more() {
                return Err(Fail::new(
                    format!("{}/continues-without-more/{:?}", where_, s.kind),
                    format!(
                        "reply #{} carries continues:true but request #{} ({}) had no `more`: {}",
                        pos,
                        i,
                        s.name(),
                        short(r)
                    ),
                ));
            }
            if e.any_conts {
                if reply_shape(r).is_err() {
                    return Err(Fail::new(
                        format!("{}/malformed-reply", where_),
                        format!("reply #{} is not a well-shaped reply object: {}", pos, short(r)),
                    ));
                }
                pos += 1;
                continue;
            }
            if ci >= e.conts.len() {
                return Err(Fail::new(
                    format!("{}/extra-continues/{:?}", where_, s.kind),
                    format!(
                        "request #{} ({}) got more `continues` replies than expected ({}): {}",
                        i,
                        s.name(),
                        e.conts.len(),
                        short(r)
                    ),
                ));
            }
            if reply_shape(r).is_err()
                || r.get("error").map(|x| !x.is_null()).unwrap_or(false)
                || !params_eq(r.get("parameters"), &e.conts[ci])
            {
                return Err(Fail::new(
                    format!("{}/wrong-continues/{:?}", where_, s.kind),
                    format!(
                        "request #{} ({}) continues reply {} should carry {} but is {}",
                        i,
                        s.name(),
                        ci,
                        e.conts[ci],
                        short(r)
                    ),
                ));
            }
            ci += 1;
            pos += 1;
        }
        if pos >= replies.len() {
            match end {
                End::Closed => {
                    st.closed_early = true;
                    st.unanswered_after_close = syms.len() - i;
                    return Ok(st);
                }
                End::Open => {
                    return Err(Fail::new(
                        format!("{}/unanswered-open/{:?}", where_, s.kind),
                        format!(
                            "request #{} ({}) got no final reply although the connection stayed open ({} replies seen for {} requests; previous request: {})",
                            i,
                            s.name(),
                            replies.len(),
                            syms.len(),
                            if i > 0 { syms[i - 1].name() } else { "-".into() }
                        ),
                    ));
                }
            }
        }
        let r = &replies[pos];
        if ci < e.conts.len() {
            return Err(Fail::new(
                format!("{}/missing-continues/{:?}", where_, s.kind),
                format!(
                    "request #{} ({}) got {} of {} `continues` replies before {}",
                    i,
                    s.name(),
                    ci,
                    e.conts.len(),
                    short(r)
                ),
            ));
        }
        if !fin_matches(&e.fin, r) {
            // diagnose: reply caused by an earlier oneway request? reply of a later request?
            let mut j = i;
            while j > 0 && exps[j - 1].oneway {
                j -= 1;
                let twin = expect(
                    Sym {
                        kind: syms[j].kind,
                        flag: Flag::None,
                    },
                    j,
                );
                if fin_matches(&twin.fin, r) {
                    return Err(Fail::new(
                        format!("{}/reply-to-oneway/{:?}", where_, syms[j].kind),
                        format!(
                            "request #{} ({}) is oneway but a reply was written for it: {}",
                            j,
                            syms[j].name(),
                            short(r)
                        ),
                    ));
                }
            }
            for (k, ek) in exps.iter().enumerate().skip(i + 1) {
                if !ek.oneway && ek.fin != Fin::AnyErr && fin_matches(&ek.fin, r) && ek.fin != e.fin {
                    return Err(Fail::new(
                        format!("{}/skipped/{:?}", where_, s.kind),
                        format!(
                            "request #{} ({}) was skipped: the next reply answers request #{} ({}): {}",
                            i,
                            s.name(),
                            k,
                            syms[k].name(),
                            short(r)
                        ),
                    ));
                }
            }
            return Err(Fail::new(
                format!("{}/wrong-final/{:?}", where_, s.kind),
                format!(
                    "request #{} ({}) expected {:?} but reply #{} is {}",
                    i,
                    s.name(),
                    e.fin,
                    pos,
                    short(r)
                ),
            ));
        }
        pos += 1;
        st.answered += 1;
        if e.upgrades {
            upgraded = true;
        }
    }
    if pos < replies.len() {
        let r = &replies[pos];
        // caused by a trailing oneway request?
        let mut j = syms.len();
        while j > 0 && exps[j - 1].oneway {
            j -= 1;
            let twin = expect(
                Sym {
                    kind: syms[j].kind,
                    flag: Flag::None,
                },
                j,
            );
            if fin_matches(&twin.fin, r) {
                return Err(Fail::new(
                    format!("{}/reply-to-oneway/{:?}", where_, syms[j].kind),
                    format!(
                        "request #{} ({}) is oneway but a reply was written for it: {}",
                        j,
                        syms[j].name(),
                        short(r)
                    ),
                ));
            }
        }
        return Err(Fail::new(
            format!("{}/extra-reply", where_),
            format!(
                "{} replies for {} requests; first surplus reply: {}",
                replies.len(),
                syms.len(),
                short(r)
            ),
        ));
    }
    Ok(st)
}

/// Split reply bytes at NUL and parse every piece as JSON.
pub fn split_replies(where_: &str, out: &[u8]) -> Result<Vec<Value>, Fail> {
    let mut v = vec![];
    if out.is_empty() {
        return Ok(v);
    }
    if *out.last().unwrap() != 0 {
        return Err(Fail::new(
            format!("{}/reply-not-terminated", where_),
            format!(
                "reply stream does not end in NUL: ...{:?}",
                String::from_utf8_lossy(&out[out.len().saturating_sub(40)..])
            ),
        ));
    }
    for piece in out[..out.len() - 1].split(|b| *b == 0) {
        match serde_json::from_slice::<Value>(piece) {
            Ok(j) => v.push(j),
            Err(e) => {
                return Err(Fail::new(
                    format!("{}/reply-not-json", where_),
                    format!(
                        "reply piece is not JSON ({}): {:?}",
                        e,
                        String::from_utf8_lossy(&piece[..piece.len().min(120)])
                    ),
                ))
            }
        }
    }
    Ok(v)
}

// ------------------------------------------------------------------------------------------------
// in-memory driver around ConnectionHandler::handle

#[derive(Debug, Clone, Default)]
pub struct MemRun {
    pub out: Vec<u8>,
    /// Some(text) when a handle() call returned Err (the caller closes the connection)
    pub err: Option<String>,
    /// index of the chunk whose handle() call returned Err
    pub err_chunk: Option<usize>,
    /// out.len() after each handle() call
    pub out_marks: Vec<usize>,
    /// unprocessed bytes after the last call: returned tail ++ bytes left unread in the reader
    pub tail: Vec<u8>,
    pub iface: Option<String>,
    pub panicked: Option<String>,
    pub calls: usize,
}

struct CountingWriter<'a> {
    out: &'a mut Vec<u8>,
}
impl Write for CountingWriter<'_> {
    fn write(&mut self, b: &[u8]) -> std::io::Result<usize> {
        self.out.extend_from_slice(b);
        Ok(b.len())
    }
    fn flush(&mut self) -> std::io::Result<()> {
        Ok(())
    }
}

/// Feed `chunks` one at a time the way the API documents: each call gets the unprocessed tail of
/// the previous call followed by the new chunk.
pub fn run_chunks<H: ConnectionHandler>(svc: &H, chunks: &[&[u8]]) -> MemRun {
    let mut run = MemRun::default();
    let mut tail: Vec<u8> = vec![];
    let mut iface: Option<String> = None;
    for (ci, chunk) in chunks.iter().enumerate() {
        let mut buf = std::mem::take(&mut tail);
        buf.extend_from_slice(chunk);
        let mut reader: &[u8] = &buf[..];
        let res = {
            let mut w = CountingWriter { out: &mut run.out };
            let iface_in = iface.clone();
            std::panic::catch_unwind(std::panic::AssertUnwindSafe(|| {
                svc.handle(&mut reader, &mut w, iface_in)
            }))
        };
        run.calls += 1;
        run.out_marks.push(run.out.len());
        match res {
            Err(p) => {
                let msg = p
                    .downcast_ref::<String>()
                    .cloned()
                    .or_else(|| p.downcast_ref::<&str>().map(|s| s.to_string()))
                    .unwrap_or_else(|| "panic".into());
                run.panicked = Some(msg);
                run.err = Some("panic".into());
                run.err_chunk = Some(ci);
                break;
            }
            Ok(Err(e)) => {
                run.err = Some(format!("{:?}", e.kind()));
                run.err_chunk = Some(ci);
                break;
            }
            Ok(Ok((t, i))) => {
                tail = t;
                tail.extend_from_slice(reader);
                iface = i;
            }
        }
    }
    // an upgraded connection with unprocessed bytes left: a real caller calls handle() again
    // (the bytes belong to the interface's upgraded handler)
    if run.err.is_none() && iface.is_some() && !tail.is_empty() {
        let buf = std::mem::take(&mut tail);
        let mut reader: &[u8] = &buf[..];
        let res = {
            let mut w = CountingWriter { out: &mut run.out };
            let iface_in = iface.clone();
            std::panic::catch_unwind(std::panic::AssertUnwindSafe(|| {
                svc.handle(&mut reader, &mut w, iface_in)
            }))
        };
        run.calls += 1;
        run.out_marks.push(run.out.len());
        match res {
            Err(_) => {
                run.panicked = Some("panic in upgraded drain".into());
                run.err = Some("panic".into());
            }
            Ok(Err(e)) => {
                run.err = Some(format!("{:?}", e.kind()));
                run.err_chunk = Some(chunks.len());
            }
            Ok(Ok((t, i))) => {
                tail = t;
                tail.extend_from_slice(reader);
                iface = i;
            }
        }
    }
    run.tail = tail;
    run.iface = iface;
    run
}

/// `Arc`-shared handler so that one service instance can serve listen() and handle() alike.
pub struct Shared<H>(pub std::sync::Arc<H>);

impl<H: ConnectionHandler> ConnectionHandler for Shared<H> {
    fn handle(
        &self,
        bufreader: &mut dyn std::io::BufRead,
        writer: &mut dyn Write,
        upgraded_iface: Option<String>,
    ) -> varlink::Result<(Vec<u8>, Option<String>)> {
        self.0.handle(bufreader, writer, upgraded_iface)
    }
}

/// Encoded request stream with message boundaries.
#[derive(Clone, Debug, Default)]
pub struct Stream {
    pub syms: Vec<Sym>,
    pub exps: Vec<Exp>,
    pub bytes: Vec<u8>,
    /// end offset (exclusive, after the NUL) of every message
    pub ends: Vec<usize>,
}

pub fn build_stream(syms: &[Sym], style: impl Fn(usize) -> Style) -> Stream {
    let mut st = Stream::default();
    for (i, s) in syms.iter().enumerate() {
        let req = request(*s, i);
        st.bytes.extend_from_slice(&encode(&req, style(i)));
        st.ends.push(st.bytes.len());
        st.exps.push(expect(*s, i));
        st.syms.push(*s);
    }
    st
}

/// Like `build_stream`, with request indices (and so tokens) starting at `base`.
pub fn build_stream_at(syms: &[Sym], base: usize, style: impl Fn(usize) -> Style) -> Stream {
    let mut st = Stream::default();
    for (i, s) in syms.iter().enumerate() {
        let req = request(*s, base + i);
        st.bytes.extend_from_slice(&encode(&req, style(i)));
        st.ends.push(st.bytes.len());
        st.exps.push(expect(*s, base + i));
        st.syms.push(*s);
    }
    st
}

pub fn syms_json(syms: &[Sym]) -> Value {
    Value::Array(syms.iter().map(|s| Value::String(s.name())).collect())
}

pub fn syms_from_json(v: &Value) -> Vec<Sym> {
    v.as_array()
        .map(|a| {
            a.iter()
                .filter_map(|x| x.as_str().and_then(Sym::from_name))
                .collect()
        })
        .unwrap_or_default()
}
