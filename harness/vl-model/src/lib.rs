//! Shared model code of the verification harness for varlink/rust.
pub mod classify;
pub mod ctx;
pub mod fuzz;
pub mod idl;
pub mod isolate;
pub mod jsongen;
pub mod oracles;
pub mod pt;
pub mod sock;
pub mod svc;
pub mod wire;

pub use ctx::{Acc, Args, Ctx, Tier};
pub use pt::Fail;
