//! Child-process isolation: the engine re-executes itself as a child that journals every case
//! before running it; if the child dies (abort, stack overflow, kill) the parent re-runs the
//! journaled cases one by one to attribute the death to an input.

use crate::ctx::{Args, Ctx};
use crate::sock::Scratch;
use serde_json::Value;
use std::io::Write;

pub fn is_child() -> bool {
    std::env::var_os("VL_CHILD").is_some()
}

/// The single case a confirmation child has to run, if any.
pub fn one_case() -> Option<Value> {
    std::env::var("VL_ONE_CASE").ok().and_then(|s| serde_json::from_str(&s).ok())
}

pub struct Journal {
    file: Option<std::fs::File>,
}

impl Journal {
    pub fn open(worker: usize) -> Journal {
        let file = std::env::var_os("VL_JOURNAL").and_then(|d| {
            std::fs::OpenOptions::new()
                .create(true)
                .write(true)
                .truncate(true)
                .open(std::path::Path::new(&d).join(format!("w{}.journal", worker)))
                .ok()
        });
        Journal { file }
    }
    /// Record the case about to run (only the last record of a worker matters).
    pub fn note(&mut self, v: &Value) {
        if let Some(f) = self.file.as_mut() {
            use std::io::Seek;
            let s = v.to_string();
            let _ = f.seek(std::io::SeekFrom::Start(0));
            let _ = f.set_len(0);
            let _ = f.write_all(s.as_bytes());
        }
    }
    pub fn active(&self) -> bool {
        self.file.is_some()
    }
}

/// Parent side. Never returns.
pub fn supervise(args: &Args, level: &'static str, rule: &str, abort_key: &str, kind: &str) -> ! {
    let scratch = Scratch::new("journal");
    let exe = std::env::current_exe().expect("current_exe");
    let status = std::process::Command::new(&exe)
        .args(std::env::args().skip(1))
        .env("VL_CHILD", "1")
        .env("VL_JOURNAL", &scratch.path)
        .status()
        .expect("spawn child");
    if let Some(code) = status.code() {
        if (0..=2).contains(&code) {
            std::process::exit(code);
        }
    }
    let mut ctx = Ctx::new(args, level);
    ctx.rule = rule.into();
    let mut confirmed = false;
    if let Ok(rd) = std::fs::read_dir(&scratch.path) {
        for e in rd.flatten() {
            let Ok(s) = std::fs::read_to_string(e.path()) else { continue };
            let Ok(cj) = serde_json::from_str::<Value>(&s) else { continue };
            if confirmed {
                break; // one attributed death is enough; the others usually share its cause
            }
            ctx.case(None);
            let st = run_with_timeout(
                std::process::Command::new(&exe)
                    .args(std::env::args().skip(1))
                    .env("VL_CHILD", "1")
                    .env("VL_ONE_CASE", cj.to_string()),
                std::time::Duration::from_secs(30),
            );
            let died = match &st {
                Ok(Some(s)) => s.code().map(|c| !(0..=2).contains(&c)).unwrap_or(true),
                Ok(None) => true, // still running after 30 s: killed
                Err(_) => false,
            };
            if died {
                confirmed = true;
                ctx.force_sample(cj.clone());
                ctx.violation(
                    abort_key,
                    &format!("the process died or did not finish ({:?}) while processing this input; reproduced in isolation", st.ok().flatten()),
                    kind,
                    cj,
                );
            }
        }
    }
    if !confirmed {
        ctx.inconclusive(&format!(
            "the check process ended abnormally ({:?}) and no journaled case reproduces it",
            status
        ));
        ctx.case(None);
    }
    ctx.finish()
}

/// Run a command; Ok(None) when it had to be killed after `limit`.
pub fn run_with_timeout(
    cmd: &mut std::process::Command,
    limit: std::time::Duration,
) -> std::io::Result<Option<std::process::ExitStatus>> {
    let mut child = cmd.spawn()?;
    let start = std::time::Instant::now();
    loop {
        if let Some(st) = child.try_wait()? {
            return Ok(Some(st));
        }
        if start.elapsed() > limit {
            let _ = child.kill();
            let _ = child.wait();
            return Ok(None);
        }
        std::thread::sleep(std::time::Duration::from_millis(20));
    }
}

/// In-child watchdog: workers mark the start of each case; a monitor thread ends the process
/// with status 3 when one case runs longer than `limit` (the parent then re-runs the journaled
/// cases in isolation to confirm).
pub struct Watch {
    slots: std::sync::Arc<Vec<std::sync::atomic::AtomicU64>>,
    epoch: std::time::Instant,
}

impl Watch {
    pub fn start(workers: usize, limit: std::time::Duration) -> Watch {
        let slots: std::sync::Arc<Vec<std::sync::atomic::AtomicU64>> =
            std::sync::Arc::new((0..workers).map(|_| std::sync::atomic::AtomicU64::new(0)).collect());
        let epoch = std::time::Instant::now();
        let s2 = slots.clone();
        std::thread::spawn(move || loop {
            std::thread::sleep(std::time::Duration::from_millis(250));
            let now = epoch.elapsed().as_millis() as u64;
            for s in s2.iter() {
                let t = s.load(std::sync::atomic::Ordering::Relaxed);
                if t != 0 && now.saturating_sub(t) > limit.as_millis() as u64 {
                    eprintln!("watchdog: a case has been running for more than {:?}", limit);
                    std::process::exit(3);
                }
            }
        });
        Watch { slots, epoch }
    }
    pub fn begin(&self, worker: usize) {
        let now = (self.epoch.elapsed().as_millis() as u64).max(1);
        self.slots[worker % self.slots.len()].store(now, std::sync::atomic::Ordering::Relaxed);
    }
    pub fn end(&self, worker: usize) {
        self.slots[worker % self.slots.len()].store(0, std::sync::atomic::Ordering::Relaxed);
    }
}
