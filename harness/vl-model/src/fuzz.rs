//! libFuzzer campaigns (cargo-fuzz) for the thorough tiers: fixed number of runs, seeded, fresh corpus.

use crate::ctx::{verif_root, Ctx};
use serde_json::json;
use std::process::Command;

/// Run `runs` executions of `target`. Returns the crashing input, if any.
pub fn campaign(ctx: &mut Ctx, target: &str, runs: u64, seeds: &[Vec<u8>], max_len: usize) -> Option<Vec<u8>> {
    let root = verif_root();
    let tag = format!("{}-{}", target, std::process::id());
    let corpus = root.join(".cache/fuzz-corpus").join(&tag);
    let artifacts = root.join(".cache/fuzz-artifacts").join(&tag);
    let _ = std::fs::remove_dir_all(&corpus);
    let _ = std::fs::remove_dir_all(&artifacts);
    if std::fs::create_dir_all(&corpus).is_err() || std::fs::create_dir_all(&artifacts).is_err() {
        ctx.inconclusive("cannot create fuzz directories");
        return None;
    }
    for (i, s) in seeds.iter().enumerate() {
        let _ = std::fs::write(corpus.join(format!("seed-{:04}", i)), s);
    }
    let t0 = std::time::Instant::now();
    let out = Command::new("cargo")
        .args(["+nightly", "fuzz", "run", target])
        .arg(&corpus)
        .arg("--")
        .arg(format!("-runs={}", runs))
        .arg(format!("-seed={}", ctx.seed.max(1)))
        .arg("-len_control=0")
        .arg(format!("-max_len={}", max_len))
        .arg(format!("-artifact_prefix={}/", artifacts.display()))
        .current_dir(root.join("harness/fuzz"))
        .env("CARGO_NET_OFFLINE", "true")
        .output();
    let out = match out {
        Ok(o) => o,
        Err(e) => {
            ctx.inconclusive(&format!("cannot run cargo fuzz: {}", e));
            return None;
        }
    };
    let text = String::from_utf8_lossy(&out.stderr).to_string();
    let done = text
        .lines()
        .rev()
        .find_map(|l| l.strip_prefix("Done ").and_then(|r| r.split(' ').next()).and_then(|n| n.parse::<u64>().ok()));
    let mut crash = None;
    if let Ok(rd) = std::fs::read_dir(&artifacts) {
        for e in rd.flatten() {
            if let Ok(b) = std::fs::read(e.path()) {
                crash = Some(b);
                break;
            }
        }
    }
    let executed = done.unwrap_or(0);
    ctx.evaluations += executed;
    ctx.class_n(&format!("libfuzzer:{}:executions", target), executed);
    ctx.section(
        &format!("libfuzzer_{}", target),
        json!({"runs_requested": runs, "runs_done": done, "seed_inputs": seeds.len(), "seconds": t0.elapsed().as_secs_f64(), "crash": crash.is_some(), "max_len": max_len}),
    );
    if crash.is_none() && (!out.status.success() || done.is_none()) {
        let tail: String = text.lines().rev().take(6).collect::<Vec<_>>().into_iter().rev().collect::<Vec<_>>().join(" | ");
        ctx.inconclusive(&format!("libFuzzer campaign {} did not complete: {}", target, tail));
    }
    let _ = std::fs::remove_dir_all(&corpus);
    let _ = std::fs::remove_dir_all(&artifacts);
    crash
}
