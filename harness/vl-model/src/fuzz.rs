//! libFuzzer campaigns (cargo-fuzz) for the thorough tiers: fixed number of runs, seeded, fresh corpus.

use crate::ctx::{verif_root, Ctx};
use serde_json::json;
use std::process::Command;

/// Run `runs` executions of `target` in each of `workers()` independent libFuzzer processes (seeds
/// `VERIF_SEED*64 + w`, own corpus and artifact directories). Returns the first crashing input, if any.
pub fn campaign(ctx: &mut Ctx, target: &str, runs: u64, seeds: &[Vec<u8>], max_len: usize) -> Option<Vec<u8>> {
    let root = verif_root();
    // build once, so that the workers do not queue behind cargo's build lock
    let build = Command::new("cargo")
        .args(["+nightly", "fuzz", "build", target])
        .current_dir(root.join("harness/fuzz"))
        .env("CARGO_NET_OFFLINE", "true")
        .output();
    match build {
        Ok(o) if o.status.success() => {}
        Ok(o) => {
            let text = String::from_utf8_lossy(&o.stderr).to_string();
            let tail: String = text.lines().rev().take(6).collect::<Vec<_>>().into_iter().rev().collect::<Vec<_>>().join(" | ");
            ctx.inconclusive(&format!("cargo fuzz build {} failed: {}", target, tail));
            return None;
        }
        Err(e) => {
            ctx.inconclusive(&format!("cannot run cargo fuzz: {}", e));
            return None;
        }
    }
    let nw = workers();
    let base_seed = ctx.seed.max(1);
    let results: Vec<One> = std::thread::scope(|sc| {
        let hs: Vec<_> = (0..nw)
            .map(|w| {
                let root = root.clone();
                sc.spawn(move || one(&root, target, w, runs, base_seed * 64 + w as u64, seeds, max_len))
            })
            .collect();
        hs.into_iter().map(|h| h.join().unwrap_or_else(|_| One { done: None, crash: None, ok: false, tail: "worker thread panicked".into() })).collect()
    });
    let mut crash = None;
    let mut executed = 0u64;
    let mut incomplete = vec![];
    for (w, r) in results.iter().enumerate() {
        executed += r.done.unwrap_or(0);
        if crash.is_none() {
            crash = r.crash.clone();
        }
        if r.crash.is_none() && (!r.ok || r.done.is_none()) {
            incomplete.push(format!("worker {}: {}", w, r.tail));
        }
    }
    ctx.evaluations += executed;
    ctx.class_n(&format!("libfuzzer:{}:executions", target), executed);
    ctx.section(
        &format!("libfuzzer_{}", target),
        json!({"processes": nw, "runs_requested_per_process": runs, "runs_done": executed, "seed_inputs": seeds.len(),
               "crash": crash.is_some(), "max_len": max_len, "seeds": (0..nw).map(|w| base_seed * 64 + w as u64).collect::<Vec<_>>()}),
    );
    if crash.is_none() && !incomplete.is_empty() {
        ctx.inconclusive(&format!("libFuzzer campaign {} did not complete: {}", target, incomplete.join(" || ")));
    }
    crash
}

fn workers() -> usize {
    std::env::var("VERIF_FUZZ_WORKERS").ok().and_then(|v| v.parse().ok()).unwrap_or_else(|| crate::ctx::ncpu().clamp(1, 12))
}

struct One {
    done: Option<u64>,
    crash: Option<Vec<u8>>,
    ok: bool,
    tail: String,
}

fn one(root: &std::path::Path, target: &str, w: usize, runs: u64, seed: u64, seeds: &[Vec<u8>], max_len: usize) -> One {
    let tag = format!("{}-{}-{}", target, std::process::id(), w);
    let corpus = root.join(".cache/fuzz-corpus").join(&tag);
    let artifacts = root.join(".cache/fuzz-artifacts").join(&tag);
    let _ = std::fs::remove_dir_all(&corpus);
    let _ = std::fs::remove_dir_all(&artifacts);
    if std::fs::create_dir_all(&corpus).is_err() || std::fs::create_dir_all(&artifacts).is_err() {
        return One { done: None, crash: None, ok: false, tail: "cannot create fuzz directories".into() };
    }
    for (i, s) in seeds.iter().enumerate() {
        let _ = std::fs::write(corpus.join(format!("seed-{:04}", i)), s);
    }
    let out = Command::new("cargo")
        .args(["+nightly", "fuzz", "run", target])
        .arg(&corpus)
        .arg("--")
        .arg(format!("-runs={}", runs))
        .arg(format!("-seed={}", seed))
        .arg("-len_control=0")
        .arg("-report_slow_units=300")
        .arg("-timeout=600")
        .arg(format!("-max_len={}", max_len))
        .arg(format!("-artifact_prefix={}/", artifacts.display()))
        .current_dir(root.join("harness/fuzz"))
        .env("CARGO_NET_OFFLINE", "true")
        .output();
    let out = match out {
        Ok(o) => o,
        Err(e) => return One { done: None, crash: None, ok: false, tail: format!("cannot run cargo fuzz: {}", e) },
    };
    let text = String::from_utf8_lossy(&out.stderr).to_string();
    let done = text
        .lines()
        .rev()
        .find_map(|l| l.strip_prefix("Done ").and_then(|r| r.split(' ').next()).and_then(|n| n.parse::<u64>().ok()));
    // libFuzzer also drops slow-unit-*, oom-*, timeout-* and leak-* files next to crash-*: only a crash is
    // a verdict of the oracle inside the target; the others speak about the machine, not the property
    let mut crash = None;
    let mut other = vec![];
    if let Ok(rd) = std::fs::read_dir(&artifacts) {
        for e in rd.flatten() {
            let name = e.file_name().to_string_lossy().to_string();
            if name.starts_with("crash-") {
                if crash.is_none() {
                    crash = std::fs::read(e.path()).ok();
                }
            } else if !name.starts_with("slow-unit-") {
                other.push(name);
            }
        }
    }
    let tail: String = text.lines().rev().take(6).collect::<Vec<_>>().into_iter().rev().collect::<Vec<_>>().join(" | ");
    let _ = std::fs::remove_dir_all(&corpus);
    let _ = std::fs::remove_dir_all(&artifacts);
    let tail = if other.is_empty() { tail } else { format!("{} [artifacts: {}]", tail, other.join(", ")) };
    One { done, crash, ok: out.status.success() && other.is_empty(), tail }
}
