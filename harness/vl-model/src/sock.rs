//! Raw socket client used by the listen()-level checks, and an in-process listen() server.

use serde_json::Value;
use std::io::{Read, Write};
use std::net::{Shutdown, TcpStream};
use std::os::unix::net::UnixStream;
use std::path::PathBuf;
use std::sync::atomic::{AtomicBool, AtomicU64, Ordering};
use std::sync::{Arc, Condvar, Mutex};
use std::time::{Duration, Instant};

pub enum Conn {
    Unix(UnixStream),
    Tcp(TcpStream),
}

impl Conn {
    pub fn connect(addr: &str) -> std::io::Result<Conn> {
        if let Some(a) = addr.strip_prefix("tcp:") {
            let s = TcpStream::connect(a)?;
            let _ = s.set_nodelay(true);
            Ok(Conn::Tcp(s))
        } else if let Some(a) = addr.strip_prefix("unix:@") {
            use std::os::linux::net::SocketAddrExt;
            let a = a.split(';').next().unwrap();
            let sa = std::os::unix::net::SocketAddr::from_abstract_name(a)?;
            Ok(Conn::Unix(UnixStream::connect_addr(&sa)?))
        } else if let Some(a) = addr.strip_prefix("unix:") {
            let a = a.split(';').next().unwrap();
            Ok(Conn::Unix(UnixStream::connect(a)?))
        } else {
            Err(std::io::Error::new(
                std::io::ErrorKind::InvalidInput,
                "bad address",
            ))
        }
    }
    pub fn try_clone(&self) -> std::io::Result<Conn> {
        Ok(match self {
            Conn::Unix(s) => Conn::Unix(s.try_clone()?),
            Conn::Tcp(s) => Conn::Tcp(s.try_clone()?),
        })
    }
    pub fn shutdown(&self, how: Shutdown) -> std::io::Result<()> {
        match self {
            Conn::Unix(s) => s.shutdown(how),
            Conn::Tcp(s) => s.shutdown(how),
        }
    }
}

impl Read for Conn {
    fn read(&mut self, b: &mut [u8]) -> std::io::Result<usize> {
        match self {
            Conn::Unix(s) => s.read(b),
            Conn::Tcp(s) => s.read(b),
        }
    }
}
impl Write for Conn {
    fn write(&mut self, b: &[u8]) -> std::io::Result<usize> {
        match self {
            Conn::Unix(s) => s.write(b),
            Conn::Tcp(s) => s.write(b),
        }
    }
    fn flush(&mut self) -> std::io::Result<()> {
        Ok(())
    }
}

#[derive(Default)]
struct RxState {
    bytes: Vec<u8>,
    eof: bool,
    /// parse position: start of the first piece not yet classified
    scanned: usize,
    finals: usize,
    pieces: usize,
}

/// A connection whose incoming bytes are collected by a background thread, so that the writer can
/// never dead-lock against a service that replies while we are still sending.
pub struct Peer {
    writer: Box<dyn Write + Send>,
    closer: Box<dyn Fn(Shutdown) + Send>,
    rx: Arc<(Mutex<RxState>, Condvar)>,
    reader: Option<std::thread::JoinHandle<()>>,
    pub write_failed: bool,
}

pub enum Wait {
    Reached,
    Eof,
    Stalled,
}

impl Peer {
    pub fn connect(addr: &str) -> std::io::Result<Peer> {
        let conn = Conn::connect(addr)?;
        Self::from_conn(conn)
    }

    pub fn from_conn(conn: Conn) -> std::io::Result<Peer> {
        let rconn = conn.try_clone()?;
        let wconn = conn.try_clone()?;
        Ok(Self::from_parts(
            Box::new(rconn),
            Box::new(wconn),
            Box::new(move |how| {
                let _ = conn.shutdown(how);
            }),
        ))
    }

    /// A peer over arbitrary halves (e.g. the reader/writer of a varlink::Connection).
    pub fn from_parts(
        mut rconn: Box<dyn Read + Send>,
        writer: Box<dyn Write + Send>,
        closer: Box<dyn Fn(Shutdown) + Send>,
    ) -> Peer {
        let rx: Arc<(Mutex<RxState>, Condvar)> = Arc::new((Mutex::new(RxState::default()), Condvar::new()));
        let rx2 = rx.clone();
        let reader = std::thread::spawn(move || {
            let mut buf = [0u8; 16384];
            loop {
                match rconn.read(&mut buf) {
                    Ok(0) | Err(_) => {
                        let mut st = rx2.0.lock().unwrap();
                        st.eof = true;
                        rx2.1.notify_all();
                        break;
                    }
                    Ok(n) => {
                        let mut st = rx2.0.lock().unwrap();
                        st.bytes.extend_from_slice(&buf[..n]);
                        rx2.1.notify_all();
                    }
                }
            }
        });
        Peer { writer, closer, rx, reader: Some(reader), write_failed: false }
    }

    /// Write bytes; a write error (peer closed) is remembered, not fatal.
    pub fn send(&mut self, b: &[u8]) {
        if self.write_failed {
            return;
        }
        if self.writer.write_all(b).is_err() || self.writer.flush().is_err() {
            self.write_failed = true;
        }
    }

    /// After the peer closed the connection, writing to it must fail. Keeps writing single blanks until
    /// a write is refused (true) or `within` has passed with every write accepted (false: the other
    /// side stopped sending but still holds the connection open for reading).
    pub fn write_refused(&mut self, within: Duration) -> bool {
        if self.write_failed {
            return true;
        }
        let deadline = Instant::now() + within;
        loop {
            if self.writer.write_all(b" ").is_err() || self.writer.flush().is_err() {
                self.write_failed = true;
                return true;
            }
            if Instant::now() >= deadline {
                return false;
            }
            std::thread::sleep(Duration::from_millis(20));
        }
    }

    fn scan(st: &mut RxState) {
        while let Some(off) = st.bytes[st.scanned..].iter().position(|b| *b == 0) {
            let piece = &st.bytes[st.scanned..st.scanned + off];
            st.pieces += 1;
            let cont = serde_json::from_slice::<Value>(piece)
                .ok()
                .map(|v| v.get("continues") == Some(&Value::Bool(true)))
                .unwrap_or(false);
            if !cont {
                st.finals += 1;
            }
            st.scanned += off + 1;
        }
    }

    /// Wait until `n` final replies (pieces without continues:true) have arrived in total.
    pub fn wait_finals(&self, n: usize, timeout: Duration) -> Wait {
        let deadline = Instant::now() + timeout;
        let mut st = self.rx.0.lock().unwrap();
        loop {
            Self::scan(&mut st);
            if st.finals >= n {
                return Wait::Reached;
            }
            if st.eof {
                return Wait::Eof;
            }
            let now = Instant::now();
            if now >= deadline {
                return Wait::Stalled;
            }
            let (g, _) = self.rx.1.wait_timeout(st, deadline - now).unwrap();
            st = g;
        }
    }

    /// Wait until a piece satisfying `pred` has arrived.
    pub fn wait_piece(&self, pred: impl Fn(&Value) -> bool, timeout: Duration) -> Wait {
        let deadline = Instant::now() + timeout;
        let mut st = self.rx.0.lock().unwrap();
        loop {
            let found = st.bytes.split(|b| *b == 0).any(|p| {
                serde_json::from_slice::<Value>(p)
                    .ok()
                    .map(|v| pred(&v))
                    .unwrap_or(false)
            });
            if found {
                return Wait::Reached;
            }
            if st.eof {
                return Wait::Eof;
            }
            let now = Instant::now();
            if now >= deadline {
                return Wait::Stalled;
            }
            let (g, _) = self.rx.1.wait_timeout(st, deadline - now).unwrap();
            st = g;
        }
    }

    pub fn wait_eof(&self, timeout: Duration) -> Wait {
        let deadline = Instant::now() + timeout;
        let mut st = self.rx.0.lock().unwrap();
        loop {
            if st.eof {
                return Wait::Eof;
            }
            let now = Instant::now();
            if now >= deadline {
                return Wait::Stalled;
            }
            let (g, _) = self.rx.1.wait_timeout(st, deadline - now).unwrap();
            st = g;
        }
    }

    pub fn finals(&self) -> usize {
        let mut st = self.rx.0.lock().unwrap();
        Self::scan(&mut st);
        st.finals
    }

    pub fn is_eof(&self) -> bool {
        self.rx.0.lock().unwrap().eof
    }

    pub fn received(&self) -> Vec<u8> {
        self.rx.0.lock().unwrap().bytes.clone()
    }

    pub fn half_close(&self) {
        (self.closer)(Shutdown::Write);
    }

    /// Close both directions and collect everything received.
    pub fn finish(mut self) -> Vec<u8> {
        (self.closer)(Shutdown::Both);
        if let Some(h) = self.reader.take() {
            let _ = h.join();
        }
        let st = self.rx.0.lock().unwrap();
        st.bytes.clone()
    }
}

impl Drop for Peer {
    fn drop(&mut self) {
        (self.closer)(Shutdown::Both);
        if let Some(h) = self.reader.take() {
            let _ = h.join();
        }
    }
}

// ------------------------------------------------------------------------------------------------

static DIR_SEQ: AtomicU64 = AtomicU64::new(0);

/// A private scratch directory for unix sockets, removed on drop.
pub struct Scratch {
    pub path: PathBuf,
}

impl Scratch {
    pub fn new(tag: &str) -> Scratch {
        let n = DIR_SEQ.fetch_add(1, Ordering::SeqCst);
        let base = std::env::var_os("VERIF_TMP")
            .map(PathBuf::from)
            .unwrap_or_else(std::env::temp_dir);
        let path = base.join(format!("vl-{}-{}-{}", tag, std::process::id(), n));
        let _ = std::fs::remove_dir_all(&path);
        std::fs::create_dir_all(&path).expect("scratch dir");
        Scratch { path }
    }
    pub fn unix_addr(&self, name: &str) -> String {
        format!("unix:{}", self.path.join(name).display())
    }
}

impl Drop for Scratch {
    fn drop(&mut self) {
        let _ = std::fs::remove_dir_all(&self.path);
    }
}

/// An in-process `varlink::listen` server with a stop flag.
pub struct Server {
    pub addr: String,
    pub stop: Arc<AtomicBool>,
    handle: Option<std::thread::JoinHandle<Result<(), String>>>,
}

impl Server {
    pub fn start<H: varlink::ConnectionHandler + Send + Sync + 'static>(
        handler: H,
        addr: &str,
        initial: usize,
        max: usize,
        idle_timeout: u64,
    ) -> Server {
        let stop = Arc::new(AtomicBool::new(false));
        let cfg = varlink::ListenConfig {
            initial_worker_threads: initial,
            max_worker_threads: max,
            idle_timeout,
            stop_listening: Some(stop.clone()),
        };
        let a = addr.to_string();
        let handle = std::thread::spawn(move || {
            varlink::listen(handler, &a, &cfg).map_err(|e| format!("{:?}", e.kind()))
        });
        let srv = Server {
            addr: addr.to_string(),
            stop,
            handle: Some(handle),
        };
        srv.wait_ready();
        srv
    }

    fn wait_ready(&self) {
        // the listener is bound before listen() starts accepting; poll by connecting
        let deadline = Instant::now() + Duration::from_secs(10);
        loop {
            match Conn::connect(&self.addr) {
                Ok(c) => {
                    let _ = c.shutdown(Shutdown::Both);
                    return;
                }
                Err(_) => {
                    if Instant::now() > deadline {
                        return;
                    }
                    std::thread::sleep(Duration::from_millis(5));
                }
            }
        }
    }

    pub fn stop(mut self) -> Result<(), String> {
        self.stop.store(true, Ordering::SeqCst);
        match self.handle.take() {
            Some(h) => h.join().unwrap_or_else(|_| Err("listen thread panicked".into())),
            None => Ok(()),
        }
    }
}

impl Drop for Server {
    fn drop(&mut self) {
        self.stop.store(true, Ordering::SeqCst);
        if let Some(h) = self.handle.take() {
            let _ = h.join();
        }
    }
}
