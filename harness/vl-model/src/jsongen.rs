//! proptest strategies for JSON values with boundary numbers and awkward strings.

use proptest::prelude::*;
use serde_json::{Map, Number, Value};

pub fn json_string() -> impl Strategy<Value = String> {
    prop_oneof![
        3 => "[a-zA-Z0-9_. -]{0,12}",
        1 => Just(String::new()),
        1 => Just("\u{e9}\u{4e2d}\u{6587} \u{1F600}".to_string()),
        1 => Just("quote\" backslash\\ slash/ \u{8}\u{c}\n\r\t".to_string()),
        1 => Just("nul\u{0}inside".to_string()),
        1 => Just("\u{7f}\u{80}\u{2028}\u{2029}\u{feff}".to_string()),
        1 => Just("\u{10FFFF}\u{1D11E}".to_string()),
        1 => prop::collection::vec(any::<char>(), 0..8).prop_map(|v| v.into_iter().collect()),
    ]
}

pub fn json_int() -> impl Strategy<Value = Value> {
    prop_oneof![
        4 => (-1000i64..1000).prop_map(Value::from),
        1 => Just(Value::from(i64::MAX)),
        1 => Just(Value::from(i64::MIN)),
        1 => Just(Value::from(u64::MAX)),
        1 => Just(Value::from((1i64 << 53) + 1)),
        1 => Just(Value::from(-(1i64 << 53) - 1)),
        1 => Just(Value::from(0)),
        1 => any::<i64>().prop_map(Value::from),
    ]
}

pub fn json_float() -> impl Strategy<Value = Value> {
    prop_oneof![
        2 => (-1.0e6f64..1.0e6).prop_map(fl),
        1 => Just(fl(-0.0)),
        1 => Just(fl(5e-324)),
        1 => Just(fl(1e300)),
        1 => Just(fl(0.1)),
        1 => Just(fl(1.5)),
        1 => Just(fl(f64::MAX)),
        1 => Just(fl(f64::MIN_POSITIVE)),
    ]
}

fn fl(f: f64) -> Value {
    Number::from_f64(f).map(Value::Number).unwrap_or(Value::Null)
}

pub fn json_leaf() -> impl Strategy<Value = Value> {
    prop_oneof![
        1 => Just(Value::Null),
        2 => any::<bool>().prop_map(Value::Bool),
        3 => json_int(),
        2 => json_float(),
        4 => json_string().prop_map(Value::String),
    ]
}

/// Arbitrary JSON value, nesting depth <= `depth`.
pub fn json_value(depth: u32) -> impl Strategy<Value = Value> {
    json_leaf().prop_recursive(depth, 48, 5, |inner| {
        prop_oneof![
            prop::collection::vec(inner.clone(), 0..5).prop_map(Value::Array),
            prop::collection::vec((json_string(), inner), 0..5).prop_map(|kv| {
                let mut m = Map::new();
                for (k, v) in kv {
                    m.insert(k, v);
                }
                Value::Object(m)
            }),
        ]
    })
}

/// A JSON object (the usual shape of `parameters`).
pub fn json_object(depth: u32) -> impl Strategy<Value = Value> {
    prop::collection::vec((json_string(), json_value(depth)), 0..5).prop_map(|kv| {
        let mut m = Map::new();
        for (k, v) in kv {
            m.insert(k, v);
        }
        Value::Object(m)
    })
}

/// Replace floats that do not survive serde_json's own text round trip (it is built without the
/// `float_roundtrip` feature) by a harmless one.
pub fn stabilise(v: &Value) -> Value {
    match v {
        Value::Number(n) if n.is_f64() => {
            let f = n.as_f64().unwrap();
            let ok = serde_json::to_string(&f)
                .ok()
                .and_then(|s| serde_json::from_str::<f64>(&s).ok())
                .map(|g| g.to_bits() == f.to_bits())
                .unwrap_or(false);
            if ok {
                v.clone()
            } else {
                Value::from(0.5)
            }
        }
        Value::Array(a) => Value::Array(a.iter().map(stabilise).collect()),
        Value::Object(o) => Value::Object(o.iter().map(|(k, x)| (k.clone(), stabilise(x))).collect()),
        _ => v.clone(),
    }
}

pub fn stable_json(depth: u32) -> impl Strategy<Value = Value> {
    json_value(depth).prop_map(|v| stabilise(&v))
}
