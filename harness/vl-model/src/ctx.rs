//! Run context shared by every engine: command line, evidence accounting, known findings,
//! replay files and the verdict protocol (exit 0 / 1 + VIOLATION line / 2 inconclusive).

use serde_json::{json, Value};
use std::collections::hash_map::DefaultHasher;
use std::collections::{BTreeMap, BTreeSet, HashSet};
use std::hash::{Hash, Hasher};
use std::path::PathBuf;
use std::time::Instant;

#[derive(Clone, Copy, PartialEq, Eq, Debug)]
pub enum Tier {
    Quick,
    Thorough,
}

impl Tier {
    pub fn pick<T>(self, quick: T, thorough: T) -> T {
        match self {
            Tier::Quick => quick,
            Tier::Thorough => thorough,
        }
    }
    pub fn name(self) -> &'static str {
        match self {
            Tier::Quick => "quick",
            Tier::Thorough => "thorough",
        }
    }
}

pub struct Args {
    pub id: String,
    pub tier: Tier,
    pub seed: u64,
    pub evidence: PathBuf,
    pub replay: Option<PathBuf>,
    pub extra: Vec<String>,
}

pub fn verif_root() -> PathBuf {
    std::env::var_os("VERIF_ROOT")
        .map(PathBuf::from)
        .unwrap_or_else(|| PathBuf::from("/verif"))
}

pub fn parse_args() -> Args {
    let mut it = std::env::args().skip(1);
    let id = it.next().unwrap_or_else(|| usage());
    let mut tier = Tier::Quick;
    let mut seed = 1u64;
    let mut evidence = None;
    let mut replay = None;
    let mut extra = vec![];
    while let Some(a) = it.next() {
        match a.as_str() {
            "--tier" => {
                tier = match it.next().as_deref() {
                    Some("quick") => Tier::Quick,
                    Some("thorough") => Tier::Thorough,
                    _ => usage(),
                }
            }
            "--seed" => seed = it.next().and_then(|s| s.parse().ok()).unwrap_or_else(|| usage()),
            "--evidence" => evidence = it.next().map(PathBuf::from),
            "--replay" => replay = it.next().map(PathBuf::from),
            _ => extra.push(a),
        }
    }
    let evidence =
        evidence.unwrap_or_else(|| verif_root().join("evidence").join(format!("{}.json", id)));
    Args {
        id,
        tier,
        seed,
        evidence,
        replay,
        extra,
    }
}

fn usage() -> ! {
    eprintln!("usage: <engine> <ID> [--tier quick|thorough] [--seed N] [--evidence FILE] [--replay FILE]");
    std::process::exit(2)
}

pub fn hash64<T: Hash + ?Sized>(t: &T) -> u64 {
    let mut h = DefaultHasher::new();
    t.hash(&mut h);
    h.finish()
}

#[derive(Clone, Debug)]
pub struct KnownFinding {
    pub property: String,
    pub key: String,
    pub status: String,
    pub what: String,
}

pub fn load_known() -> Vec<KnownFinding> {
    let p = verif_root().join("KNOWN_FINDINGS.json");
    let Ok(s) = std::fs::read_to_string(&p) else {
        return vec![];
    };
    let v: Value = match serde_json::from_str(&s) {
        Ok(v) => v,
        Err(e) => {
            eprintln!("cannot parse {}: {}", p.display(), e);
            std::process::exit(2);
        }
    };
    let mut out = vec![];
    for f in v["findings"].as_array().cloned().unwrap_or_default() {
        out.push(KnownFinding {
            property: f["property"].as_str().unwrap_or("").to_string(),
            key: f["key"].as_str().unwrap_or("").to_string(),
            status: f["status"].as_str().unwrap_or("").to_string(),
            what: f["what"].as_str().unwrap_or("").to_string(),
        });
    }
    out
}

pub struct Violation {
    pub key: String,
    pub what: String,
    pub replay: PathBuf,
}

/// Accounting for one sub-check (a generator + oracle pair); merged into the run's evidence.
pub struct Ctx {
    pub id: String,
    pub level: &'static str,
    pub tier: Tier,
    pub seed: u64,
    pub evidence_path: PathBuf,
    start: Instant,
    pub evaluations: u64,
    nontrivial: HashSet<u64>,
    samples: Vec<Value>,
    sample_cap: usize,
    pub classes: BTreeMap<String, u64>,
    pub excluded: BTreeMap<String, u64>,
    pub sections: BTreeMap<String, Value>,
    pub extra: BTreeMap<String, Value>,
    pub rule: String,
    pub assumptions: Vec<String>,
    pub exhaustive: Option<bool>,
    known: Vec<KnownFinding>,
    known_hit: BTreeSet<String>,
    pub violations: Vec<Violation>,
    pub inconclusive: Vec<String>,
    /// false while a property library is shrinking a failure (re-executions are not cases)
    pub counting: bool,
    pub suppressed: u64,
}

impl Ctx {
    pub fn new(args: &Args, level: &'static str) -> Ctx {
        Ctx {
            id: args.id.clone(),
            level,
            tier: args.tier,
            seed: args.seed,
            evidence_path: args.evidence.clone(),
            start: Instant::now(),
            evaluations: 0,
            nontrivial: HashSet::new(),
            samples: vec![],
            sample_cap: 12,
            classes: BTreeMap::new(),
            excluded: BTreeMap::new(),
            sections: BTreeMap::new(),
            extra: BTreeMap::new(),
            rule: String::new(),
            assumptions: vec![],
            exhaustive: None,
            known: load_known(),
            known_hit: BTreeSet::new(),
            violations: vec![],
            inconclusive: vec![],
            counting: true,
            suppressed: 0,
        }
    }

    /// Count one executed case. `nontrivial` is the hash of the canonical encoding of the case
    /// if (and only if) the case satisfies the property's stated non-triviality rule.
    pub fn case(&mut self, nontrivial: Option<u64>) {
        if !self.counting {
            return;
        }
        self.evaluations += 1;
        if let Some(h) = nontrivial {
            self.nontrivial.insert(h);
        }
    }

    pub fn class(&mut self, name: &str) {
        if !self.counting {
            return;
        }
        *self.classes.entry(name.to_string()).or_insert(0) += 1;
    }

    pub fn class_n(&mut self, name: &str, n: u64) {
        if !self.counting {
            return;
        }
        *self.classes.entry(name.to_string()).or_insert(0) += n;
    }

    pub fn exclude(&mut self, name: &str) {
        if !self.counting {
            return;
        }
        *self.excluded.entry(name.to_string()).or_insert(0) += 1;
    }

    /// Keep a few actual cases: the first ones of every sub-check plus a thin deterministic sample.
    pub fn sample(&mut self, v: impl FnOnce() -> Value) {
        if !self.counting {
            return;
        }
        let n = self.evaluations;
        let keep = self.samples.len() < self.sample_cap
            && (self.samples.len() < 3 || n.is_power_of_two() || n % 9973 == 0);
        if keep {
            self.samples.push(v());
        }
    }

    pub fn force_sample(&mut self, v: Value) {
        if self.samples.len() < self.sample_cap + 12 {
            self.samples.push(v);
        }
    }

    pub fn bump_sample_cap(&mut self, by: usize) {
        self.sample_cap = self.samples.len() + by;
    }

    pub fn nontrivial_count(&self) -> usize {
        self.nontrivial.len()
    }

    pub fn is_known_open(&self, key: &str) -> Option<&KnownFinding> {
        self.known
            .iter()
            .find(|k| k.property == self.id && k.key == key && k.status == "open")
    }

    /// Report a counterexample. If its key is a listed open finding it is printed as KNOWN-FINDING
    /// (once) and the run continues; otherwise a replay file is written and a VIOLATION line printed.
    /// Returns true when it was a new violation.
    pub fn violation(&mut self, key: &str, what: &str, kind: &str, case: Value) -> bool {
        if key.starts_with("HARNESS/") {
            // a self-check of the harness failed: never a verdict about the code under test
            self.inconclusive(&format!("harness self-check failed [{}]: {} case={}", key, what, case));
            return false;
        }
        if let Some(k) = self.is_known_open(key) {
            let line = format!("KNOWN-FINDING: property={} {} [{}]", self.id, k.what, key);
            if self.known_hit.insert(key.to_string()) {
                println!("{}", line);
            }
            return false;
        }
        if self.violations.iter().any(|v| v.key == key) {
            return true;
        }
        if self.violations.len() >= 8 {
            // enough distinct counterexamples reported; keep counting only
            self.suppressed += 1;
            return true;
        }
        let body = json!({
            "property": self.id,
            "kind": kind,
            "key": key,
            "what": what,
            "seed": self.seed,
            "tier": self.tier.name(),
            "case": case,
        });
        let h = hash64(&serde_json::to_string(&body).unwrap());
        let dir = verif_root().join("replays");
        let _ = std::fs::create_dir_all(&dir);
        let path = dir.join(format!("{}-{:016x}.json", self.id, h));
        if let Err(e) = std::fs::write(&path, serde_json::to_string_pretty(&body).unwrap()) {
            eprintln!("cannot write replay {}: {}", path.display(), e);
        }
        println!("VIOLATION property={} replay={}", self.id, path.display());
        println!("  key : {}", key);
        println!("  what: {}", what);
        self.violations.push(Violation {
            key: key.to_string(),
            what: what.to_string(),
            replay: path,
        });
        true
    }

    pub fn inconclusive(&mut self, what: &str) {
        println!("INCONCLUSIVE property={} {}", self.id, what);
        self.inconclusive.push(what.to_string());
    }

    pub fn failed(&self) -> bool {
        !self.violations.is_empty()
    }

    pub fn section(&mut self, name: &str, v: Value) {
        self.sections.insert(name.to_string(), v);
    }

    /// Write the evidence file and exit with the protocol's status.
    pub fn finish(self) -> ! {
        let wall = self.start.elapsed().as_secs_f64();
        let mut coverage = serde_json::Map::new();
        coverage.insert("evaluations".into(), json!(self.evaluations));
        coverage.insert("distinct_nontrivial".into(), json!(self.nontrivial.len()));
        coverage.insert("rule".into(), json!(self.rule));
        coverage.insert("samples".into(), Value::Array(self.samples.clone()));
        coverage.insert("classes".into(), json!(self.classes));
        coverage.insert("excluded_by_construction".into(), json!(self.excluded));
        if let Some(e) = self.exhaustive {
            coverage.insert("exhaustive".into(), json!(e));
        }
        coverage.insert("sections".into(), json!(self.sections));
        for (k, v) in &self.extra {
            coverage.insert(k.clone(), v.clone());
        }
        coverage.insert(
            "known_findings_hit".into(),
            json!(self.known_hit.iter().collect::<Vec<_>>()),
        );
        coverage.insert(
            "violation_keys".into(),
            json!(self.violations.iter().map(|v| &v.key).collect::<Vec<_>>()),
        );
        coverage.insert("inconclusive".into(), json!(self.inconclusive));
        coverage.insert("violations_not_listed".into(), json!(self.suppressed));
        let ev = json!({
            "property_id": self.id,
            "tier": self.tier.name(),
            "seed": self.seed,
            "level": self.level,
            "coverage": Value::Object(coverage),
            "assumptions": self.assumptions,
            "wall_s": wall,
            "violations": self.violations.len(),
        });
        if let Some(dir) = self.evidence_path.parent() {
            let _ = std::fs::create_dir_all(dir);
        }
        if let Err(e) = std::fs::write(
            &self.evidence_path,
            serde_json::to_string_pretty(&ev).unwrap() + "\n",
        ) {
            eprintln!("cannot write evidence {}: {}", self.evidence_path.display(), e);
            std::process::exit(2);
        }
        println!(
            "{} {}: evaluations={} distinct_nontrivial={} violations={} known={} wall={:.1}s",
            self.id,
            self.tier.name(),
            self.evaluations,
            self.nontrivial.len(),
            self.violations.len(),
            self.known_hit.len(),
            wall
        );
        if !self.violations.is_empty() {
            std::process::exit(1);
        }
        if !self.inconclusive.is_empty() {
            std::process::exit(2);
        }
        std::process::exit(0)
    }
}

/// Load the `case` member of a replay file.
pub fn load_replay(path: &std::path::Path) -> Value {
    let s = std::fs::read_to_string(path).unwrap_or_else(|e| {
        eprintln!("cannot read replay {}: {}", path.display(), e);
        std::process::exit(2)
    });
    serde_json::from_str(&s).unwrap_or_else(|e| {
        eprintln!("cannot parse replay {}: {}", path.display(), e);
        std::process::exit(2)
    })
}

/// Thread-local accumulator for parallel enumerations; merged into the Ctx afterwards.
#[derive(Default)]
pub struct Acc {
    pub evaluations: u64,
    pub nontrivial: HashSet<u64>,
    pub classes: BTreeMap<String, u64>,
    pub samples: Vec<Value>,
    /// first failure met by this worker: (order index, key, what, case)
    pub fail: Option<(u64, String, String, Value)>,
}

impl Acc {
    pub fn case(&mut self, nontrivial: Option<u64>) {
        self.evaluations += 1;
        if let Some(h) = nontrivial {
            self.nontrivial.insert(h);
        }
    }
    pub fn class(&mut self, name: &str) {
        *self.classes.entry(name.to_string()).or_insert(0) += 1;
    }
    pub fn sample(&mut self, v: impl FnOnce() -> Value) {
        if self.samples.len() < 2 {
            self.samples.push(v());
        }
    }
    pub fn fail(&mut self, order: u64, key: &str, what: &str, case: Value) {
        let better = match &self.fail {
            None => true,
            Some((o, ..)) => order < *o,
        };
        if better {
            self.fail = Some((order, key.to_string(), what.to_string(), case));
        }
    }
}

impl Ctx {
    /// Merge worker accumulators. Failures are reported smallest order index first; known
    /// findings are reported as such.
    pub fn merge(&mut self, accs: Vec<Acc>, kind: &str) {
        let mut fails = vec![];
        for a in accs {
            self.evaluations += a.evaluations;
            self.nontrivial.extend(a.nontrivial);
            for (k, v) in a.classes {
                *self.classes.entry(k).or_insert(0) += v;
            }
            for s in a.samples {
                if self.samples.len() < self.sample_cap {
                    self.samples.push(s);
                }
            }
            if let Some(f) = a.fail {
                fails.push(f);
            }
        }
        fails.sort_by_key(|f| f.0);
        for (_, key, what, case) in fails {
            self.violation(&key, &what, kind, case);
        }
    }
}

/// Run `f(worker_index, nworkers)` on `n` threads and collect the accumulators.
pub fn parallel<F>(n: usize, f: F) -> Vec<Acc>
where
    F: Fn(usize, usize) -> Acc + Sync,
{
    std::thread::scope(|s| {
        let hs: Vec<_> = (0..n).map(|w| {
            let f = &f;
            s.spawn(move || f(w, n))
        }).collect();
        hs.into_iter().map(|h| h.join().expect("worker panicked")).collect()
    })
}

pub fn ncpu() -> usize {
    std::thread::available_parallelism().map(|n| n.get()).unwrap_or(4).min(16)
}
