//! Message classifier for C06: is a NUL-delimited piece a malformed varlink request, a well-formed
//! one, or something the statement does not decide?

use serde::de::{self, Deserializer, IgnoredAny, MapAccess, Visitor};
use serde_json::Value;

#[derive(Clone, Debug, PartialEq)]
pub enum Class {
    Malformed(&'static str),
    WellFormed(Value),
    Unspecified(&'static str),
}

struct TopKeys(Vec<String>);

impl<'de> de::Deserialize<'de> for TopKeys {
    fn deserialize<D: Deserializer<'de>>(d: D) -> Result<Self, D::Error> {
        struct V;
        impl<'de> Visitor<'de> for V {
            type Value = TopKeys;
            fn expecting(&self, f: &mut std::fmt::Formatter) -> std::fmt::Result {
                f.write_str("an object")
            }
            fn visit_map<A: MapAccess<'de>>(self, mut m: A) -> Result<TopKeys, A::Error> {
                let mut keys = vec![];
                while let Some(k) = m.next_key::<String>()? {
                    m.next_value::<IgnoredAny>()?;
                    keys.push(k);
                }
                Ok(TopKeys(keys))
            }
        }
        d.deserialize_map(V)
    }
}

/// Maximum bracket nesting outside of strings.
pub fn nesting(piece: &[u8]) -> usize {
    let mut depth = 0usize;
    let mut max = 0usize;
    let mut in_str = false;
    let mut esc = false;
    for &b in piece {
        if in_str {
            if esc {
                esc = false;
            } else if b == b'\\' {
                esc = true;
            } else if b == b'"' {
                in_str = false;
            }
            continue;
        }
        match b {
            b'"' => in_str = true,
            b'[' | b'{' => {
                depth += 1;
                max = max.max(depth);
            }
            b']' | b'}' => depth = depth.saturating_sub(1),
            _ => {}
        }
    }
    max
}

/// The members the protocol defines, built as values; everything else is skipped unread.
#[derive(serde_derive::Deserialize)]
#[allow(dead_code)]
struct KnownMembers {
    method: Option<Value>,
    more: Option<Value>,
    oneway: Option<Value>,
    upgrade: Option<Value>,
    parameters: Option<Value>,
}

pub fn classify(piece: &[u8]) -> Class {
    if std::str::from_utf8(piece).is_err() {
        return Class::Malformed("not UTF-8");
    }
    let n = nesting(piece);
    if (120..=136).contains(&n) {
        return Class::Unspecified("nesting close to serde_json's recursion limit");
    }
    let v: Value = match serde_json::from_slice(piece) {
        Ok(v) => v,
        Err(_) => {
            // the text may still follow the JSON grammar: a number outside the decoder's range or a
            // lone surrogate escape is rejected when a value is built but skipped unread inside a
            // member the request type does not know (found by the c06_handle campaign:
            // {"method":"...","x":222222222e2222232222}). Grammatical JSON that only the value
            // builder rejects is not "invalid JSON": no verdict either way.
            if serde_json::from_slice::<serde::de::IgnoredAny>(piece).is_ok() && serde_json::from_slice::<KnownMembers>(piece).is_ok() {
                return Class::Unspecified("JSON by grammar; a value no decoder can build (number range, lone surrogate) sits in a member the protocol does not define");
            }
            return Class::Malformed("not JSON");
        }
    };
    let o = match &v {
        Value::Object(o) => o,
        Value::Array(_) => return Class::Unspecified("top-level array (serde accepts positional structs)"),
        _ => return Class::Malformed("top level is not an object"),
    };
    if let Ok(TopKeys(keys)) = serde_json::from_slice::<TopKeys>(piece) {
        let known = ["method", "more", "oneway", "upgrade", "parameters"];
        for k in known {
            if keys.iter().filter(|x| x.as_str() == k).count() > 1 {
                return Class::Unspecified("duplicate member");
            }
        }
    }
    match o.get("method") {
        Some(Value::String(_)) => {}
        _ => return Class::Malformed("method missing or not a string"),
    }
    for f in ["more", "oneway", "upgrade"] {
        match o.get(f) {
            None | Some(Value::Null) | Some(Value::Bool(_)) => {}
            _ => return Class::Malformed("flag is neither bool nor null"),
        }
    }
    Class::WellFormed(v)
}
