//! Constants of the harness' test service ("T-service"); the service itself (bindings generated at
//! build time by /repo's generator) lives in the crate `vl-tsvc`, so that the parser / generator
//! engines do not depend on the generator at build time.

pub const IDL_TEST: &str = include_str!("../../vl-tsvc/idl/org.verif.test.varlink");
pub const IDL_VERIF: &str = include_str!("../../vl-tsvc/idl/org.verif.varlink");
pub const IDL_TEST_2: &str = include_str!("../../vl-tsvc/idl/org.verif.test-2.varlink");
pub const IDL_TEST_UPPER: &str = include_str!("../../vl-tsvc/idl/org.verif.Test.varlink");

/// what the T-service's upgraded handler sends unasked when the upgrade request's token starts with "greet"
pub const GREETING: &[u8] = b"HELLO FROM THE SERVICE\0 (no line end)";

pub const VENDOR: &str = "org.verif";
pub const PRODUCT: &str = "verif \"T\" service";
pub const VERSION: &str = "0.1-\u{00e9}";
pub const URL: &str = "http://verif.invalid/?a=b&c";

pub const REGISTERED: [&str; 4] = [
    "org.verif.test",
    "org.verif",
    "org.verif.test-2",
    "org.verif.Test",
];
