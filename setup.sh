#!/bin/bash
# Build the framework from files on disk only (offline). Run once after a fresh restore.
set -e
cd /verif
export CARGO_NET_OFFLINE=true RUST_BACKTRACE=0
mkdir -p .cache/tmp evidence replays
( cd harness && cargo build -q --workspace )
# /repo's own binaries used by the process-level checks; built into the harness cache
( cd /repo && cargo build -q --offline -p varlink-cli -p varlink-certification -p varlink_generator -p ping \
    --target-dir /verif/.cache/repo-target )
echo "setup ok"
